import sys, json, time, importlib
sys.path.insert(0,'/verif')
from lib import cbmc, engine
from lib.core import Undecided
from concurrent.futures import ThreadPoolExecutor
mod=importlib.import_module('units.'+sys.argv[1])
kw={}
us=mod.units('quick')
if len(sys.argv)>2: us=[u for u in us if sys.argv[2] in u['unit']]
print(len(us))
t=time.time()
with ThreadPoolExecutor(16) as ex:
    rs=list(ex.map(engine.run_unit, us))
for r in rs:
    print(r['unit'], r['status'], r['obligations'], r['discharged'], 'lc=%s'%r.get('loop_contract_obligations'), r.get('reason',''), [f['name'] for f in r.get('failed',[])][:6], r.get('wall_s'))
    for v in r.get('violations',[]): print('   VIOL', v['kind'], v['what'][:200], v['data']['inputs'], 'NOINPUT=%s'%v['no_input'], v['data']['native_replay'][:200])
print(time.time()-t)
