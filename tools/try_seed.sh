#!/bin/bash
# try_seed.sh <seed dir with patch.diff> <property ids...> : apply to /repo, run the quick checks, undo.
D=$(readlink -f $1); shift
git -C /repo status --short | grep -v '^??' && { echo "/repo not clean"; exit 2; }
git -C /repo apply $D/patch.diff || { echo "patch does not apply"; exit 2; }
cd /verif
for P in "$@"; do
  VERIF_TIER=quick python3 check.py $P > /tmp/seed_$P.out 2>&1; rc=$?
  echo "== $P exit=$rc"; grep -E "^VIOLATION|^# violated|^UNDECIDED|^OK|KNOWN" /tmp/seed_$P.out | cut -c1-260 | head -8
done
git -C /repo checkout -- . ; git -C /repo status --short | grep -v '^??'
git -C /verif checkout -- evidence 2>/dev/null
