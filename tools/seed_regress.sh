#!/bin/bash
# seed_regress.sh [seed names...] : for every kept seeded change, apply it in a scratch worktree of /repo HEAD (never in
# /repo itself), run the quick check of the property it breaks with VERIF_REPO pointing there, and expect exit 1 with a
# VIOLATION line.  Benign refactorings under seeded/benign/* are run through ALL quick checks and must never exit 1.
# Evidence files written by these runs describe a modified tree, so they are restored afterwards.
cd /verif
WT=/tmp/wt/SR$$
git -C /repo worktree add --detach -f $WT HEAD >/dev/null 2>&1 || { echo "cannot create worktree"; exit 2; }
trap 'git -C /repo worktree remove --force $WT; git -C /verif checkout -- evidence 2>/dev/null' EXIT
fail=0
SEEDS="$@"; [ -z "$SEEDS" ] && SEEDS=$(ls seeded | grep '^S')
[ -n "$ONLY_BENIGN" ] && SEEDS=""   # ONLY_BENIGN=1: just the benign refactorings
for S in $SEEDS; do
  [ -f seeded/$S/patch.diff ] || continue
  P=$(python3 -c "import json;print(json.load(open('seeded/$S/meta.json'))['breaks_property'])")
  git -C $WT checkout -q -- . ; git -C $WT apply /verif/seeded/$S/patch.diff || { echo "$S: patch does not apply"; fail=1; continue; }
  VERIF_REPO=$WT VERIF_TIER=quick python3 check.py $P > /tmp/sr_$S.out 2>&1; rc=$?
  if [ $rc -eq 1 ] && grep -q "^VIOLATION property=$P" /tmp/sr_$S.out; then echo "$S $P caught: $(grep -m1 '^# violated' /tmp/sr_$S.out | cut -c1-160)";
  else echo "$S $P MISSED exit=$rc: $(grep -E '^UNDECIDED|^OK' /tmp/sr_$S.out | head -2 | cut -c1-200)"; fail=1; fi
done
if [ -z "$1" ]; then
for B in $(ls seeded/benign 2>/dev/null); do
  git -C $WT checkout -q -- . ; git -C $WT apply /verif/seeded/benign/$B/patch.diff || { echo "$B: patch does not apply"; fail=1; continue; }
  for P in C01 C02 C03 C04 C05 C06 C07 C08 C09 C10 C11 C12 C13 C14 C15 C16 C17 C18 C20; do
    VERIF_REPO=$WT VERIF_TIER=quick python3 check.py $P > /tmp/sr_$B_$P.out 2>&1; rc=$?
    [ $rc -eq 1 ] && { echo "benign $B $P FALSE ALARM"; fail=1; }
    [ $rc -eq 2 ] && echo "benign $B $P undecided: $(grep -m2 '^UNDECIDED' /tmp/sr_$B_$P.out | cut -c1-200)"
    [ $rc -eq 0 ] && echo "benign $B $P ok"
  done
done
fi
exit $fail
