#!/bin/bash
# process_seed.sh <worktree> <seed name> <property> [more properties]: confirm the change (tests pass, demo fails with / passes without),
# store it under seeded/<name>, run the quick check(s) with VERIF_REPO=<worktree> (the change is applied there, /repo is not touched).
WT=$1; NAME=$2; shift 2
cd /verif
TMO=${TMO:-900} tools/confirm_seed.sh $WT 2>&1 | grep -v conda | tail -12
mkdir -p seeded/$NAME
(cd $WT && git diff -- include src) > seeded/$NAME/patch.diff
for f in demo.cpp demo.sh notes.txt; do [ -f $WT/OUT/$f ] && cp $WT/OUT/$f seeded/$NAME/; done
for f in $WT/OUT/*.dimacs $WT/OUT/*.txt $WT/OUT/*.hpp; do [ -f "$f" ] && [ $(stat -c %s "$f") -lt 200000 ] && cp "$f" seeded/$NAME/ 2>/dev/null; done
for P in "$@"; do
  VERIF_REPO=$WT VERIF_TIER=quick python3 check.py $P > /tmp/ps_${NAME}_$P.out 2>&1; rc=$?
  echo "== $P exit=$rc"; grep -E "^VIOLATION|^# violated|^UNDECIDED|^OK" /tmp/ps_${NAME}_$P.out | cut -c1-300 | head -8
done
git -C /verif checkout -- evidence 2>/dev/null
