#!/usr/bin/env python3
"""status_table.py: rewrite the table between the STATUS markers of DESIGN.md from /verif/evidence/*.json (quick tier, unchanged tree)."""
import json, glob, os, re
V = os.path.dirname(os.path.dirname(os.path.abspath(__file__)))
rows = ["| property | tier | CBMC units | obligations discharged (of which in unbounded proofs) | bounded evaluations | solver s | wall s | result |",
        "|---|---|---|---|---|---|---|---|"]
for f in sorted(glob.glob(os.path.join(V, "evidence", "C*.json"))):
    e = json.load(open(f)); c = e["coverage"]
    proved = sum(1 for v in c.get("functions_under_contract", {}).values() if str(v).startswith(("proved", "proof")))
    res = "violations: %d" % e["violations"] if e["violations"] else ("undecided" if c.get("undecided") else ("holds; known finding printed (%d site/kind pairs)" % len(c["known_findings_hit"]) if c.get("known_findings_hit") else "holds"))
    rows.append("| %s | %s | %d | %d / %d (%d) | %d | %.0f | %.0f | %s |" % (e["property_id"], e["tier"], len(c.get("cbmc_units", [])), c.get("discharged", 0), c.get("obligations", 0),
                c.get("obligations_in_unbounded_proofs", 0), c.get("evaluations", 0), c.get("solver_s_total", 0.0), e.get("wall_s", 0.0), res))
p = os.path.join(V, "DESIGN.md")
s = open(p).read()
a, b = "<!-- STATUS-BEGIN -->", "<!-- STATUS-END -->"
if a in s:
    s = s[:s.index(a) + len(a)] + "\n" + "\n".join(rows) + "\n" + s[s.index(b):]
    open(p, "w").write(s)
print("\n".join(rows))
