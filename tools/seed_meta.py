#!/usr/bin/env python3
"""seed_meta.py <seed dir> <property> <needs> <caught_by> <what_was_run> : write meta.json"""
import json, sys, os
d, prop, needs, caught, ran = sys.argv[1:6]
json.dump(dict(breaks_property=prop, needs_to_manifest=needs, detected_by=caught, what_was_run=ran,
               files=sorted(os.listdir(d))), open(os.path.join(d, "meta.json"), "w"), indent=1)
