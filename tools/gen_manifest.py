#!/usr/bin/env python3
"""Regenerate MANIFEST.json from the table below (kept in one place so it stays valid)."""
import json, os, sys
HERE = os.path.dirname(os.path.dirname(os.path.abspath(__file__)))
sys.path.insert(0, HERE)
from tools.manifest_table import CHECKS, NOT_APPLICABLE, HOOK_COMMITS

ids = ["C%02d" % i for i in range(1, 21)]
checks = []
for pid in ids:
    if pid not in CHECKS:
        continue
    c = CHECKS[pid]
    checks.append(dict(
        property_id=pid,
        quick_cmd="VERIF_TIER=quick python3 check.py %s" % pid,
        thorough_cmd="VERIF_TIER=thorough python3 check.py %s" % pid,
        evidence_file="evidence/%s.json" % pid,
        replay_cmd_template="python3 check.py --replay {path}",
        engine=c["engine"],
        level_claimed=dict(category=c["category"], text=c["text"], design_ref=c["design_ref"]),
        level_note=c["note"],
        technique=c["technique"]))
na = [dict(property_id=p, reason=NOT_APPLICABLE[p]) for p in ids if p in NOT_APPLICABLE]
assert set(CHECKS) | set(NOT_APPLICABLE) == set(ids), "every property must be claimed or listed not_applicable"
assert not (set(CHECKS) & set(NOT_APPLICABLE))
m = dict(
    version=1,
    setup_cmd="python3 check.py --setup",
    hooks=dict(
        guard="PARMCB_VERIF",
        enable="checks compile /repo's working tree with -DPARMCB_VERIF (lib/native.py); CBMC units extract text from the working tree directly",
        baseline_off_cmd="cmake -S /repo -B /repo/_build -G Ninja >/dev/null && cmake --build /repo/_build && ctest --test-dir /repo/_build -j8 --timeout 900",
        source_commits=HOOK_COMMITS,
        add_only=True),
    engines=[
        dict(name="E1-region-extraction-DFCC", path="lib/xtract.py lib/cbmc.py units/",
             serves_properties=sorted(p for p in CHECKS if "E1" in CHECKS[p]["engine"]),
             kind_free_text="function/loop bodies copied verbatim from /repo on every run, declared token rewrites with must-fire counts, side-car CBMC contracts, goto-instrument --dfcc --enforce-contract / --replace-call-with-contract / --apply-loop-contracts, cbmc SAT back end"),
        dict(name="E2-real-header-C++-front-end", path="stubs/cxx units/",
             serves_properties=sorted(p for p in CHECKS if "E2" in CHECKS[p]["engine"]),
             kind_free_text="unmodified headers through CBMC's C++ front end with stub std headers; harness-level contracts; bounded by vector length"),
        dict(name="E3-bounded-contract-enforcement", path="lib/native.py harness/ contracts/",
             serves_properties=sorted(p for p in CHECKS if "E3" in CHECKS[p]["engine"]),
             kind_free_text="bounded stand-in: the real templates compiled by g++ are executed on every member of a stated finite precondition space and the contract postcondition is evaluated by independent spec functions; labelled bounded, never proof"),
    ],
    checks=checks,
    notes="Contract-based deductive verification with CBMC 6.11 code contracts; see DESIGN.md. Exit codes: 0 held, 1 VIOLATION, 2 UNDECIDED (time-out / extraction out of date / proof no longer fits).",
    not_applicable=na)
with open(os.path.join(HERE, "MANIFEST.json"), "w") as f:
    json.dump(m, f, indent=1)
print("MANIFEST.json: %d checks, %d not applicable" % (len(checks), len(na)))
