#!/bin/bash
# confirm_seed.sh <worktree> : in a scratch worktree that has a seeded change applied (uncommitted) and OUT/demo.cpp|demo.sh,
# confirm: (1) existing tests pass with the change, (2) demo fails with it, (3) demo passes without it.
set -u
WT=$1
cd $WT || exit 2
git diff -- include src > /tmp/seed_patch_$$.diff
[ -s /tmp/seed_patch_$$.diff ] || { echo "no change applied in $WT"; exit 2; }
build_demo() {
  if [ -f OUT/demo.cpp ]; then g++ -std=c++14 -O1 -w ${SEED_FLAGS:-} -DPARMCB_VERIF -DPARMCB_INVARIANTS_CHECK -I$WT/include -I$WT/_build/include OUT/demo.cpp -o OUT/demo.bin -ltbb -lboost_timer -lpthread 2>&1 | tail -3; fi
}
run_demo() {
  if [ -f OUT/demo.cpp ]; then (cd OUT && timeout 600 ./demo.bin >/tmp/seed_demo_$$.out 2>&1; echo $?)
  else (cd OUT && timeout 900 bash ./demo.sh >/tmp/seed_demo_$$.out 2>&1; echo $?); fi
}
echo "== tests with the change"
cmake -S $WT -B $WT/_build -G Ninja -DCMAKE_BUILD_TYPE=RelWithDebInfo >/dev/null 2>&1
cmake --build $WT/_build -j8 2>&1 | tail -1
ctest --test-dir $WT/_build -j4 2>&1 | grep -E "tests passed|tests failed"
echo "== demo with the change (expect non-zero)"
build_demo; W=$(run_demo); echo "exit=$W"; tail -3 /tmp/seed_demo_$$.out
echo "== demo without the change (expect 0)"
git apply -R /tmp/seed_patch_$$.diff
if [ -f OUT/demo.sh ]; then cmake --build $WT/_build -j8 2>&1 | tail -1; fi
build_demo; WO=$(run_demo); echo "exit=$WO"; tail -2 /tmp/seed_demo_$$.out
git apply /tmp/seed_patch_$$.diff
if [ -f OUT/demo.sh ]; then cmake --build $WT/_build -j8 2>&1 | tail -1; fi
echo "RESULT with=$W without=$WO"
