"""Single source for MANIFEST.json (tools/gen_manifest.py)."""
HOOK_COMMITS = []

WIP = "check not built yet in this round (work in progress; see DESIGN.md section 4 for the plan)"

CHECKS = {
 "C01": dict(
    engine="E1+E3", category="other", design_ref="DESIGN.md 4/C01, 3 (K4,K6,K16)",
    technique="CBMC DFCC function+loop contracts on extracted update loop / swap (unbounded proof) + bounded enforcement of the whole-function contract on the real templates",
    text="Independence mechanism proved deductively for all cycle-space dimensions (support-update loop K4 at 3 sites, sparsest-support swap K6 at 2 sites, modular over SpVecGF2 operator contracts); the whole-function postcondition (count, simple cycles of the caller's edges, GF(2) rank) is a bounded stand-in: all labelled graphs n<=5 (thorough 6), all weightings n<=4, tie-heavy families, seeded random n<=9, double and int.",
    note="Assumes: SpVecGF2 operator contracts K2/K3 (checked bounded under C17), view abstraction to 64 coordinates, ForestIndex bijection (C16), search-function contracts K9-K11 only bounded. CBMC, goto-instrument, g++/Boost trusted."),
 "C02": dict(
    engine="E1+E3", category="other", design_ref="DESIGN.md 4/C02, 3 (K9,K10,K12,K16)",
    technique="CBMC contracts on loop-free arithmetic helpers (proof) + bounded enforcement of the minimum-odd-cycle contracts of the search functions and of the whole-function optimality contract against independent oracles",
    text="Minimality is not expressible as a CBMC contract; it is decomposed (de Pina) into per-phase 'minimum odd cycle' contracts. Proved: closed_plus and the scalar prefix of the label order (full domain). Bounded: bidirectional_signed_dijkstra for every witness set/start vertex/hidden chain/limit against a two-level shortest-path oracle, OddCycleFinder::find against enumerated odd cycles, whole functions against brute-force + Horton oracles (returned value = emitted sum = optimum, sorted weight vectors equal).",
    note="Assumes exact-domain weights; oracles trusted after mutual cross-check; tree-variant search contracts (K11) covered through the whole-function runs and C14. Nothing about minimality is proved deductively."),
 "C17": dict(
    engine="E2+E3", category="other", design_ref="DESIGN.md 4/C17, 3 (K1-K3)",
    technique="CBMC C++ front end on the unmodified header, harness-level contracts (assume canonical arbitrary state / assert canon+view), one run per length pair; native replay and seeded histories",
    text="Per-operation contracts over arbitrary canonical states make the history induction trivial; the vector length is bounded: every length pair in [0,3]^2 (thorough [0,4]^2 where the cap allows) with unconstrained 64-bit coordinates, aliasing cases, all constructors/assignments/clear with symbolic length <= 4. Bounded, not proof.",
    note="Assumes the stub <vector>/<set> are a faithful contract of the standard containers; -Dauto=const_iterator and -Dprivate=public are the only substitutions. add() excluded (unreachable, asserts on *end())."),
 "C18": dict(
    engine="E1+E3", category="other", design_ref="DESIGN.md 4/C18, 3 (K19-K22)",
    technique="CBMC DFCC contracts on extracted fp.hpp functions: full-domain proof of the loop-free paths and of get_mult_inverse against ext_gcd's contract; unwinding-bounded Euclid loop and is_prime; native exhaustive grids incl. cpp_int; native replay of counterexamples",
    text="Proof over all int64 for ext_gcd's zero-argument paths and for get_mult_inverse modulo ext_gcd's contract; bounded (unwinding) for the Euclid loop and is_prime; bounded native enumeration for long and cpp_int incl. SpVecFP histories. Found and repaired: ext_gcd(a<0,0), is_prime(2).",
    note="Machine integers treated as such (arguments > T_MIN); congruence step p*y mod p = 0 and all cpp_int behaviour only checked natively; libm sqrt assumed to be floor sqrt."),
}

NOT_APPLICABLE = {p: WIP for p in ["C%02d" % i for i in range(1, 21)] if p not in CHECKS}
NOT_APPLICABLE["C19"] = "Compile/link-time facts about translation units (self-contained headers, ODR): no function pre/postcondition states them and CBMC cannot parse these headers; deciding it needs a compile/link loop, which is a different technique."
