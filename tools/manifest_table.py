"""Single source for MANIFEST.json (tools/gen_manifest.py)."""
HOOK_COMMITS = []

WIP = "check not built yet in this round (work in progress; see DESIGN.md section 4 for the plan)"

CHECKS = {
 "C01": dict(
    engine="E1+E3", category="other", design_ref="DESIGN.md 4/C01, 3 (K4,K6,K16)",
    technique="CBMC DFCC function+loop contracts on extracted update loop / swap (unbounded proof) + bounded enforcement of the whole-function contract on the real templates",
    text="Independence mechanism proved deductively for all cycle-space dimensions (support-update loop K4 at 3 sites, sparsest-support swap K6 at 2 sites, modular over SpVecGF2 operator contracts); the whole-function postcondition (count, simple cycles of the caller's edges, GF(2) rank) is a bounded stand-in: all labelled graphs n<=5 (thorough 6), all weightings n<=4, tie-heavy families, seeded random n<=9, double and int.",
    note="Assumes: SpVecGF2 operator contracts K2/K3 (checked bounded under C17), view abstraction to 64 coordinates, ForestIndex bijection (C16), search-function contracts K9-K11 only bounded. CBMC, goto-instrument, g++/Boost trusted."),
}

NOT_APPLICABLE = {p: WIP for p in ["C%02d" % i for i in range(1, 21)] if p not in CHECKS}
NOT_APPLICABLE["C19"] = "Compile/link-time facts about translation units (self-contained headers, ODR): no function pre/postcondition states them and CBMC cannot parse these headers; deciding it needs a compile/link loop, which is a different technique."
