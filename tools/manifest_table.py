"""Single source for MANIFEST.json (tools/gen_manifest.py)."""
HOOK_COMMITS = ["ff3097a verif hook: read-only accessors to the spanner (H1)", "e313178 verif hook: demos print the active TBB parallelism limit (H2)"]

WIP = "check not built yet in this round (work in progress; see DESIGN.md section 4 for the plan)"

CHECKS = {
 "C01": dict(
    engine="E1+E3", category="other", design_ref="DESIGN.md 4/C01, 3 (K4,K6,K16)",
    technique="CBMC DFCC function+loop contracts on the extracted update loop / swap (unbounded in csd), on the phase of mcb_sva_signed (modular against the search contract) and on the COMPOSED main loops (quantified invariants, csd<=8/10: unit lower-triangular witness/cycle incidence) + bounded enforcement of the whole-function contract on the real templates",
    text="Independence mechanism proved deductively for all cycle-space dimensions (support-update loop K4 at 3 sites, sparsest-support swap K6 at 2 sites, modular over SpVecGF2 operator contracts); the whole-function postcondition (count, simple cycles of the caller's edges, GF(2) rank) is a bounded stand-in: all labelled graphs n<=5 (thorough 6), all weightings n<=4, tie-heavy families, seeded random n<=9, double and int.",
    note="Assumes: SpVecGF2 operator contracts K2/K3 (checked bounded under C17), view abstraction to 64 coordinates, ForestIndex bijection (C16), search-function contracts K9-K11 only bounded. CBMC, goto-instrument, g++/Boost trusted."),
 "C02": dict(
    engine="E1+E3", category="other", design_ref="DESIGN.md 4/C02, 3 (K9,K10,K12,K16)",
    technique="CBMC contracts: loop-free arithmetic helpers (proof); the phase of mcb_sva_signed and the sorted tree lookup proved modularly against the contracts of the search / candidate builder (loop contracts); sortedness of the candidate list (std::sort contracts); candidate builder, update_parities and the composed main loops as bounded CBMC units + bounded enforcement of the minimum-odd-cycle contracts of the search functions and of the whole-function optimality contract against independent oracles",
    text="Minimality is not expressible as a CBMC contract; it is decomposed (de Pina) into per-phase 'minimum odd cycle' contracts. Proved: closed_plus and the scalar prefix of the label order (full domain). Bounded: bidirectional_signed_dijkstra for every witness set/start vertex/hidden chain/limit against a two-level shortest-path oracle, OddCycleFinder::find against enumerated odd cycles, whole functions against brute-force + Horton oracles (returned value = emitted sum = optimum, sorted weight vectors equal).",
    note="Assumes exact-domain weights; oracles trusted after mutual cross-check; tree-variant search contracts (K11) additionally by a bounded CBMC unit with small weights (n<=4/5). The global optimum itself is not proved deductively."),
 "C17": dict(
    engine="E2+E3", category="other", design_ref="DESIGN.md 4/C17, 3 (K1-K3)",
    technique="CBMC C++ front end on the unmodified header, harness-level contracts (assume canonical arbitrary state / assert canon+view), one run per length pair; native replay and seeded histories",
    text="Per-operation contracts over arbitrary canonical states make the history induction trivial; the vector length is bounded: every length pair in [0,3]^2 (thorough [0,4]^2 where the cap allows) with unconstrained 64-bit coordinates, aliasing cases, all constructors/assignments/clear with symbolic length <= 4. Bounded, not proof.",
    note="Assumes the stub <vector>/<set> are a faithful contract of the standard containers; -Dauto=const_iterator and -Dprivate=public are the only substitutions. add() excluded (unreachable, asserts on *end())."),
 "C18": dict(
    engine="E1+E3", category="other", design_ref="DESIGN.md 4/C18, 3 (K19-K22, K22b, K22c), 10.16",
    technique="CBMC DFCC contracts on extracted fp.hpp functions: full-domain proof of the loop-free paths and of get_mult_inverse against ext_gcd's contract; loop contracts with quantified invariants on the extracted SpVecFP::operator+ (all five loops; <=2/3 entries, every index, value and modulus below 2^15) and operator*(scalar) (all three loops; <=4/8 entries; the product expression opaque, its range and overflow-freedom by the loop-free lemma unit K22c_expr); unwinding-bounded Euclid loop, is_prime and the other SpVecFP operations; native exhaustive grids incl. cpp_int; native replay of counterexamples",
    text="Proof over all int64 for ext_gcd's zero-argument paths and for get_mult_inverse modulo ext_gcd's contract; SpVecFP::operator+ proved for operands of <=2/3 entries (canonical result, every coordinate = (a+b) mod p, nothing lost) and SpVecFP::operator*(scalar) for <=4/8 entries relative to the range of `(value * a) % p`; bounded (unwinding) for the Euclid loop, is_prime and the remaining SpVecFP operations; bounded native enumeration for long and cpp_int incl. SpVecFP histories. Found and repaired: ext_gcd(a<0,0), is_prime(2).",
    note="Machine integers treated as such (arguments > T_MIN); in K22c the scalar and modulus are below 2^15 (K22c_expr: no overflow, remainder in (-p, p)); congruence step p*y mod p = 0 and all cpp_int behaviour only checked natively; libm sqrt assumed to be floor sqrt."),
 "C10": dict(
    engine="E1+E3", category="other", design_ref="DESIGN.md 4/C10, 3 (K24,K25)",
    technique="CBMC DFCC contract on the extracted fgets/strip step with fgets/strlen contracts and a ghost index (proof for every 1024-byte buffer), on the extracted edge-line branch with the sscanf contract (undeclared vertex => error, default weight 1; proof), loop contracts on the three extracted predicates (has_loops / has_non_positive_weights unbounded in m with a ghost edge, has_multiple_edges n<=5 with quantified invariants) + bounded enforcement of the reader/validator contracts against a grammar enumerator",
    text="Line normalisation proved for every buffer satisfying the fgets contract (content preserved, only a trailing newline removed). The rest of the reader and the three predicates are a bounded stand-in: every text of a small DIMACS grammar (with/without final newline, comments in every slot, all weight forms, undeclared vertex) and every small multigraph. Found and repaired: last line without newline lost its last character.",
    note="sscanf/fgets executed from the real libc, not modelled; lines shorter than the buffer only; grammar bounded (n<=4, <=3/4 edge lines)."),
 "C12": dict(
    engine="E1+E3", category="other", design_ref="DESIGN.md 4/C12, 3 (K12)",
    technique="CBMC contracts on closed_plus and on the complete label comparator incl. its set-difference tail with order laws as lemmas (proof, full 64-bit domain), loop contracts with quantified invariants on the extracted SPTree::initialize incl. the SPNode constructors (n<=4/6), bounded CBMC on compute_first_in_path (trees <= 5/6 nodes), loop contracts on the extracted lex_dijkstra (distances and predecessor tree, n<=4/5) and LexDistanceCombine (proof) + bounded enforcement of the SPTree contract against Floyd-Warshall and path-consistency checks",
    text="Arithmetic prefix of the label order and closed_plus proved over the full domain; the property statement itself (exact distances, tree, first(), reverse- and sub-path consistency for every ordered pair) is a bounded stand-in on all labelled graphs n<=6, tie-heavy families and seeded random graphs.",
    note="The tie-breaking of lex_dijkstra (which shortest path) is only bounded; exact-domain weights; the set-difference tail of the comparator is checked natively on all equal-size subsets of {0..5}."),
 "C13": dict(
    engine="E1+E3", category="other", design_ref="DESIGN.md 4/C13, 3 (K13), 10.9",
    technique="CBMC DFCC loop contracts on the extracted greedy_fvs (eight loops; invariants quantified over the bounded vertex range with explicit neighbour counts; deque and pairing heap through their contracts) for n<=4 (thorough 5) + bounded enforcement of the whole contract (union-find acyclicity oracle) on all labelled graphs n<=6 plus families and seeded graphs",
    text="Proved for n<=4/5: everything is removed, each vertex emitted at most once, a vertex removed without being emitted has at most one remaining neighbour, after the first cleanup every remaining vertex has two remaining neighbours, heap handles valid; acyclicity of the remainder and 'forest emits nothing' follow by two informal lemmas. Bounded stand-in: exhaustive over all labelled graphs with at most 6 vertices, plus tie-heavy families and seeded random graphs with pendant trees.",
    note="Termination of the cleanup loops not proved. Deque as multiset, heap as set with arbitrary top (over-approximations of the containers)."),
 "C14": dict(
    engine="E1+E3", category="other", design_ref="DESIGN.md 4/C14, 3 (K14)",
    technique="CBMC DFCC loop contracts on the extracted SPTree::create_candidate_cycles (emission iff-condition, recorded weight) + bounded enforcement of the collection contracts (soundness of each candidate, nesting, sufficiency by greedy GF(2) selection against the brute-force optimum); loop contracts with quantified invariants on the extracted HortonCyclesBuilder / FVSCyclesBuilder (collection = concatenation of the trees' candidate lists)",
    text="create_candidate_cycles proved against the tree tables (small caps); soundness of whole collections, nesting and sufficiency are a bounded stand-in: all labelled graphs n<=6 (unit + seeded weights), all weightings n<=3/4, tie-heavy families, seeded random graphs.",
    note="Exact-domain weights only; builders are Boost.Graph templates outside CBMC's reach."),
 "C16": dict(
    engine="E1+E3", category="other", design_ref="DESIGN.md 4/C16, 3 (K15,K15a), 10.7",
    technique="CBMC DFCC loop contracts: ghost edge on the extracted numbering loop (m<=16) and three nested loop contracts on the extracted detail::spanning_forest with ghost vertex / adjacency slot / queue and output positions (n<=5, thorough 8; 3000 obligations in 16 concurrent property groups) + bounded enforcement of the whole-class contract with union-find",
    text="Numbering loop proved (bijection, inverse lookups, off-forest edges numbered first, writes confined to reverse_index[0..m)) for m<=16. spanning_forest proved: n-c edges emitted, each joining an earlier-discovered vertex to the vertex it discovers (never a root, discovered once), every vertex reached, adjacent vertices share a label with exactly one root - the component/forest clauses follow by the lemma of DESIGN 10.7 (informal). Filling of the vertex set bounded (n<=24). Whole class and spanning_forest bounded on all labelled graphs n<=6 etc.",
    note="Assumed: contracts of std::unordered_set / std::queue / boost::out_edges, the std::map/std::vector/boost::edges bindings of the extraction, the informal lemma of DESIGN 10.7."),
 "C05": dict(
    engine="E1+E3", category="other", design_ref="DESIGN.md 4/C05, 3 (K18)",
    technique="CBMC DFCC nested loop contracts on the extracted translation loop of run() (caller's edges, caller's weights) and loop contracts with quantified invariants on the extracted parmcb::dijkstra (exact distances, tight predecessor tree; n<=4/5) + bounded enforcement of the approximate entry points' contract (basis of the caller's graph by descriptor identity, returned weight = caller weights) on the real templates",
    text="Translation loop of run() proved (small ghost tables); the entry points themselves are a bounded stand-in: exact-domain set (all labelled graphs n<=5/6, all weightings n<=4, families, seeded random) x k in {1,2,3,5,n} x {double,int}. Found and repaired: spanner descriptors leaked to the caller, weight omitted.",
    note="Templates outside CBMC's reach. Use-after-free aspect observed under ASan in C07."),
 "C06": dict(
    engine="E1+E3", category="other", design_ref="DESIGN.md 4/C06, 3 (K18)",
    technique="CBMC contracts on run()'s parameter check (k=0 rejected before any emission, all k), on the spanner loop (hop bound 2k-1, dropped <=> reachable), on the comparator of its edge sort (== w1 < w2, all doubles) and on is_bfs_reachable (answer <=> within max_hops hops, n<=4/6) + bounded enforcement of ret <= (2k-1)*OPT, k=1 exact, against the brute-force optimum, and of the per-edge carrier contract K18b (closing path of a dropped edge weighs <= (2k-1) w(e))",
    text="k=0 rejection, the hop bound, the drop decision and the BFS answer are proved; the (2k-1) guarantee is a global-optimum statement and stays a bounded stand-in over the exact-domain set x k in {0,1,2,3,5,n}, together with K18b.",
    note="OPT from brute force (cross-checked with a Horton oracle); sequential approximate entry points (the TBB ones are C03)."),
 "C11": dict(
    engine="E1+E3", category="other", design_ref="DESIGN.md 4/C11, 3 (K27)",
    technique="CBMC DFCC contract on the extracted input-validation block of each demo main with symbolic rank (proof) + bounded runs of the rebuilt executables incl. mpiexec with watchdog",
    text="Gating blocks proved for every predicate valuation and every rank; the whole programs are a bounded stand-in (10 files x all option combinations x process counts 1..3/4). Found and repaired: MPI demo gated on rank 0 only (hang).",
    note="Predicates abstracted to booleans in the proof (their contract is C10); OpenMPI behaviour in this sandbox; program_options trusted."),
 "C15": dict(
    engine="E1+E3", category="other", design_ref="DESIGN.md 4/C15, 3 (K17), 10.8, 10.17",
    technique="CBMC DFCC contracts: the comparator of the edge sort (== w1 < w2 for all doubles), loop contracts on the extracted edge loop of construct_spanner (partition, translation, endpoints, weights, hop bound 2k-1, dropped <=> is_bfs_reachable answered true) and the extracted is_bfs_reachable with invariants quantified over the bounded vertex range (answer <=> target within max_hops hops, via discovery-tree / closure clauses and an informal lemma; bounded direct-spec variant with native replay) + bounded enforcement of the whole spanner contract incl. stretch and girth through guarded accessors (hook H1)",
    text="Edge loop proved (m<=12/32); is_bfs_reachable proved for n<=4/6 with unbounded degrees; stretch and girth follow informally from the two contracts and the sorted order (comparator proved, std::sort by contract) and are enforced bounded over the exact-domain set x k in {1,2,3,5,n}, also with all weights scaled by 2^-60 / 2^40; equal weights included.",
    note="Hook H1 (PARMCB_VERIF) exposes private members read-only. Found and repaired: spanner edges carried weight 0."),
 "C20": dict(
    engine="E2+E1+E3", category="proof", design_ref="DESIGN.md 4/C20, 3 (K26,K27)",
    technique="CBMC: verbatim function through the C++ front end against an executable contract of tbb::global_control; DFCC contract on the extracted --cores block; plus bounded observation of the real oneTBB and of the rebuilt demos (hook H2)",
    text="Proof under the stated dependency contract: for all n>=1 and call sequences the limit is n after return; for all flag valuations --parallel implies the knob is called with --cores. The real-TBB observations are supporting bounded evidence. Found and repaired: limit died at return; demos called the knob only with --verbose.",
    note="Trusted: the global_control contract model and unique_ptr stub (delete modelled explicitly because CBMC's C++ front end does not run destructors on delete), program_options presence of defaulted options; limits set by third parties assumed not stricter."),
 "C03": dict(
    engine="E1+E3", category="other", design_ref="DESIGN.md 4/C03, 2.4, 3 (K5,K7,K8)",
    technique="CBMC proofs of the reduction-operator laws (contract + lemma over the contract) and of the frame/functional contract of the shared-state update task; bounded runs of the unchanged entry points against an executable contract model of TBB with enumerated/seeded schedules, plus the real oneTBB",
    text="Side conditions that make parallel_reduce/parallel_for schedule independent are proved (operator laws on the view, identity, disjoint write sets, row k outside all ranges). The entry points themselves are a bounded stand-in: schedules are choice tapes of a TBB contract model (odometer enumeration, exhaustive where it terminates, plus seeded tapes) on the exact-domain set with the brute-force optimum as oracle; the real oneTBB with 1/2/16 workers confirms the model is not stricter than the library.",
    note="The TBB model is an assumption about the dependency; tasks run one at a time in the model. Race freedom outside the update region rests on ownership arguments (not verified). Induction over the split tree is a paper argument recorded in the evidence."),
 "C04": dict(
    engine="E1+E3", category="other", design_ref="DESIGN.md 4/C04, 2.4, 3 (K7,K23)",
    technique="CBMC proof of the MPI reduction operator's laws (commutativity on the view as promised by is_commutative); native exhaustive slice arithmetic; bounded runs of the unchanged entry points against executable contract models of Boost.MPI and TBB with per-rank heap layouts; replay under the real mpiexec",
    text="Operator laws proved; everything about rank counts and layouts is a bounded stand-in: P in {1,2,3,4,5,7}, per-rank edge-address orders (identical / reversed / seeded), collectives checked for mismatch, early return and hang, rank 0 judged against the brute-force optimum. Found and repaired: mcb_sva_signed_mpi depended on pointer order (non-minimum result with differing layouts, reproduced under real mpiexec).",
    note="Boost.MPI model and TBB model are assumptions; serialisation bypassed in the model (exercised by the real-mpiexec replay and the demo runs of C11); only edge-node addresses are permuted."),
 "C07": dict(
    engine="E1+E2+E3", category="other", design_ref="DESIGN.md 4/C07",
    technique="CBMC safety obligations (bounds, pointer validity/lifetime, overflow, division, conversions) and frame clauses on every extracted/included unit; bounded runs of all stand-in drivers under ASan+LSan+UBSan incl. dereferencing every handed-back descriptor; reads of uninitialised automatics in the DIMACS reader by a differential of two builds (-ftrivial-auto-var-init=pattern vs zero) over the grammar enumerator",
    text="Per-function absence of UB for all inputs in each unit's bound (CBMC) for the code within reach; for the Boost.Graph templates only bounded sanitizer runs on the quick sets (empty graph, single vertex, forests, disconnected graphs, sequential and real TBB). Found and repaired: heap-use-after-free through descriptors of the freed spanner.",
    note="UB invisible to both CBMC and sanitizers is not claimed (e.g. references to destroyed stateless temporaries); libtbb/libstdc++ uninstrumented; MPI entry points are not run under sanitizers."),
 "C08": dict(
    engine="E3", category="exploration", design_ref="DESIGN.md 4/C08",
    technique="bounded (sampled) enforcement of relational postconditions over pairs of calls on graphs beyond the oracle; exact comparison of returned values; no deductive content",
    text="Sampled: seeded graphs up to 160/300 vertices, dimension in the hundreds, 7 relations each (variants agree, renumbering, isolated/pendant/bridge, disjoint union, subdivision, power-of-two scaling, Horton oracle for n<=70).",
    note="Exact-domain weights so that equal optima compare equal; on oracle-reachable graphs the property is a corollary of C02."),
 "C09": dict(
    engine="E3", category="exploration", design_ref="DESIGN.md 4/C09, 6 (D7)",
    technique="bounded enforcement of the exact-variant contract with 1e-9 relative tolerance against an exact fixed-point brute-force oracle on seeded graphs with inexact double weights; known finding D7 keyed by site and kind",
    text="Bounded stand-in only (floating point with rounding is outside CBMC's reach here). Known finding: the isometric-tree variants emit an empty cycle / a non-minimum basis on decimal-fraction weights (known_findings.txt, 4 site/kind pairs, fixed instances exercised every run); any other failure is a VIOLATION.",
    note="Weights limited to [1e-3,1e3] so that the fixed-point oracle is exact; n<=9/10."),
}

NOT_APPLICABLE = {p: WIP for p in ["C%02d" % i for i in range(1, 21)] if p not in CHECKS}
NOT_APPLICABLE["C19"] = "Compile/link-time facts about translation units (self-contained headers, ODR): no function pre/postcondition states them and CBMC cannot parse these headers; deciding it needs a compile/link loop, which is a different technique."
