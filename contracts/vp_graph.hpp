// Test-graph representation, enumerators and independent spec functions (oracles) used by the
// bounded stand-ins (DESIGN 2.3).  Nothing in this file includes or calls parmcb.
#ifndef VP_GRAPH_HPP
#define VP_GRAPH_HPP
#include <vector>
#include <array>
#include <string>
#include <sstream>
#include <algorithm>
#include <cstdint>
#include <cstdlib>
#include <set>
#include <map>
#include <numeric>
#include <functional>
#include <cmath>
#include <iostream>

namespace vp {

struct TGraph {
    int n = 0;
    std::vector<std::array<int, 2>> edges;   // in insertion order
    std::vector<double> w;                   // one weight per edge
    std::string tag;                         // provenance (family / enumerator)
    int m() const { return (int) edges.size(); }
    std::string str() const {
        std::ostringstream o;
        o.precision(17);
        o << "{\"n\":" << n << ",\"edges\":[";
        for (int i = 0; i < m(); i++) {
            if (i) o << ",";
            o << "[" << edges[i][0] << "," << edges[i][1] << "," << w[i] << "]";
        }
        o << "],\"tag\":\"" << tag << "\"}";
        return o.str();
    }
    // canonical key: insertion order and orientation matter for the code under test, so they are kept
    std::string key() const {
        std::ostringstream o;
        o.precision(17);
        o << n << ":";
        for (int i = 0; i < m(); i++) o << edges[i][0] << "-" << edges[i][1] << "/" << w[i] << ",";
        return o.str();
    }
};

// ---------------------------------------------------------------------------- rng (splitmix64)
struct Rng {
    uint64_t s;
    explicit Rng(uint64_t seed) : s(seed * 0x9E3779B97F4A7C15ULL + 0x1234567ULL) {}
    uint64_t next() {
        uint64_t z = (s += 0x9E3779B97F4A7C15ULL);
        z = (z ^ (z >> 30)) * 0xBF58476D1CE4E5B9ULL;
        z = (z ^ (z >> 27)) * 0x94D049BB133111EBULL;
        return z ^ (z >> 31);
    }
    int below(int k) { return (int) (next() % (uint64_t) k); }
    double unit() { return (next() >> 11) * (1.0 / 9007199254740992.0); }
    template<class T> void shuffle(std::vector<T> &v) {
        for (int i = (int) v.size() - 1; i > 0; i--) std::swap(v[i], v[below(i + 1)]);
    }
};

// ---------------------------------------------------------------------------- basic spec functions
struct UF {
    std::vector<int> p;
    explicit UF(int n) : p(n) { std::iota(p.begin(), p.end(), 0); }
    int find(int x) { while (p[x] != x) x = p[x] = p[p[x]]; return x; }
    bool unite(int a, int b) { a = find(a); b = find(b); if (a == b) return false; p[a] = b; return true; }
};

inline int components(const TGraph &g) {
    UF u(g.n);
    int c = g.n;
    for (auto &e : g.edges) if (u.unite(e[0], e[1])) c--;
    return c;
}
inline int cyclomatic(const TGraph &g) { return g.m() - g.n + components(g); }
inline bool is_simple(const TGraph &g) {
    std::set<std::pair<int, int>> s;
    for (auto &e : g.edges) {
        if (e[0] == e[1]) return false;
        auto p = std::minmax(e[0], e[1]);
        if (!s.insert(p).second) return false;
    }
    return true;
}

// bitset over edges (m may exceed 64 for the relational checks)
struct Bits {
    std::vector<uint64_t> b;
    explicit Bits(int m = 0) : b((m + 63) / 64, 0) {}
    void set(int i) { b[i >> 6] |= 1ULL << (i & 63); }
    void flip(int i) { b[i >> 6] ^= 1ULL << (i & 63); }
    bool get(int i) const { return (b[i >> 6] >> (i & 63)) & 1; }
    void operator^=(const Bits &o) { for (size_t i = 0; i < b.size(); i++) b[i] ^= o.b[i]; }
    bool any() const { for (auto x : b) if (x) return true; return false; }
    int lowest() const {
        for (size_t i = 0; i < b.size(); i++) if (b[i]) return (int) (i * 64 + __builtin_ctzll(b[i]));
        return -1;
    }
    int count() const { int c = 0; for (auto x : b) c += __builtin_popcountll(x); return c; }
    bool operator<(const Bits &o) const { return b < o.b; }
    bool operator==(const Bits &o) const { return b == o.b; }
};

// incremental GF(2) basis
struct GF2Basis {
    std::map<int, Bits> piv;    // pivot (lowest set bit) -> vector
    bool add(Bits v) {          // true iff independent of what is already there
        while (true) {
            int l = v.lowest();
            if (l < 0) return false;
            auto it = piv.find(l);
            if (it == piv.end()) { piv.emplace(l, v); return true; }
            v ^= it->second;
        }
    }
    int rank() const { return (int) piv.size(); }
};

// Is the edge set (indices into g.edges) one simple cycle?  distinct edges, every touched vertex
// has degree exactly 2, and the edges are connected.
inline std::string simple_cycle_error(const TGraph &g, const std::vector<int> &cyc) {
    if (cyc.empty()) return "empty cycle";
    std::set<int> seen;
    std::vector<int> deg(g.n, 0);
    UF u(g.n);
    for (int e : cyc) {
        if (e < 0 || e >= g.m()) return "edge not in graph";
        if (!seen.insert(e).second) return "repeated edge";
        deg[g.edges[e][0]]++; deg[g.edges[e][1]]++;
        u.unite(g.edges[e][0], g.edges[e][1]);
    }
    int root = -1;
    for (int v = 0; v < g.n; v++) {
        if (deg[v] == 0) continue;
        if (deg[v] != 2) return "vertex of degree " + std::to_string(deg[v]) + " in cycle";
        if (root < 0) root = u.find(v);
        else if (u.find(v) != root) return "cycle edges not connected (union of several cycles)";
    }
    return "";
}

// ---------------------------------------------------------------------------- exhaustive oracle
// every simple cycle of g as an edge bit mask (needs m <= 64), smallest vertex of the cycle is
// the DFS root, each cycle reported once.
inline void all_simple_cycles(const TGraph &g, std::vector<uint64_t> &out, size_t cap = 4000000) {
    int n = g.n, m = g.m();
    std::vector<std::vector<std::pair<int, int>>> adj(n);
    for (int i = 0; i < m; i++) {
        adj[g.edges[i][0]].push_back({g.edges[i][1], i});
        adj[g.edges[i][1]].push_back({g.edges[i][0], i});
    }
    std::vector<char> on(n, 0);
    std::function<void(int, int, int, uint64_t, int)> dfs = [&](int root, int v, int first_edge, uint64_t mask, int len) {
        for (auto &pe : adj[v]) {
            int w = pe.first, e = pe.second;
            if (mask >> e & 1) continue;
            if (w == root && len >= 2) {
                if (e > first_edge) { if (out.size() < cap) out.push_back(mask | (1ULL << e)); }   // each cycle once (orientation)
                continue;
            }
            if (w < root || on[w] || w == root) continue;
            on[w] = 1;
            dfs(root, w, first_edge, mask | (1ULL << e), len + 1);
            on[w] = 0;
        }
    };
    for (int r = 0; r < n; r++) {
        on[r] = 1;
        for (auto &pe : adj[r]) {
            int w = pe.first, e = pe.second;
            if (w <= r) continue;
            on[w] = 1;
            dfs(r, w, e, 1ULL << e, 1);
            on[w] = 0;
        }
        on[r] = 0;
    }
}

inline double mask_weight(const TGraph &g, uint64_t mask) {
    double s = 0;
    for (int i = 0; i < g.m(); i++) if (mask >> i & 1) s += g.w[i];
    return s;
}

struct McbOracle {
    bool ok = false;
    double weight = 0;
    std::vector<double> weights;     // sorted cycle weights of a minimum basis
    int dim = 0;
    size_t ncycles = 0;
};

// brute force: all simple cycles, sort by weight, greedy GF(2) independence (matroid greedy)
inline McbOracle mcb_bruteforce(const TGraph &g, size_t cap = 3000000) {
    McbOracle r;
    if (g.m() > 64) return r;
    std::vector<uint64_t> cyc;
    all_simple_cycles(g, cyc, cap);
    if (cyc.size() >= cap) return r;
    r.ncycles = cyc.size();
    std::vector<std::pair<double, uint64_t>> cw;
    cw.reserve(cyc.size());
    for (auto c : cyc) cw.push_back({mask_weight(g, c), c});
    std::sort(cw.begin(), cw.end());
    int dim = cyclomatic(g);
    std::vector<uint64_t> piv(64, 0);
    for (auto &c : cw) {
        uint64_t v = c.second;
        while (v) {
            int l = __builtin_ctzll(v);
            if (!piv[l]) { piv[l] = v; break; }
            v ^= piv[l];
        }
        if (v) { r.weights.push_back(c.first); r.weight += c.first; if ((int) r.weights.size() == dim) break; }
    }
    r.dim = (int) r.weights.size();
    r.ok = (r.dim == dim);
    return r;
}

// all-pairs shortest distances (Floyd-Warshall), inf = -1
inline std::vector<std::vector<double>> floyd(const TGraph &g) {
    const double INF = 1e300;
    std::vector<std::vector<double>> d(g.n, std::vector<double>(g.n, INF));
    for (int i = 0; i < g.n; i++) d[i][i] = 0;
    for (int i = 0; i < g.m(); i++) {
        int a = g.edges[i][0], b = g.edges[i][1];
        d[a][b] = std::min(d[a][b], g.w[i]); d[b][a] = std::min(d[b][a], g.w[i]);
    }
    for (int k = 0; k < g.n; k++) for (int i = 0; i < g.n; i++) for (int j = 0; j < g.n; j++)
        if (d[i][k] + d[k][j] < d[i][j]) d[i][j] = d[i][k] + d[k][j];
    for (auto &row : d) for (auto &x : row) if (x >= 1e299) x = -1;
    return d;
}

// Horton oracle (polynomial): candidates P(v,x)+P(v,y)+xy from one BFS/Dijkstra tree per vertex,
// greedy by weight.  Independent second oracle, cross-checked against brute force on small graphs.
inline McbOracle mcb_horton(const TGraph &g) {
    McbOracle r;
    int n = g.n, m = g.m();
    std::vector<std::vector<std::pair<int, int>>> adj(n);
    for (int i = 0; i < m; i++) { adj[g.edges[i][0]].push_back({g.edges[i][1], i}); adj[g.edges[i][1]].push_back({g.edges[i][0], i}); }
    struct Cand { double w; Bits b; };
    std::vector<Cand> cands;
    for (int s = 0; s < n; s++) {
        std::vector<double> d(n, 1e300); std::vector<int> pe(n, -1), pv(n, -1); std::vector<char> done(n, 0);
        d[s] = 0;
        for (int it = 0; it < n; it++) {
            int u = -1;
            for (int v = 0; v < n; v++) if (!done[v] && d[v] < 1e299 && (u < 0 || d[v] < d[u])) u = v;
            if (u < 0) break;
            done[u] = 1;
            for (auto &p : adj[u]) if (d[u] + g.w[p.second] < d[p.first]) { d[p.first] = d[u] + g.w[p.second]; pe[p.first] = p.second; pv[p.first] = u; }
        }
        for (int e = 0; e < m; e++) {
            int x = g.edges[e][0], y = g.edges[e][1];
            if (d[x] > 1e299 || d[y] > 1e299) continue;
            if (pe[x] == e || pe[y] == e) continue;
            Bits b(m); b.set(e);
            std::set<int> vs; bool simple = true;
            for (int v = x; v != s; v = pv[v]) { b.flip(pe[v]); vs.insert(v); }
            for (int v = y; v != s; v = pv[v]) { if (vs.count(v)) { simple = false; break; } b.flip(pe[v]); }
            if (!simple) continue;
            cands.push_back({d[x] + d[y] + g.w[e], b});
        }
    }
    std::stable_sort(cands.begin(), cands.end(), [](const Cand &a, const Cand &b) { return a.w < b.w; });
    GF2Basis B; int dim = cyclomatic(g);
    for (auto &c : cands) {
        if (B.rank() == dim) break;
        if (B.add(c.b)) { r.weights.push_back(c.w); r.weight += c.w; }
    }
    r.dim = B.rank(); r.ok = (r.dim == dim); r.ncycles = cands.size();
    return r;
}

// ---------------------------------------------------------------------------- enumerators
inline TGraph from_mask(int n, uint64_t mask) {
    TGraph g; g.n = n;
    int b = 0;
    for (int i = 0; i < n; i++) for (int j = i + 1; j < n; j++, b++) if (mask >> b & 1) g.edges.push_back({i, j});
    g.w.assign(g.edges.size(), 1.0);
    return g;
}
inline int npairs(int n) { return n * (n - 1) / 2; }

inline TGraph grid(int r, int c) {
    TGraph g; g.n = r * c; g.tag = "grid" + std::to_string(r) + "x" + std::to_string(c);
    for (int i = 0; i < r; i++) for (int j = 0; j < c; j++) {
        if (j + 1 < c) g.edges.push_back({i * c + j, i * c + j + 1});
        if (i + 1 < r) g.edges.push_back({i * c + j, (i + 1) * c + j});
    }
    g.w.assign(g.edges.size(), 1.0); return g;
}
inline TGraph hypercube(int d) {
    TGraph g; g.n = 1 << d; g.tag = "Q" + std::to_string(d);
    for (int v = 0; v < g.n; v++) for (int b = 0; b < d; b++) if (!(v >> b & 1)) g.edges.push_back({v, v | (1 << b)});
    g.w.assign(g.edges.size(), 1.0); return g;
}
inline TGraph complete(int n) { TGraph g = from_mask(n, n >= 2 ? ((npairs(n) >= 64) ? ~0ULL : ((1ULL << npairs(n)) - 1)) : 0); g.tag = "K" + std::to_string(n); return g; }
inline TGraph complete_bipartite(int a, int b) {
    TGraph g; g.n = a + b; g.tag = "K" + std::to_string(a) + "," + std::to_string(b);
    for (int i = 0; i < a; i++) for (int j = 0; j < b; j++) g.edges.push_back({i, a + j});
    g.w.assign(g.edges.size(), 1.0); return g;
}
inline TGraph wheel(int k) {
    TGraph g; g.n = k + 1; g.tag = "W" + std::to_string(k);
    for (int i = 0; i < k; i++) { g.edges.push_back({i, (i + 1) % k}); g.edges.push_back({i, k}); }
    g.w.assign(g.edges.size(), 1.0); return g;
}
inline TGraph theta(int a, int b, int c) {    // three internally disjoint paths of a,b,c edges between 0 and 1
    TGraph g; g.n = 2; g.tag = "theta" + std::to_string(a) + "-" + std::to_string(b) + "-" + std::to_string(c);
    for (int len : {a, b, c}) {
        int prev = 0;
        for (int i = 1; i < len; i++) { int v = g.n++; g.edges.push_back({prev, v}); prev = v; }
        g.edges.push_back({prev, 1});
    }
    g.w.assign(g.edges.size(), 1.0); return g;
}
inline TGraph cycle_graph(int k) {
    TGraph g; g.n = k; g.tag = "C" + std::to_string(k);
    for (int i = 0; i < k; i++) g.edges.push_back({i, (i + 1) % k});
    g.w.assign(g.edges.size(), 1.0); return g;
}
inline TGraph petersen() {
    TGraph g; g.n = 10; g.tag = "petersen";
    for (int i = 0; i < 5; i++) { g.edges.push_back({i, (i + 1) % 5}); g.edges.push_back({i, i + 5}); g.edges.push_back({5 + i, 5 + (i + 2) % 5}); }
    g.w.assign(g.edges.size(), 1.0); return g;
}
inline TGraph disjoint_union(const TGraph &a, const TGraph &b) {
    TGraph g = a; g.n = a.n + b.n; g.tag = a.tag + "+" + b.tag;
    for (int i = 0; i < b.m(); i++) { g.edges.push_back({b.edges[i][0] + a.n, b.edges[i][1] + a.n}); g.w.push_back(b.w[i]); }
    return g;
}
inline TGraph relabel(const TGraph &a, const std::vector<int> &perm, const std::vector<int> &eorder, Rng *flip = nullptr) {
    TGraph g; g.n = a.n; g.tag = a.tag + "~";
    for (int idx : eorder) {
        int x = perm[a.edges[idx][0]], y = perm[a.edges[idx][1]];
        if (flip && flip->below(2)) std::swap(x, y);
        g.edges.push_back({x, y}); g.w.push_back(a.w[idx]);
    }
    return g;
}
inline TGraph shuffled(const TGraph &a, Rng &r) {
    std::vector<int> p(a.n), eo(a.m());
    std::iota(p.begin(), p.end(), 0); std::iota(eo.begin(), eo.end(), 0);
    r.shuffle(p); r.shuffle(eo);
    return relabel(a, p, eo, &r);
}
inline TGraph random_graph(Rng &r, int n, int m, const std::vector<double> &wset) {
    TGraph g; g.n = n; g.tag = "rnd";
    std::vector<std::array<int, 2>> all;
    for (int i = 0; i < n; i++) for (int j = i + 1; j < n; j++) all.push_back({i, j});
    r.shuffle(all);
    m = std::min<int>(m, (int) all.size());
    for (int i = 0; i < m; i++) {
        auto e = all[i]; if (r.below(2)) std::swap(e[0], e[1]);
        g.edges.push_back(e); g.w.push_back(wset[r.below((int) wset.size())]);
    }
    return g;
}
inline void reweight(TGraph &g, Rng &r, const std::vector<double> &wset) {
    for (auto &x : g.w) x = wset[r.below((int) wset.size())];
}

inline std::vector<TGraph> structured_families() {
    std::vector<TGraph> v;
    TGraph empty; empty.tag = "empty"; v.push_back(empty);
    TGraph one; one.n = 1; one.tag = "single-vertex"; v.push_back(one);
    TGraph iso; iso.n = 4; iso.tag = "4-isolated"; v.push_back(iso);
    TGraph path; path.n = 4; path.edges = {{0, 1}, {1, 2}, {2, 3}}; path.w = {1, 2, 1}; path.tag = "path4"; v.push_back(path);
    TGraph star; star.n = 5; star.edges = {{0, 1}, {0, 2}, {0, 3}, {0, 4}}; star.w = {1, 1, 1, 1}; star.tag = "star"; v.push_back(star);
    v.push_back(cycle_graph(3)); v.push_back(cycle_graph(6));
    v.push_back(grid(2, 3)); v.push_back(grid(3, 3)); v.push_back(grid(2, 5)); v.push_back(grid(3, 4));
    v.push_back(hypercube(3)); v.push_back(hypercube(4));
    v.push_back(complete(4)); v.push_back(complete(5)); v.push_back(complete(6)); v.push_back(complete(7));
    v.push_back(complete_bipartite(3, 3)); v.push_back(complete_bipartite(2, 4)); v.push_back(complete_bipartite(3, 4));
    v.push_back(wheel(4)); v.push_back(wheel(5)); v.push_back(wheel(7));
    v.push_back(theta(2, 2, 2)); v.push_back(theta(1, 2, 3)); v.push_back(theta(3, 3, 3)); v.push_back(theta(2, 3, 4));
    v.push_back(petersen());
    v.push_back(disjoint_union(cycle_graph(3), cycle_graph(4)));
    v.push_back(disjoint_union(complete(4), path));
    v.push_back(disjoint_union(iso, wheel(4)));
    v.push_back(disjoint_union(disjoint_union(cycle_graph(3), one), grid(2, 3)));
    {   // two triangles joined by a bridge, plus pendant tree
        TGraph g; g.n = 9; g.tag = "bridge+pendant";
        g.edges = {{0, 1}, {1, 2}, {2, 0}, {2, 3}, {3, 4}, {4, 5}, {5, 3}, {5, 6}, {6, 7}, {6, 8}};
        g.w = {1, 1, 1, 4, 2, 2, 2, 1, 1, 1}; v.push_back(g);
    }
    // heavy spanning structure, light remaining edges: minimum cycles then run over MANY non-tree edges (support vectors with
    // several signed edges in one lightest odd cycle) - the regime in which shortcuts of the signed search show
    for (int core = 4; core <= 5; core++) for (int hub_first = 0; hub_first < 2; hub_first++) {
        TGraph g; g.n = core + 1; g.tag = std::string("heavy-hub-K") + std::to_string(core) + (hub_first ? "-first" : "-last");
        int hub = hub_first ? 0 : core; auto id = [&](int i) { return hub_first ? i + 1 : i; };
        const double lw[] = {1, 1, 2, 3, 3, 4, 2, 1, 4, 3};
        int k = 0;
        for (int i = 0; i < core; i++) for (int j = i + 1; j < core; j++) { g.edges.push_back({id(i), id(j)}); g.w.push_back(lw[k++ % 10]); }
        for (int i = 0; i < core; i++) { g.edges.push_back({hub, id(i)}); g.w.push_back(20); }
        v.push_back(g);
    }
    {   // K4 whose light 4-cycle 0-1-2-3 beats every cycle through a single chord, under a heavy star (seed S43)
        TGraph g; g.n = 5; g.tag = "heavy-hub-K4-cyclic";
        g.edges = {{0, 1}, {1, 2}, {2, 3}, {3, 0}, {0, 2}, {1, 3}, {4, 0}, {4, 1}, {4, 2}, {4, 3}};
        g.w = {1, 1, 2, 3, 3, 4, 20, 20, 20, 20}; v.push_back(g);
    }
    // a cut vertex of high degree that lies on NO cycle (bridged to several cycles): greedy_fvs may pick it first, and its tree
    // then has no candidate at all - the regime in which per-tree bookkeeping of the collection builders shows (seed S56)
    for (int k = 3; k <= 4; k++) for (int hub_pos = 0; hub_pos < 2; hub_pos++) {
        TGraph g; g.n = 3 * k + 1; g.tag = std::string("hub-bridged-to-") + std::to_string(k) + "-triangles" + (hub_pos ? "-hub-mid" : "-hub-first");
        int hub = hub_pos ? 4 : 0; auto id = [&](int i) { return i < hub ? i : i + 1; };
        for (int c = 0; c < k; c++) {
            int a = id(3 * c), b = id(3 * c + 1), d = id(3 * c + 2);
            g.edges.push_back({a, b}); g.w.push_back(1 + c); g.edges.push_back({b, d}); g.w.push_back(2); g.edges.push_back({d, a}); g.w.push_back(1);
            g.edges.push_back({hub, a}); g.w.push_back(3);
        }
        v.push_back(g);
    }
    {   // heavy Hamiltonian path, light chords
        TGraph g; g.n = 6; g.tag = "heavy-path-light-chords";
        for (int i = 0; i + 1 < 6; i++) { g.edges.push_back({i, i + 1}); g.w.push_back(15); }
        const int ch[][2] = {{0, 2}, {1, 3}, {2, 4}, {3, 5}, {0, 3}, {1, 4}, {2, 5}, {0, 5}};
        const double cw[] = {1, 2, 1, 3, 2, 1, 2, 4};
        for (int i = 0; i < 8; i++) { g.edges.push_back({ch[i][0], ch[i][1]}); g.w.push_back(cw[i]); }
        v.push_back(g);
    }
    return v;
}

}  // namespace vp
#endif
