// The finite precondition spaces explored by the bounded stand-ins (DESIGN 2.3).
#ifndef VP_SETS_HPP
#define VP_SETS_HPP
#include "vp_graph.hpp"

namespace vp {

// calls f(graph) for every member of the "exact domain" set for the given tier/seed.
// shard/nshards splits the set deterministically.
struct SetOpts {
    bool thorough = false;
    uint64_t seed = 1;
    int shard = 0, nshards = 1;
    int max_exh_n = 5;          // every labelled graph up to this many vertices (unit weights + one random weighting)
    int small_n = 4;            // every labelled graph up to this n with every weight vector from wsmall
    std::vector<double> wsmall = {1, 2};
    int nrandom = 300;          // seeded random graphs
    int rnd_max_n = 9;
    int rnd_max_dim = 9;        // keep the brute-force oracle cheap
    bool families = true;
    int shuffles = 2;           // renumberings per structured family
};

template<class F>
void for_each_graph(const SetOpts &o, F f) {
    long idx = 0;
    auto emit = [&](TGraph &g) {
        if ((idx++ % o.nshards) == o.shard) f(g);
    };
    // 1. every labelled graph on <= small_n vertices x every weight vector
    for (int n = 0; n <= o.small_n; n++) {
        uint64_t lim = 1ULL << npairs(n);
        for (uint64_t mask = 0; mask < lim; mask++) {
            TGraph g = from_mask(n, mask);
            g.tag = "all-n" + std::to_string(n) + "-allw";
            int m = g.m();
            long nw = 1;
            for (int i = 0; i < m; i++) nw *= (long) o.wsmall.size();
            for (long wv = 0; wv < nw; wv++) {
                long x = wv;
                for (int i = 0; i < m; i++) { g.w[i] = o.wsmall[x % o.wsmall.size()]; x /= o.wsmall.size(); }
                emit(g);
            }
        }
    }
    // 2. every labelled graph on small_n+1..max_exh_n vertices, unit weights and one seeded weighting
    Rng r(o.seed * 7919 + 13);
    std::vector<double> wmix = {1, 1, 2, 3, 0.5, 4, 2.25, 8};
    for (int n = o.small_n + 1; n <= o.max_exh_n; n++) {
        uint64_t lim = 1ULL << npairs(n);
        for (uint64_t mask = 0; mask < lim; mask++) {
            TGraph g = from_mask(n, mask);
            g.tag = "all-n" + std::to_string(n) + "-unit";
            emit(g);
            if (g.m() >= 3) {
                TGraph h = g; h.tag = "all-n" + std::to_string(n) + "-rndw";
                reweight(h, r, wmix);
                emit(h);
            }
        }
    }
    // 3. structured, tie-heavy families under renumberings / edge orders
    if (o.families) {
        for (auto &base : structured_families()) {
            TGraph g = base; emit(g);
            for (int s = 0; s < o.shuffles; s++) {
                TGraph h = shuffled(base, r); emit(h);
                TGraph k = h; k.tag += "w"; reweight(k, r, {1, 2, 2, 3, 1.5}); emit(k);
            }
        }
    }
    // 4. seeded random graphs (oracle reach)
    for (int i = 0; i < o.nrandom; i++) {
        int n = 2 + r.below(o.rnd_max_n - 1);
        int maxm = std::min(npairs(n), n - 1 + o.rnd_max_dim);
        int m = r.below(maxm + 1);
        int kind = r.below(4);
        std::vector<double> ws = kind == 0 ? std::vector<double>{1} : kind == 1 ? std::vector<double>{1, 2, 3}
                : kind == 2 ? std::vector<double>{0.25, 0.5, 1, 1.75, 3, 1024} : std::vector<double>{1, 2, 3, 4, 5, 6, 7, 8, 9, 10, 11, 12, 13};
        TGraph g = random_graph(r, n, m, ws);
        emit(g);
    }
}

inline bool integral_weights(const TGraph &g) {
    for (double x : g.w) if (x != std::floor(x)) return false;
    return true;
}

}  // namespace vp
#endif
