// Binding between the test representation and the real parmcb templates (compiled by g++ against
// the real Boost) + the executable postconditions (contracts K16/K18) shared by the drivers.
#ifndef VP_PARMCB_HPP
#define VP_PARMCB_HPP
#include "vp_graph.hpp"
#include <boost/graph/adjacency_list.hpp>
#include <boost/property_map/property_map.hpp>
#include <list>
#include <cstring>
#include <cassert>

namespace vp {

template<class W>
struct BG {
    typedef boost::adjacency_list<boost::vecS, boost::vecS, boost::undirectedS, boost::no_property,
            boost::property<boost::edge_weight_t, W>> Graph;
    typedef typename boost::graph_traits<Graph>::edge_descriptor Edge;
    typedef typename boost::graph_traits<Graph>::vertex_descriptor Vertex;
    typedef typename boost::property_map<Graph, boost::edge_weight_t>::type WeightMap;

    Graph g;
    std::vector<Edge> edge_of;                 // index -> descriptor
    std::map<const void*, int> index_of;       // property address -> index (identity of the caller's edges)

    explicit BG(const TGraph &t) {
        for (int i = 0; i < t.n; i++) boost::add_vertex(g);
        auto wm = boost::get(boost::edge_weight, g);
        for (int i = 0; i < t.m(); i++) {
            Edge e = boost::add_edge(t.edges[i][0], t.edges[i][1], g).first;
            wm[e] = (W) t.w[i];
            edge_of.push_back(e);
            index_of[e.get_property()] = i;
        }
    }
    WeightMap weights() { return boost::get(boost::edge_weight, g); }
    // -1 if the descriptor is not one of the caller's edges
    int idx(const Edge &e) const {
        auto it = index_of.find(e.get_property());
        if (it == index_of.end()) return -1;
        return it->second;
    }
};

struct Verdict {
    std::string kind;     // empty = ok; otherwise the violated clause
    std::string detail;
    bool ok() const { return kind.empty(); }
};

// K16 (C01 part): cycles given as edge-index lists (-1 = foreign descriptor)
inline Verdict check_basis_shape(const TGraph &t, const std::vector<std::vector<int>> &cycles) {
    int dim = cyclomatic(t);
    if ((int) cycles.size() != dim)
        return {"count", "emitted " + std::to_string(cycles.size()) + " cycles, m-n+c = " + std::to_string(dim)};
    GF2Basis B;
    for (size_t i = 0; i < cycles.size(); i++) {
        for (int e : cycles[i]) if (e < 0) return {"foreign-edge", "cycle " + std::to_string(i) + " contains an edge descriptor that is not an edge of the caller's graph"};
        std::string err = simple_cycle_error(t, cycles[i]);
        if (!err.empty()) return {"not-simple-cycle", "cycle " + std::to_string(i) + ": " + err};
        Bits b(t.m());
        for (int e : cycles[i]) b.set(e);
        if (!B.add(b)) return {"dependent", "cycle " + std::to_string(i) + " is a GF(2) combination of earlier cycles"};
    }
    return {};
}

inline double cycles_weight(const TGraph &t, const std::vector<std::vector<int>> &cycles) {
    double s = 0;
    for (auto &c : cycles) for (int e : c) s += t.w[e];
    return s;
}

inline std::vector<double> sorted_cycle_weights(const TGraph &t, const std::vector<std::vector<int>> &cycles) {
    std::vector<double> v;
    for (auto &c : cycles) { double s = 0; for (int e : c) s += t.w[e]; v.push_back(s); }
    std::sort(v.begin(), v.end());
    return v;
}

template<class W, class Cycles>
std::vector<std::vector<int>> to_indices(const BG<W> &bg, const Cycles &cycles) {
    std::vector<std::vector<int>> out;
    for (auto &c : cycles) {
        std::vector<int> v;
        for (auto &e : c) v.push_back(bg.idx(e));
        out.push_back(v);
    }
    return out;
}

// simple JSON-ish violation record printed by drivers, one per line, prefixed with "VP-VIOL "
inline void emit_violation(const std::string &site, const std::string &kind, const std::string &what,
        const std::string &input_json) {
    std::string w = what;
    for (auto &ch : w) if (ch == '"' || ch == '\\' || ch == '\n') ch = ' ';
    std::cout << "VP-VIOL {\"site\":\"" << site << "\",\"kind\":\"" << kind << "\",\"what\":\"" << w
            << "\",\"input\":" << input_json << "}" << std::endl;
}

// digest of observable results (used by the auto-var-init differential of C07: two builds must agree)
inline uint64_t &vp_digest() { static uint64_t d = 1469598103934665603ULL; return d; }
inline void vp_dig(uint64_t x) { uint64_t &d = vp_digest(); for (int i = 0; i < 8; i++) { d ^= (x >> (8 * i)) & 0xff; d *= 1099511628211ULL; } }
inline void vp_dig_double(double w) { uint64_t b; memcpy(&b, &w, 8); vp_dig(b); }

struct Stats {
    long evaluations = 0;
    std::set<std::string> distinct;       // keys of distinct non-trivial inputs
    std::vector<std::string> samples;
    std::map<std::string, long> counts;
    long violations = 0;
    void sample(const std::string &s) { if (samples.size() < 6) samples.push_back(s); }
    void print(const std::string &driver, bool exhaustive, const std::string &rule, const std::string &bounds) {
        std::cout << "VP-STATS {\"driver\":\"" << driver << "\",\"evaluations\":" << evaluations
                << ",\"distinct_nontrivial\":" << distinct.size() << ",\"exhaustive\":" << (exhaustive ? "true" : "false")
                << ",\"rule\":\"" << rule << "\",\"bounds\":\"" << bounds << "\",\"violations\":" << violations << ",\"counts\":{";
        bool first = true;
        for (auto &kv : counts) { if (!first) std::cout << ","; first = false; std::cout << "\"" << kv.first << "\":" << kv.second; }
        std::cout << "},\"samples\":[";
        for (size_t i = 0; i < samples.size(); i++) { if (i) std::cout << ","; std::cout << samples[i]; }
        std::cout << "]}" << std::endl;
        char buf[64]; snprintf(buf, sizeof buf, "VP-DIGEST %016llx", (unsigned long long) vp_digest()); std::cout << buf << std::endl;
    }
};

// minimal parser for the TGraph JSON printed by TGraph::str() (used by --case replays)
inline bool parse_tgraph(const std::string &s, TGraph &g) {
    size_t p = s.find("\"n\":");
    if (p == std::string::npos) return false;
    g.n = atoi(s.c_str() + p + 4);
    p = s.find("\"edges\":[", p);
    if (p == std::string::npos) return false;
    p += 9;
    while (p < s.size() && s[p] != ']') {
        if (s[p] == '[') {
            int a, b; double w; int used = 0;
            if (sscanf(s.c_str() + p, "[%d,%d,%lf]%n", &a, &b, &w, &used) != 3) return false;
            g.edges.push_back({a, b}); g.w.push_back(w);
            p += used;
        } else p++;
    }
    g.tag = "replay";
    return true;
}

inline long env_long(const char *name, long dflt) {
    const char *v = getenv(name);
    return v ? atol(v) : dflt;
}
inline bool thorough() { const char *v = getenv("VERIF_TIER"); return v && std::string(v) == "thorough"; }

}  // namespace vp
#endif
