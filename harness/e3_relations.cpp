// Bounded stand-in for C08: relational postconditions over pairs of calls, on graphs far beyond the
// brute-force oracle.  f = reported minimum-cycle-basis weight.
//   all exact variants/backends agree; f(pi.g) = f(g) for vertex renumberings and edge-order permutations;
//   isolated vertices / pendant trees / bridges leave f unchanged; f(g + h) = f(g) + f(h);
//   subdividing an edge (same total weight) leaves f unchanged; f(2^j w) = 2^j f(w).
#include <parmcb/config.hpp>
#include <parmcb/parmcb_sva_signed.hpp>
#include <parmcb/parmcb_sva_trees.hpp>
#include <parmcb/parmcb_sva_signed_tbb.hpp>
#include "vp_parmcb.hpp"
#include "vp_sets.hpp"
using namespace vp;
typedef BG<double> B;

static const char *VARIANTS[] = {"mcb_sva_signed", "mcb_sva_fvs_trees", "mcb_sva_iso_trees", "mcb_sva_signed_tbb", "mcb_sva_fvs_trees_tbb", "mcb_sva_iso_trees_tbb"};

static double f(const TGraph &t, int variant, std::string &err) {
    B bg(t);
    std::list<std::list<B::Edge>> cycles;
    auto out = std::back_inserter(cycles);
    double r = 0;
    try {
        switch (variant) {
            case 0: r = parmcb::mcb_sva_signed(bg.g, bg.weights(), out); break;
            case 1: r = parmcb::mcb_sva_fvs_trees(bg.g, bg.weights(), out); break;
            case 2: r = parmcb::mcb_sva_iso_trees(bg.g, bg.weights(), out); break;
            case 3: r = parmcb::mcb_sva_signed_tbb(bg.g, bg.weights(), out); break;
            case 4: r = parmcb::mcb_sva_fvs_trees_tbb(bg.g, bg.weights(), out); break;
            default: r = parmcb::mcb_sva_iso_trees_tbb(bg.g, bg.weights(), out); break;
        }
    } catch (std::exception &e) { err = std::string("exception: ") + e.what(); return -1; }
    // cheap sanity on the output (count + weight), full validity is C01's business
    if ((int) cycles.size() != cyclomatic(t)) { err = "emitted " + std::to_string(cycles.size()) + " cycles, dimension " + std::to_string(cyclomatic(t)); return -1; }
    return r;
}

static TGraph big_random(Rng &r, int n, int m, int maxw) {
    std::vector<double> ws; for (int i = 1; i <= maxw; i++) ws.push_back(i);
    TGraph g; g.n = n; g.tag = "big-rnd";
    std::set<std::pair<int, int>> used;
    // random spanning-ish backbone for connectivity variety, then random extra edges
    for (int v = 1; v < n; v++) if (r.below(10) < 8) { int u = r.below(v); used.insert({u, v}); g.edges.push_back({u, v}); g.w.push_back(ws[r.below(maxw)]); }
    int guard = 0;
    while (g.m() < m && guard++ < 20 * m) {
        int a = r.below(n), b = r.below(n); if (a == b) continue; auto p = std::minmax(a, b);
        if (!used.insert({p.first, p.second}).second) continue;
        if (r.below(2)) std::swap(a, b);
        g.edges.push_back({a, b}); g.w.push_back(ws[r.below(maxw)]);
    }
    return g;
}
static TGraph clique_chain(int k, int s) {
    TGraph g; g.n = k * s; g.tag = "clique-chain";
    for (int c = 0; c < k; c++) { for (int i = 0; i < s; i++) for (int j = i + 1; j < s; j++) { g.edges.push_back({c * s + i, c * s + j}); g.w.push_back(1 + ((i + j + c) % 3)); }
        if (c + 1 < k) { g.edges.push_back({c * s + s - 1, (c + 1) * s}); g.w.push_back(2); } }
    return g;
}

struct Ctx { Stats &st; };
static std::string g17(double x) { char b[64]; snprintf(b, sizeof b, "%.17g", x); return b; }
static void expect_eq(Stats &st, const std::string &rel, double a, double b, const TGraph &t, const std::string &note) {
    st.evaluations++; st.counts[rel]++;
    if (a != b) { st.violations++; if (st.counts["viol_" + rel]++ < 2) emit_violation("relation:" + rel, "relation-" + rel, note + ": " + g17(a) + " vs " + g17(b), "{\"graph\":" + t.str() + "}"); }
}

static void relations(Stats &st, Rng &r, const TGraph &g, bool all_variants, int rot) {
    std::string err;
    double base = f(g, 0, err);
    if (base < 0) { st.violations++; emit_violation("mcb_sva_signed", "exception", err, "{\"graph\":" + g.str() + "}"); return; }
    // 1. variants / back ends
    for (int v = 1; v < 6; v++) {
        if (!all_variants && v != 1 + (rot % 5)) continue;
        std::string e2; double x = f(g, v, e2);
        if (x < 0) { st.violations++; st.evaluations++; if (st.counts["viol_exc"]++ < 2) emit_violation(VARIANTS[v], "exception", e2, "{\"graph\":" + g.str() + "}"); continue; }
        expect_eq(st, "variants-agree", base, x, g, std::string("mcb_sva_signed vs ") + VARIANTS[v]);
    }
    int va = rot % 3, vb = (rot + 1) % 3;
    // 2. renumbering + edge order + orientation
    { TGraph h = shuffled(g, r); double x = f(h, va, err); expect_eq(st, "renumbering", base, x, h, std::string("renumbered/reordered copy via ") + VARIANTS[va]); }
    // 3. isolated vertices, pendant tree, bridge to a new tree
    { TGraph h = g; int n0 = h.n; h.n += 3;                       // two isolated + pendant path + bridge
      if (n0 > 0) { h.edges.push_back({r.below(n0), n0}); h.w.push_back(5); h.edges.push_back({n0, n0 + 1}); h.w.push_back(1); }
      TGraph k = shuffled(h, r);
      double x = f(k, vb, err); expect_eq(st, "isolated-pendant-bridge", base, x, k, std::string("added isolated vertex, pendant path via ") + VARIANTS[vb]); }
    // 4. disjoint union with a second graph
    { TGraph h2 = big_random(r, 6 + r.below(10), 12 + r.below(14), 4); std::string e3; double fh = f(h2, 0, e3);
      TGraph u = disjoint_union(g, h2); TGraph us = shuffled(u, r);
      double x = f(us, va, err); expect_eq(st, "disjoint-union-additive", base + fh, x, us, std::string("f(g+h) via ") + VARIANTS[va]); }
    // 5. subdivision of one edge into two of the same total weight (weights stay dyadic)
    if (g.m() > 0) { TGraph h = g; int e = r.below(h.m()); int a = h.edges[e][0], b = h.edges[e][1]; double w = h.w[e]; int nv = h.n++;
      h.edges[e] = {a, nv}; h.w[e] = w / 2; h.edges.push_back({nv, b}); h.w.push_back(w / 2);
      double x = f(h, vb, err); expect_eq(st, "subdivision", base, x, h, std::string("one edge subdivided via ") + VARIANTS[vb]); }
    // 6. scaling by a power of two
    { int j = r.below(7) - 3; double s = std::ldexp(1.0, j); TGraph h = g; for (auto &x : h.w) x *= s;
      double x = f(h, va, err); expect_eq(st, "power-of-two-scaling", base * s, x, h, "weights scaled by 2^" + std::to_string(j) + " via " + VARIANTS[va]); }
    // 6b. scaling by an EXTREME power of two (still exact: dyadic weights, no underflow / overflow) - an absolute tolerance
    //     hidden in a comparison shows only when all distances are tiny or huge (seed S60); through a tree variant and the signed one
    { static const int J[] = {-60, -40, -30, 30, 40}; int j = J[r.below(5)]; double s = std::ldexp(1.0, j); TGraph h = g; for (auto &x : h.w) x *= s;
      for (int v : {1 + (rot % 2), 0}) { double x = f(h, v, err); expect_eq(st, "power-of-two-scaling", base * s, x, h, "weights scaled by 2^" + std::to_string(j) + " via " + VARIANTS[v]); } }
    // 7. independent polynomial oracle where affordable
    if (g.n <= 70) { McbOracle h = mcb_horton(g); if (h.ok) expect_eq(st, "horton-oracle", h.weight, base, g, "independent Horton oracle vs mcb_sva_signed"); }
}

int main(int argc, char **argv) {
    int shard = 0, nshards = 1; std::string the_case;
    for (int i = 1; i < argc; i++) {
        std::string a = argv[i];
        if (a == "--shard" && i + 1 < argc) sscanf(argv[++i], "%d/%d", &shard, &nshards);
        else if (a == "--case" && i + 1 < argc) the_case = argv[++i];
    }
    Stats st;
    uint64_t seed = (uint64_t) env_long("VERIF_SEED", 1);
    if (!the_case.empty()) {
        TGraph t; if (!parse_tgraph(the_case, t)) return 3;
        Rng r(seed); relations(st, r, t, true, 0);
        if (st.violations) { std::cout << "REPLAY-FAIL relations violated on the given graph" << std::endl; return 1; }
        std::cout << "REPLAY-OK" << std::endl; return 0;
    }
    bool th = thorough();
    int N = th ? 2400 : 160;                       // graphs in total (all shards)
    for (int i = 0; i < N; i++) {
        if ((i % nshards) != shard) continue;
        Rng r(seed * 1000 + i);
        TGraph g;
        int kind = i % 6;
        int nmax = th ? 300 : 160;
        if (kind == 0) { int n = 30 + r.below(nmax - 30); g = big_random(r, n, n + r.below(n), 6); }              // sparse, dimension up to ~n
        else if (kind == 1) { int a = 3 + r.below(th ? 10 : 6), b = 3 + r.below(th ? 12 : 7); g = grid(a, b); reweight(g, r, {1, 1, 2}); }
        else if (kind == 2) { int n = 20 + r.below(th ? 120 : 50); g = big_random(r, n, 2 * n, 2); g.tag = "big-rnd-ties"; }   // many ties
        else if (kind == 3) { g = clique_chain(2 + r.below(th ? 8 : 4), 4 + r.below(3)); }
        else if (kind == 4) { g = hypercube(3 + r.below(th ? 4 : 3)); if (r.below(2)) reweight(g, r, {1, 2}); }
        else { int n = 12 + r.below(th ? 60 : 30); g = big_random(r, n, 3 * n, 8); g.tag = "big-rnd-dense"; }
        relations(st, r, g, (i % 4) == 0 || th, i);
        st.distinct.insert(g.key());
        if (st.samples.size() < 2) { std::ostringstream o; o << "{\"tag\":\"" << g.tag << "\",\"n\":" << g.n << ",\"m\":" << g.m() << ",\"dimension\":" << cyclomatic(g) << "}"; st.sample(o.str()); }
        st.counts["sum_of_dimensions"] += cyclomatic(g);
        st.counts["sum_of_vertices"] += g.n;
        if (cyclomatic(g) >= 100) st.counts["graphs_with_dimension_ge_100"]++;
        if (g.n >= 100) st.counts["graphs_with_ge_100_vertices"]++;
    }
    st.print("e3_relations", false,
            "seeded graphs beyond the oracle (sparse random n<=160/300, grids, tie-heavy random, clique chains, hypercubes, dense random; integer or dyadic weights) each with 7 relations: variants/back ends agree, renumbering+edge order, isolated/pendant/bridge, disjoint union, subdivision, power-of-two scaling, Horton oracle (n<=70); distinct = base graphs",
            std::string("graphs=") + std::to_string(N));
    return 0;
}
