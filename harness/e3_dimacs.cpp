// Bounded stand-in for contract K25 (C10): read_dimacs_from_file against a grammar enumerator, and
// has_loops / has_multiple_edges / has_non_positive_weights against their definitions on every small
// multigraph.   e3_dimacs --shard i/N | --replay '<text with \n escapes>'
#include <cstdio>
#include <cstring>
#include <cerrno>
#include <list>
#include <system_error>
#include <parmcb/config.hpp>
#include <parmcb/util.hpp>
#include "vp_parmcb.hpp"
using namespace vp;

typedef boost::adjacency_list<boost::vecS, boost::vecS, boost::undirectedS, boost::no_property,
        boost::property<boost::edge_weight_t, double>> G;

struct Expect { int n = 0; std::vector<std::array<int, 2>> edges; std::vector<double> w; bool error = false; };

static std::string esc(const std::string &s) { std::string o; for (char c : s) { if (c == '\n') o += "\\n"; else if (c == '"' || c == '\\') { o += ' '; } else o += c; } return o; }

static uint64_t g_digest = 1469598103934665603ULL;
static void dig(uint64_t x) { for (int i = 0; i < 8; i++) { g_digest ^= (x >> (8 * i)) & 0xff; g_digest *= 1099511628211ULL; } }
static void digest_graph(const G &g, bool threw) {
    dig(threw); if (threw) return;
    dig(boost::num_vertices(g)); dig(boost::num_edges(g));
    auto wm = boost::get(boost::edge_weight, g);
    for (auto er = boost::edges(g); er.first != er.second; ++er.first) { auto e = *er.first; dig(boost::source(e, g)); dig(boost::target(e, g)); double w = wm[e]; uint64_t b; memcpy(&b, &w, 8); dig(b); }
}

static Verdict check_text(const std::string &text, const Expect &ex) {
    G g;
    FILE *fp = fmemopen((void*) text.data(), text.size(), "r");
    if (!fp) return {};
    bool threw = false;
    try { parmcb::read_dimacs_from_file(fp, g); }
    catch (std::system_error &) { threw = true; }
    fclose(fp);
    digest_graph(g, threw);
    if (threw != ex.error) return {"dimacs-error", threw ? "raised an error for a text naming only declared vertices" : "no error although an undeclared vertex is named"};
    if (threw) return {};
    if ((int) boost::num_vertices(g) != ex.n) return {"dimacs-vertices", "vertex count " + std::to_string(boost::num_vertices(g)) + " != declared " + std::to_string(ex.n)};
    if (boost::num_edges(g) != ex.edges.size()) return {"dimacs-edge-count", "edge count " + std::to_string(boost::num_edges(g)) + " != number of edge lines " + std::to_string(ex.edges.size())};
    auto wm = boost::get(boost::edge_weight, g);
    size_t i = 0;
    for (auto er = boost::edges(g); er.first != er.second; ++er.first, ++i) {
        auto e = *er.first;
        int s = (int) boost::source(e, g), t = (int) boost::target(e, g);
        if (!((s == ex.edges[i][0] && t == ex.edges[i][1]) || (s == ex.edges[i][1] && t == ex.edges[i][0])))
            return {"dimacs-endpoints", "edge " + std::to_string(i) + " joins " + std::to_string(s) + "-" + std::to_string(t) + " instead of " + std::to_string(ex.edges[i][0]) + "-" + std::to_string(ex.edges[i][1])};
        if (wm[e] != ex.w[i]) return {"dimacs-weight", "edge " + std::to_string(i) + " has weight " + std::to_string(wm[e]) + ", the file says " + std::to_string(ex.w[i])};
    }
    return {};
}

int main(int argc, char **argv) {
    int shard = 0, nshards = 1;
    for (int i = 1; i < argc; i++) {
        std::string a = argv[i];
        if (a == "--shard" && i + 1 < argc) sscanf(argv[++i], "%d/%d", &shard, &nshards);
        else if (a == "--replay-nonl") {
            Expect ex; ex.n = 4; ex.edges = {{0, 1}, {3, 0}}; ex.w = {10, 55};
            Verdict v = check_text("p edge 4 2\ne 1 2 10\ne 4 1 55", ex);
            if (!v.ok()) { std::cout << "REPLAY-FAIL " << v.kind << ": " << v.detail << " (last line without newline)" << std::endl; return 1; }
            std::cout << "REPLAY-OK" << std::endl; return 0;
        }
    }
    bool th = thorough();
    Stats st;
    long idx = 0;
    const char *wforms[] = {"", " 5", " 2.5", " -3", " 0", " 17", " 0.125"};
    double wvals[] = {1, 5, 2.5, -3, 0, 17, 0.125};
    const int NW = 7;
    const char *comments[] = {"c a comment\n", "# hash comment 1 2 3\n", "c\n"};
    int maxlines = th ? 4 : 3;
    for (int n = 0; n <= 4; n++) {
        // edge-line alphabet: (u,v) over -1..n+1 (n+1, 0 and -1 = undeclared: ids are 1-based), type, weight form
        struct EL { int u, v; char t; int wf; };
        std::vector<EL> alpha;
        for (int u = -1; u <= n + 1; u++) for (int v = -1; v <= n + 1; v++) {
            if (u > 3 && v > 3 && n == 4 && u != v) continue;    // thin the alphabet a little
            if ((u < 1 && v < 1) || (u < 1 && v > n) || (v < 1 && u > n)) continue;   // one undeclared endpoint at a time is enough below the range
            for (char t : {'e', 'a'}) for (int wf = 0; wf < NW; wf++) {
                if (t == 'a' && wf > 2) continue;
                if ((u == n + 1 || v == n + 1 || u < 1 || v < 1) && wf > 0) continue;
                alpha.push_back({u, v, t, wf});
            }
        }
        for (int L = 0; L <= maxlines; L++) {
            // sample sequences: exhaustive for L<=1, strided for longer
            long total = 1; for (int i = 0; i < L; i++) total *= (long) alpha.size();
            long stride = L <= 1 ? 1 : (L == 2 ? 7 : (L == 3 ? 1999 : 400009));
            for (long code = 0; code < total; code += stride) {
                if ((idx++ % nshards) != shard) continue;
                long c = code; std::vector<EL> seq;
                for (int i = 0; i < L; i++) { seq.push_back(alpha[c % alpha.size()]); c /= (long) alpha.size(); }
                for (int cm = 0; cm < 4; cm++) for (int nl = 0; nl < 2; nl++) {
                    std::string text; Expect ex; ex.n = n;
                    if (cm == 1) text += comments[0];
                    // the declared edge count is informative only ("one edge per e/a line"): exact, stale-low, stale-high and 0 are all used,
                    // with both customary problem words (seed S63: a reader that stops after the declared number of edge lines)
                    { int sel = (int) ((code + cm + 2 * nl) % 4); int dm = sel == 0 ? L : sel == 1 ? std::max(L - 1, 0) : sel == 2 ? L + 2 : (L >= 2 ? 1 : 0);
                      text += std::string(((code + nl) % 2) ? "p sp " : "p edge ") + std::to_string(n) + " " + std::to_string(dm) + "\n"; }
                    if (cm == 2) text += comments[1];
                    for (size_t i = 0; i < seq.size(); i++) {
                        auto &el = seq[i];
                        text += std::string(1, el.t) + " " + std::to_string(el.u) + " " + std::to_string(el.v) + wforms[el.wf] + "\n";
                        if (cm == 3 && i + 1 < seq.size()) text += comments[i % 3];
                        if (!ex.error) {
                            if (el.u > n || el.v > n || el.u < 1 || el.v < 1) ex.error = true;
                            else { ex.edges.push_back({el.u - 1, el.v - 1}); ex.w.push_back(wvals[el.wf]); }
                        }
                    }
                    if (cm == 3 && nl == 1 && L > 0) text += "c trailing comment\n";
                    if (nl == 0 && !text.empty()) text.pop_back();     // no final newline
                    Verdict v = check_text(text, ex);
                    st.evaluations++;
                    if (L >= 1) st.distinct.insert(text);
                    if (!v.ok()) { st.violations++; if (st.counts["viol_" + v.kind]++ < 2) emit_violation("read_dimacs_from_file", v.kind, v.detail, "{\"text\":\"" + esc(text) + "\"}"); }
                    if (st.samples.size() < 3 && L == 2 && cm == 3) st.sample("\"" + esc(text) + "\"");
                }
            }
        }
    }
    // predicates on every multigraph with <= 4 vertices and <= (thorough 5 : 4) edges over the pair alphabet incl. loops
    int maxe = th ? 5 : 4;
    for (int n = 1; n <= 4; n++) {
        std::vector<std::array<int, 2>> pairs;
        for (int u = 0; u < n; u++) for (int v = u; v < n; v++) pairs.push_back({u, v});
        for (int L = 0; L <= maxe; L++) {
            long total = 1; for (int i = 0; i < L; i++) total *= (long) pairs.size();
            for (long code = 0; code < total; code++) {
                if ((idx++ % nshards) != shard) continue;
                long c = code; G g(n); auto wm = boost::get(boost::edge_weight, g);
                bool loops = false, multi = false, nonpos = false; std::set<std::pair<int, int>> seen;
                for (int i = 0; i < L; i++) {
                    auto p = pairs[c % pairs.size()]; c /= (long) pairs.size();
                    int u = p[0], v = p[1]; if ((code + i) & 1) std::swap(u, v);
                    double w = ((code >> i) % 5 == 0) ? 0.0 : (((code >> i) % 7 == 0) ? -1.5 : 1.0 + i);
                    auto e = boost::add_edge(u, v, g).first; wm[e] = w;
                    if (u == v) loops = true;
                    if (!seen.insert({p[0], p[1]}).second) multi = true;
                    if (w <= 0) nonpos = true;
                }
                st.evaluations++;
                if (L >= 2) st.distinct.insert("mg" + std::to_string(n) + ":" + std::to_string(L) + ":" + std::to_string(code));
                if (parmcb::has_loops(g) != loops) { st.violations++; if (st.counts["viol_loops"]++ < 2) emit_violation("has_loops", "has_loops-wrong", "has_loops disagrees with its definition", "{\"n\":" + std::to_string(n) + ",\"code\":" + std::to_string(code) + ",\"L\":" + std::to_string(L) + "}"); }
                if (parmcb::has_non_positive_weights(g, wm) != nonpos) { st.violations++; if (st.counts["viol_nonpos"]++ < 2) emit_violation("has_non_positive_weights", "has_non_positive_weights-wrong", "disagrees with its definition", "{\"n\":" + std::to_string(n) + ",\"code\":" + std::to_string(code) + ",\"L\":" + std::to_string(L) + "}"); }
                if (!loops && parmcb::has_multiple_edges(g) != multi) { st.violations++; if (st.counts["viol_multi"]++ < 2) emit_violation("has_multiple_edges", "has_multiple_edges-wrong", "disagrees with its definition on a loop-free multigraph", "{\"n\":" + std::to_string(n) + ",\"code\":" + std::to_string(code) + ",\"L\":" + std::to_string(L) + "}"); }
            }
        }
    }
    vp_dig(g_digest);       // printed by Stats::print as VP-DIGEST
    st.print("e3_dimacs", false,
            "grammar enumerator: n<=4 declared vertices, <=3 (thorough 4) edge lines over (endpoints incl. the undeclared ids n+1, 0 and -1) x {e,a} x weight forms {omitted,5,2.5,-3,0,17,0.125}, exhaustive for <=1 line and strided beyond, x 4 comment placements x {final newline, none} x declared edge count {exact, one less, two more, 1/0} x {p edge, p sp}; predicates on every multigraph (loops allowed) with <=4 vertices and <=4 (5) edges; distinct by text",
            std::string("maxlines=") + std::to_string(maxlines) + " maxe=" + std::to_string(maxe));
    return 0;
}
