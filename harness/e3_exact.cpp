// Bounded stand-in for contract K16 (C01 + C02): the three sequential exact entry points, real
// templates from /repo/include, on every member of the exact-domain set; postcondition evaluated by
// the independent oracles of vp_graph.hpp.
//   e3_exact --shard i/N            enumerate
//   e3_exact --case '<tgraph json>' --algo <name> --wtype double|int      replay one case
#include <parmcb/config.hpp>
#include <parmcb/parmcb_sva_signed.hpp>
#include <parmcb/parmcb_sva_trees.hpp>
#include "vp_parmcb.hpp"
#include "vp_sets.hpp"

using namespace vp;

static const char *ALGOS[] = {"mcb_sva_signed", "mcb_sva_fvs_trees", "mcb_sva_iso_trees"};

template<class W>
W run_algo(const std::string &a, BG<W> &bg, std::list<std::list<typename BG<W>::Edge>> &cycles) {
    if (a == "mcb_sva_signed") return parmcb::mcb_sva_signed(bg.g, bg.weights(), std::back_inserter(cycles));
    if (a == "mcb_sva_fvs_trees") return parmcb::mcb_sva_fvs_trees(bg.g, bg.weights(), std::back_inserter(cycles));
    if (a == "mcb_sva_iso_trees") return parmcb::mcb_sva_iso_trees(bg.g, bg.weights(), std::back_inserter(cycles));
    std::cerr << "unknown algo " << a << std::endl; exit(3);
}

// returns the violated clause (empty = holds)
template<class W>
Verdict check_one(const TGraph &t, const std::string &algo, const McbOracle &opt) {
    BG<W> bg(t);
    std::list<std::list<typename BG<W>::Edge>> cycles;
    W ret;
    try {
        ret = run_algo<W>(algo, bg, cycles);
    } catch (std::exception &e) {
        return {"exception", std::string("threw ") + e.what()};
    } catch (...) {
        return {"exception", "threw a non-std exception"};
    }
    auto idx = to_indices(bg, cycles);
    vp_dig_double((double) ret); vp_dig(idx.size());          // layout-independent part of the result
    Verdict v = check_basis_shape(t, idx);                     // C01
    if (!v.ok()) return v;
    double sum = cycles_weight(t, idx);
    if ((double) ret != sum)                                   // C02 first sentence
        return {"returned-weight", "returned " + std::to_string((double) ret) + " but emitted cycles weigh " + std::to_string(sum)};
    if (opt.ok) {
        if (sum != opt.weight)                                 // C02 minimality
            return {"not-minimum", "basis weight " + std::to_string(sum) + " but optimum is " + std::to_string(opt.weight)};
        if (sorted_cycle_weights(t, idx) != opt.weights)       // C02 second sentence
            return {"weight-vector", "sorted cycle weights differ from those of a minimum basis"};
    }
    return {};
}

int main(int argc, char **argv) {
    SetOpts o;
    o.thorough = thorough();
    o.seed = (uint64_t) env_long("VERIF_SEED", 1);
    std::string the_case, algo, wtype = "double";
    for (int i = 1; i < argc; i++) {
        std::string a = argv[i];
        if (a == "--shard" && i + 1 < argc) sscanf(argv[++i], "%d/%d", &o.shard, &o.nshards);
        else if (a == "--case" && i + 1 < argc) the_case = argv[++i];
        else if (a == "--algo" && i + 1 < argc) algo = argv[++i];
        else if (a == "--wtype" && i + 1 < argc) wtype = argv[++i];
    }
    if (!the_case.empty()) {
        TGraph t;
        if (!parse_tgraph(the_case, t)) { std::cerr << "bad case" << std::endl; return 3; }
        McbOracle opt = mcb_bruteforce(t);
        Verdict v = wtype == "int" ? check_one<int>(t, algo, opt) : check_one<double>(t, algo, opt);
        if (!v.ok()) { std::cout << "REPLAY-FAIL " << algo << "<" << wtype << "> " << v.kind << ": " << v.detail << std::endl; return 1; }
        std::cout << "REPLAY-OK" << std::endl;
        return 0;
    }
    if (o.thorough) { o.max_exh_n = 7; o.wsmall = {1, 2, 3}; o.nrandom = 40000; o.shuffles = 8; o.rnd_max_dim = 12; o.rnd_max_n = 10; }
    else { o.max_exh_n = 6; o.nrandom = 1500; }
    Stats st;
    long oracle_cross = 0;
    for_each_graph(o, [&](TGraph &t) {
        McbOracle opt = mcb_bruteforce(t);
        if (!opt.ok) { st.counts["oracle_skipped"]++; }
        else if (t.n <= 7) {      // oracle self-check: brute force vs Horton
            McbOracle h = mcb_horton(t);
            oracle_cross++;
            if (!h.ok || h.weight != opt.weight) {
                emit_violation("oracle-self-check", "oracle-disagreement", "brute force and Horton oracles disagree", t.str());
                st.violations++;
            }
        }
        bool nontrivial = cyclomatic(t) >= 2;
        for (const char *a : ALGOS) {
            for (int wt = 0; wt < 2; wt++) {
                if (wt == 1 && !integral_weights(t)) continue;
                Verdict v = wt == 0 ? check_one<double>(t, a, opt) : check_one<int>(t, a, opt);
                st.evaluations++;
                st.counts[std::string(a) + (wt ? "<int>" : "<double>")]++;
                if (!v.ok()) {
                    st.violations++;
                    emit_violation(std::string(a) + (wt ? "<int>" : "<double>"), v.kind, v.detail,
                            "{\"graph\":" + t.str() + ",\"algo\":\"" + a + "\",\"wtype\":\"" + (wt ? "int" : "double") + "\"}");
                }
            }
        }
        if (nontrivial) st.distinct.insert(t.key());
        if (nontrivial && (st.evaluations % 997) < 6) st.sample(t.str());
    });
    st.counts["oracle_cross_checks"] = oracle_cross;
    st.print("e3_exact", false,
            "every labelled graph n<=small_n x all weight vectors, every labelled graph n<=max_exh_n (unit + 1 seeded weighting), structured tie-heavy families under renumberings, seeded random graphs n<=9; non-trivial = cycle space dimension >= 2, distinct by (n, ordered edge list, weights)",
            std::string("small_n=4 wsmall=") + (o.thorough ? "{1,2,3}" : "{1,2}") + " max_exh_n=" + std::to_string(o.max_exh_n) + " nrandom=" + std::to_string(o.nrandom));
    return 0;
}
