// Bounded stand-in for C04: the five MPI entry points compiled UNCHANGED against the executable contract
// models of Boost.MPI (P threads, rendez-vous collectives) and TBB (choice tapes).  Every rank builds its
// OWN copy of the graph, with the addresses of its edge nodes in a per-rank order (replaceable operator
// new serving the allocations of add_edge from per-edge slots of an arena), so that pointer order of
// edge descriptors differs between ranks.
#include <cstdlib>
#include <cstring>
#include <new>
#include <atomic>
#include <thread>

// ---------------------------------------------------------------- per-rank heap layout control
namespace vp_arena {
static thread_local char *tl_bump = nullptr, *tl_end = nullptr;
struct Range { std::atomic<char*> lo{nullptr}, hi{nullptr}; };
static Range ranges[64];
inline bool in_arena(void *p) {
    for (auto &r : ranges) { char *lo = r.lo.load(), *hi = r.hi.load(); if (lo && (char*) p >= lo && (char*) p < hi) return true; }
    return false;
}
}
void* operator new(std::size_t n) {
    using namespace vp_arena;
    if (tl_bump) {
        std::size_t a = (n + 15) & ~std::size_t(15);
        if (tl_bump + a <= tl_end) { void *p = tl_bump; tl_bump += a; return p; }
    }
    void *p = std::malloc(n ? n : 1);
    if (!p) throw std::bad_alloc();
    return p;
}
void operator delete(void *p) noexcept { if (p && !vp_arena::in_arena(p)) std::free(p); }
void operator delete(void *p, std::size_t) noexcept { if (p && !vp_arena::in_arena(p)) std::free(p); }

#include <parmcb/config.hpp>
#include <parmcb/mpi/parmcb.hpp>
#include "vp_parmcb.hpp"
#include "vp_sets.hpp"
using namespace vp;
typedef BG<double> B;

static const std::size_t SLOT = 8192;

// graph copy whose i-th edge node lives in slot perm[i] of the rank's arena
struct RankGraph {
    char *arena = nullptr; int range_id = -1;
    B *bg = nullptr;
    RankGraph(const TGraph &t, const std::vector<int> &perm, int rid) : range_id(rid) {
        std::size_t sz = SLOT * (std::size_t) std::max(1, t.m());
        arena = (char*) std::malloc(sz);
        vp_arena::ranges[rid].lo = arena; vp_arena::ranges[rid].hi = arena + sz;
        TGraph empty; empty.n = t.n;
        bg = new B(empty);
        auto wm = boost::get(boost::edge_weight, bg->g);
        for (int i = 0; i < t.m(); i++) {
            vp_arena::tl_bump = arena + SLOT * (std::size_t) perm[i]; vp_arena::tl_end = vp_arena::tl_bump + SLOT;
            auto e = boost::add_edge(t.edges[i][0], t.edges[i][1], bg->g).first;
            vp_arena::tl_bump = vp_arena::tl_end = nullptr;
            wm[e] = t.w[i];
            bg->edge_of.push_back(e);
            bg->index_of[e.get_property()] = i;
        }
    }
    // realised address order of the edge descriptors (what std::set<Edge> iterates in)
    std::vector<int> realised() const { std::set<B::Edge> s(bg->edge_of.begin(), bg->edge_of.end()); std::vector<int> o; for (auto &e : s) o.push_back(bg->idx(e)); return o; }
    ~RankGraph() { delete bg; vp_arena::ranges[range_id].lo = nullptr; vp_arena::ranges[range_id].hi = nullptr; std::free(arena); }
};

static const char *ALGOS[] = {"mcb_sva_signed_mpi", "mcb_sva_fvs_trees_mpi", "mcb_sva_fvs_trees_tbb_mpi", "mcb_sva_iso_trees_mpi", "mcb_sva_iso_trees_tbb_mpi"};

static double run_algo(const std::string &a, B &bg, std::list<std::list<B::Edge>> &cycles, boost::mpi::communicator &world) {
    auto out = std::back_inserter(cycles);
    if (a == "mcb_sva_signed_mpi") return parmcb::mcb_sva_signed_mpi(bg.g, bg.weights(), out, world);
    if (a == "mcb_sva_fvs_trees_mpi") return parmcb::mcb_sva_fvs_trees_mpi(bg.g, bg.weights(), out, world);
    if (a == "mcb_sva_fvs_trees_tbb_mpi") return parmcb::mcb_sva_fvs_trees_tbb_mpi(bg.g, bg.weights(), out, world);
    if (a == "mcb_sva_iso_trees_mpi") return parmcb::mcb_sva_iso_trees_mpi(bg.g, bg.weights(), out, world);
    if (a == "mcb_sva_iso_trees_tbb_mpi") return parmcb::mcb_sva_iso_trees_tbb_mpi(bg.g, bg.weights(), out, world);
    std::cerr << "unknown algo" << std::endl; exit(3);
}

struct RankResult { bool returned = false; bool threw = false; std::string what; double ret = 0; std::vector<std::vector<int>> idx; std::vector<int> order; };

// layout kinds: 0 all identity, 1 ranks>=1 reversed, 2/3 seeded permutations on ranks>=1, 4 seeded on every rank
static std::vector<int> layout(int kind, int rank, int m, uint64_t seed) {
    std::vector<int> p(m); std::iota(p.begin(), p.end(), 0);
    if (kind == 0 || (rank == 0 && kind != 4)) return p;
    if (kind == 1) { std::reverse(p.begin(), p.end()); return p; }
    Rng r(seed * 131 + rank * 17 + kind); r.shuffle(p); return p;
}

#ifdef VP_REAL_MPI
// one real MPI process = one rank: same layout control, real Boost.MPI + real oneTBB; rank 0 judges
static int real_rank_main(int argc, char **argv, const TGraph &t, const std::string &algo, int lay, uint64_t seed) {
    boost::mpi::environment env(argc, argv, boost::mpi::threading::multiple);
    boost::mpi::communicator world;
    int r = world.rank();
    RankGraph rg(t, layout(lay, r, t.m(), seed), 0);
    std::list<std::list<B::Edge>> cycles;
    double ret = run_algo(algo, *rg.bg, cycles, world);
    auto idx = to_indices(*rg.bg, cycles);
    std::ostringstream lj; lj << "["; auto ord = rg.realised(); for (size_t i = 0; i < ord.size(); i++) { if (i) lj << ","; lj << ord[i]; } lj << "]";
    if (r != 0) {
        if (!idx.empty()) { std::cout << "REPLAY-FAIL " << algo << " rank " << r << " emitted cycles" << std::endl; return 1; }
        std::cout << "rank " << r << " edge-address order " << lj.str() << std::endl;
        return 0;
    }
    McbOracle opt = mcb_bruteforce(t);
    Verdict v = check_basis_shape(t, idx);
    double sum = v.ok() ? cycles_weight(t, idx) : 0;
    if (v.ok() && ret != sum) v = {"returned-weight", "rank 0 returned " + std::to_string(ret) + " but its cycles weigh " + std::to_string(sum)};
    if (v.ok() && opt.ok && sum != opt.weight) v = {"not-minimum", "rank 0 returned weight " + std::to_string(sum) + ", the optimum is " + std::to_string(opt.weight)};
    std::cout << "rank 0 edge-address order " << lj.str() << std::endl;
    if (!v.ok()) { std::cout << "REPLAY-FAIL " << algo << " under real mpiexec, P=" << world.size() << " " << v.kind << ": " << v.detail << std::endl; return 1; }
    std::cout << "REPLAY-OK" << std::endl;
    return 0;
}
#else
static Verdict run_case(const TGraph &t, const std::string &algo, int P, int lay, uint64_t seed, const McbOracle &opt, std::string &layouts_json) {
    boost::mpi::vp_world world(P);
    world.seed = seed; world.watchdog_ms = 60000;
    std::vector<RankResult> res(P);
    std::vector<std::thread> th;
    static std::atomic<int> rid_counter{0};
    for (int r = 0; r < P; r++) {
        th.emplace_back([&, r]() {
            int rid = (rid_counter++) % 64;
            RankGraph rg(t, layout(lay, r, t.m(), seed), rid);
            res[r].order = rg.realised();
            boost::mpi::communicator comm(&world, r);
            vp_tbb::chooser().seed(seed * 7 + r);
            std::list<std::list<B::Edge>> cycles;
            try { res[r].ret = run_algo(algo, *rg.bg, cycles, comm); res[r].returned = true; }
            catch (boost::mpi::vp_deadlock &e) { res[r].threw = true; res[r].what = e.what(); }
            catch (std::exception &e) { res[r].threw = true; res[r].what = std::string("exception: ") + e.what(); world.fail("rank " + std::to_string(r) + " threw " + e.what()); }
            world.rank_returned(r);
            res[r].idx = to_indices(*rg.bg, cycles);
        });
    }
    for (auto &x : th) x.join();
    std::ostringstream lj; lj << "[";
    for (int r = 0; r < P; r++) { if (r) lj << ","; lj << "["; for (size_t i = 0; i < res[r].order.size(); i++) { if (i) lj << ","; lj << res[r].order[i]; } lj << "]"; }
    lj << "]"; layouts_json = lj.str();
    if (world.failed) return {"mpi-deadlock", world.failure};
    for (int r = 0; r < P; r++) if (!res[r].returned) return {"mpi-rank-did-not-return", "rank " + std::to_string(r) + ": " + res[r].what};
    for (int r = 1; r < P; r++) if (!res[r].idx.empty()) return {"mpi-nonroot-emitted", "rank " + std::to_string(r) + " emitted " + std::to_string(res[r].idx.size()) + " cycles"};
    Verdict v = check_basis_shape(t, res[0].idx);
    if (!v.ok()) return v;
    double sum = cycles_weight(t, res[0].idx);
    if (res[0].ret != sum) return {"returned-weight", "rank 0 returned " + std::to_string(res[0].ret) + " but its cycles weigh " + std::to_string(sum)};
    if (opt.ok && sum != opt.weight) return {"not-minimum", "rank 0 returned weight " + std::to_string(sum) + ", the optimum is " + std::to_string(opt.weight)};
    return {};
}

#endif
// K23: the slice arithmetic used at the three sites, for every total and P: every index owned exactly once
static long check_slices(Stats &st) {
    long bad = 0;
    int T = thorough() ? 4096 : 600, PM = 64;
    for (int total = 0; total <= T; total++) for (int P = 1; P <= PM; P++) {
        std::size_t stride = ceil((double) total / P);
        long covered = 0; bool ok = true; std::size_t prev_end = 0;
        for (int r = 0; r < P; r++) {
            std::size_t istart = r * stride, iend = istart + stride;
            std::size_t lo = std::min<std::size_t>(istart, total), hi = std::min<std::size_t>(iend, total);
            if (lo < prev_end) ok = false;
            if (lo > prev_end && prev_end < (std::size_t) total) ok = false;
            covered += (long) (hi - lo); prev_end = std::max(prev_end, hi);
        }
        if (covered != total) ok = false;
        st.evaluations++;
        if (!ok) { bad++; if (bad < 3) emit_violation("slice-arithmetic", "mpi-slices-not-a-partition", "stride/istart/iend do not partition 0..total-1", "{\"total\":" + std::to_string(total) + ",\"P\":" + std::to_string(P) + "}"); }
    }
    return bad;
}

int main(int argc, char **argv) {
    SetOpts o;
    o.thorough = thorough();
    o.seed = (uint64_t) env_long("VERIF_SEED", 1);
    std::string the_case, algo; int P = 2, lay = 1; long lseed = 1;
    for (int i = 1; i < argc; i++) {
        std::string a = argv[i];
        if (a == "--shard" && i + 1 < argc) sscanf(argv[++i], "%d/%d", &o.shard, &o.nshards);
        else if (a == "--case" && i + 1 < argc) the_case = argv[++i];
        else if (a == "--algo" && i + 1 < argc) algo = argv[++i];
        else if (a == "--P" && i + 1 < argc) P = atoi(argv[++i]);
        else if (a == "--layout" && i + 1 < argc) lay = atoi(argv[++i]);
        else if (a == "--lseed" && i + 1 < argc) lseed = atol(argv[++i]);
    }
    Stats st;
#ifdef VP_REAL_MPI
    {
        TGraph t; if (the_case.empty() || !parse_tgraph(the_case, t)) return 3;
        int rc = real_rank_main(argc, argv, t, algo, lay, (uint64_t) lseed);
        return rc;      // the rank's own verdict; a failing rank 0 exits 1 (the python side also scans for REPLAY-FAIL)
    }
#else
    if (!the_case.empty()) {
        TGraph t; if (!parse_tgraph(the_case, t)) return 3;
        McbOracle opt = mcb_bruteforce(t); std::string lj;
        Verdict v = run_case(t, algo, P, lay, (uint64_t) lseed, opt, lj);
        if (!v.ok()) { std::cout << "REPLAY-FAIL " << algo << " P=" << P << " layouts=" << lj << " " << v.kind << ": " << v.detail << std::endl; return 1; }
        std::cout << "REPLAY-OK" << std::endl; return 0;
    }
    (void) check_slices;   // superseded by e3_slices (formula extracted from the sources); kept as a reference oracle
    if (o.thorough) { o.max_exh_n = 5; o.nrandom = 3000; o.shuffles = 3; } else { o.max_exh_n = 4; o.nrandom = 300; o.shuffles = 1; o.small_n = 3; }
    std::vector<int> Ps = {1, 2, 3, 4, 5, 7};
    long cases = 0;
    for_each_graph(o, [&](TGraph &t) {
        if (t.m() > 40) return;
        McbOracle opt = mcb_bruteforce(t);
        int dim = cyclomatic(t);
        uint64_t h = std::hash<std::string>()(t.key());
        for (auto a : ALGOS) {
            for (int Pi = 0; Pi < (int) Ps.size(); Pi++) {
                int P = Ps[Pi];
                // thin the product deterministically: every graph sees every P and every layout kind over the algorithms
                for (int lay = 0; lay < 5; lay++) {
                    if (!o.thorough && ((h + Pi * 5 + lay + (uint64_t) (a[8])) % 5) != 0 && !(dim <= 1 && lay <= 1)) continue;
                    if (P == 1 && lay > 0 && lay < 4) continue;
                    uint64_t ls = o.seed * 977 + h % 1000 + lay;
                    std::string lj;
                    Verdict v = run_case(t, a, P, lay, ls, opt, lj);
                    st.evaluations++; st.counts[a]++; cases++;
                    if (!v.ok()) { st.violations++;
                        if (st.counts[std::string("viol_") + a + "_" + v.kind]++ < 2)
                            emit_violation(a, v.kind, v.detail + " (P=" + std::to_string(P) + ", layout kind " + std::to_string(lay) + ", realised edge-address orders per rank " + lj + ")",
                                "{\"graph\":" + t.str() + ",\"algo\":\"" + a + "\",\"P\":" + std::to_string(P) + ",\"layout\":" + std::to_string(lay) + ",\"lseed\":" + std::to_string(ls) + ",\"orders\":" + lj + "}"); }
                    if (st.samples.size() < 3 && dim >= 2 && P >= 3 && lay >= 2) st.sample("{\"graph\":" + t.str() + ",\"P\":" + std::to_string(P) + ",\"orders\":" + lj + "}");
                }
            }
        }
        if (dim >= 2) st.distinct.insert(t.key());
    });
    // schedule sweep: on the structured families the choices of the intra-rank TBB scheduler (which of several equally light
    // cycles a phase keeps) decide which support vectors later phases see; sample many choice tapes for the larger
    // communicators, where rank-count dependent shortcuts would sit (seed S43: 2 of 40 tapes expose it)
    {
        long fi = 0; int tapes = o.thorough ? 96 : 32;
        for (auto &base : structured_families()) {
            TGraph t = base;
            if (cyclomatic(t) < 3 || t.n > 8 || t.m() > 24) continue;
            if ((fi++ % o.nshards) != o.shard) continue;
            McbOracle opt = mcb_bruteforce(t);
            for (int P : {4, 5, 7}) for (int tape = 1; tape <= tapes; tape++) {
                const char *a = "mcb_sva_signed_mpi"; std::string lj; uint64_t ls = (uint64_t) tape + 1000 * o.seed;
                Verdict v = run_case(t, a, P, 0, ls, opt, lj);
                st.evaluations++; st.counts["schedule-sweep"]++;
                if (!v.ok()) { st.violations++;
                    if (st.counts[std::string("viol_") + a + "_" + v.kind]++ < 2)
                        emit_violation(a, v.kind, v.detail + " (P=" + std::to_string(P) + ", layout kind 0, choice tape " + std::to_string(ls) + ")",
                            "{\"graph\":" + t.str() + ",\"algo\":\"" + a + "\",\"P\":" + std::to_string(P) + ",\"layout\":0,\"lseed\":" + std::to_string(ls) + ",\"orders\":" + lj + "}"); }
            }
        }
    }
    st.print("e3_mpi[contract models]", false,
            "five MPI entry points x communicator sizes {1,2,3,4,5,7} x per-rank edge-address layouts {all identical, reversed on ranks>=1, two seeded permutations on ranks>=1, seeded on every rank} (quick: a deterministic 1/5 sample of the P x layout product per graph and algorithm, thorough: all) on the exact-domain set; plus, for mcb_sva_signed_mpi on the structured families, 32 (thorough 96) intra-rank scheduler choice tapes for P in {4,5,7}; non-trivial = cycle space dimension >= 2",
            std::string("max_exh_n=") + std::to_string(o.max_exh_n) + " nrandom=" + std::to_string(o.nrandom));
    return 0;
#endif
}
