// Bounded observation of contract K26 against the REAL oneTBB: after set_global_tbb_concurrency(n)
// returns, tbb::global_control::active_value(max_allowed_parallelism) == n, for call sequences.
//   e3_knob --shard i/N | --replay n1 n2
#include <parmcb/config.hpp>
#include <parmcb/util.hpp>
#include <tbb/global_control.h>
#include <tbb/parallel_for.h>
#include "vp_parmcb.hpp"
#include <thread>
#include <atomic>
using namespace vp;
static std::size_t active() { return tbb::global_control::active_value(tbb::global_control::max_allowed_parallelism); }
static Verdict seq(const std::vector<std::size_t> &ns) {
    for (std::size_t n : ns) {
        parmcb::set_global_tbb_concurrency(n);
        if (active() != n) return {"knob-no-effect", "after set_global_tbb_concurrency(" + std::to_string(n) + ") the allowed parallelism is " + std::to_string(active())};
        // a library call that follows: the limit must still be in force inside and after it
        std::atomic<int> x{0};
        tbb::parallel_for(0, 64, [&](int) { x++; });
        if (active() != n) return {"knob-not-lasting", "limit lost after a parallel call"};
    }
    return {};
}
int main(int argc, char **argv) {
    int shard = 0, nshards = 1;
    for (int i = 1; i < argc; i++) {
        std::string a = argv[i];
        if (a == "--shard" && i + 1 < argc) sscanf(argv[++i], "%d/%d", &shard, &nshards);
        else if (a == "--replay" && i + 2 < argc) {
            Verdict v = seq({(std::size_t) atol(argv[i + 1]), (std::size_t) atol(argv[i + 2]), (std::size_t) atol(argv[i + 1])});
            if (!v.ok()) { std::cout << "REPLAY-FAIL " << v.kind << ": " << v.detail << std::endl; return 1; }
            std::cout << "REPLAY-OK" << std::endl; return 0;
        }
    }
    Stats st;
    long idx = 0;
    int N = thorough() ? 16 : 8;
    // values above the number of cores available to the process are legal too ("for every n >= 1")
    int hw = (int) std::thread::hardware_concurrency();
    std::vector<int> vals; for (int v = 1; v <= N; v++) vals.push_back(v);
    vals.push_back(hw); vals.push_back(hw + 1); vals.push_back(2 * hw + 3); vals.push_back(67);
    for (int a : vals) for (int b : vals) for (int c : vals) {
        if (!thorough() && ((a * 31 + b * 7 + c) % 3) != 0 && !(a > N || b > N || c > N)) continue;
        if ((idx++ % nshards) != shard) continue;
        Verdict v = seq({(std::size_t) a, (std::size_t) b, (std::size_t) c});
        st.evaluations++; st.distinct.insert(std::to_string(a) + "," + std::to_string(b) + "," + std::to_string(c));
        if (!v.ok()) { st.violations++; if (st.counts["viol"]++ < 2) emit_violation("set_global_tbb_concurrency", v.kind, v.detail, "{\"seq\":[" + std::to_string(a) + "," + std::to_string(b) + "," + std::to_string(c) + "]}"); }
        if (st.samples.size() < 3) st.sample("[" + std::to_string(a) + "," + std::to_string(b) + "," + std::to_string(c) + "]");
    }
    st.print("e3_knob", true, "call sequences (n1,n2,n3) with values in 1..N plus hw, hw+1, 2hw+3, 67 (values above the core count are legal) against the real oneTBB active_value, each followed by a parallel_for", "N=" + std::to_string(N));
    return 0;
}
