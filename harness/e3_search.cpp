// Bounded stand-in for the search-function contracts K9 (bidirectional_signed_dijkstra, signed_dijkstra)
// and K10 (OddCycleFinder::find): each callee is exercised over ITS OWN precondition space - every
// witness set S, every hidden-edge chain prefix, limits at / around the optimum - not only over the
// states the main loop happens to reach.
#include <parmcb/config.hpp>
#include <parmcb/parmcb_sva_signed.hpp>
#include <parmcb/parmcb_sva_signed_tbb.hpp>
#include "vp_parmcb.hpp"
#include "vp_sets.hpp"
#include <queue>

using namespace vp;
typedef BG<double> B;
typedef B::Edge Edge;

struct Signed {                 // two-level signed graph oracle
    const TGraph &t; uint64_t S, H;
    int n;
    std::vector<double> d;      // distance from source node
    int node(int v, bool pos) const { return v + (pos ? 0 : n); }
    Signed(const TGraph &t, uint64_t S, uint64_t H) : t(t), S(S), H(H), n(t.n) {}
    void run(int src) {
        d.assign(2 * n, 1e300);
        d[src] = 0;
        std::vector<char> done(2 * n, 0);
        for (int it = 0; it < 2 * n; it++) {
            int u = -1;
            for (int v = 0; v < 2 * n; v++) if (!done[v] && d[v] < 1e299 && (u < 0 || d[v] < d[u])) u = v;
            if (u < 0) break;
            done[u] = 1;
            for (int e = 0; e < t.m(); e++) {
                if (H >> e & 1) continue;
                for (int dir = 0; dir < 2; dir++) {
                    int a = t.edges[e][dir], b = t.edges[e][1 - dir];
                    if (a != u % n) continue;
                    bool pos = u < n;
                    bool npos = (S >> e & 1) ? !pos : pos;
                    int w = node(b, npos);
                    if (d[u] + t.w[e] < d[w]) d[w] = d[u] + t.w[e];
                }
            }
        }
    }
    // does some shortest src->dst path use an underlying edge twice?
    bool some_shortest_repeats(int src, int dst) {
        bool found = false;
        long budget = 200000;
        std::function<void(int, uint64_t)> dfs = [&](int u, uint64_t used) {
            if (found || --budget < 0) return;
            if (u == dst) return;
            for (int e = 0; e < t.m(); e++) {
                if (H >> e & 1) continue;
                for (int dir = 0; dir < 2; dir++) {
                    int a = t.edges[e][dir], b = t.edges[e][1 - dir];
                    if (a != u % n) continue;
                    bool pos = u < n;
                    bool npos = (S >> e & 1) ? !pos : pos;
                    int w = node(b, npos);
                    if (d[u] + t.w[e] != d[w]) continue;          // tight edge only
                    // must still be able to reach dst on a shortest path: check by distance bound later
                    if (used >> e & 1) {
                        // this prefix repeats an edge; it is on a shortest path iff dst reachable tightly from w
                        if (reaches(w, dst)) { found = true; return; }
                        continue;
                    }
                    dfs(w, used | (1ULL << e));
                    if (found) return;
                }
            }
        };
        dfs(src, 0);
        if (budget < 0) return true;     // could not decide: be lenient (counts as excused)
        return found;
    }
    bool reaches(int from, int dst) {
        if (from == dst) return true;
        std::vector<char> seen(2 * n, 0);
        std::vector<int> st = {from};
        seen[from] = 1;
        while (!st.empty()) {
            int u = st.back(); st.pop_back();
            if (u == dst) return true;
            for (int e = 0; e < t.m(); e++) {
                if (H >> e & 1) continue;
                for (int dir = 0; dir < 2; dir++) {
                    int a = t.edges[e][dir], b = t.edges[e][1 - dir];
                    if (a != u % n) continue;
                    bool pos = u < n;
                    int w = node(b, (S >> e & 1) ? !pos : pos);
                    if (d[u] + t.w[e] != d[w] || seen[w]) continue;
                    seen[w] = 1; st.push_back(w);
                }
            }
        }
        return false;
    }
};

static std::string input_json(const TGraph &t, uint64_t S, uint64_t H, int s, bool sp, int tt, bool tp, bool lim, double limit, const char *fn) {
    std::ostringstream o; o.precision(17);
    o << "{\"graph\":" << t.str() << ",\"S\":" << S << ",\"H\":" << H << ",\"s\":" << s << ",\"s_pos\":" << sp << ",\"t\":" << tt
      << ",\"t_pos\":" << tp << ",\"use_limit\":" << lim << ",\"limit\":" << limit << ",\"fn\":\"" << fn << "\"}";
    return o.str();
}

static long g_excuse_checks = 0, g_found = 0;
// K9 on one call; returns violated clause
template<class Fn>
Verdict check_call(const TGraph &t, B &bg, uint64_t S, uint64_t H, bool useH, int s, bool sp, int tt, bool tp,
        bool lim, double limit, Fn fn) {
    std::set<Edge> Sset, Hset;
    for (int e = 0; e < t.m(); e++) { if (S >> e & 1) Sset.insert(bg.edge_of[e]); if (H >> e & 1) Hset.insert(bg.edge_of[e]); }
    auto wm = bg.weights();
    auto res = fn(bg.g, wm, Sset, Hset, useH, (B::Vertex) s, sp, (B::Vertex) tt, tp, lim, limit);
    Signed or_(t, S, useH ? H : 0);
    int src = or_.node(s, sp), dst = or_.node(tt, tp);
    or_.run(src);
    double D = or_.d[dst];
    bool reachable = D < 1e299 && (!lim || D < limit);
    if (std::get<2>(res)) {
        g_found++;
        std::vector<int> idx;
        for (auto &e : std::get<0>(res)) idx.push_back(bg.idx(e));
        double sum = 0; int par = 0; std::vector<int> deg(t.n, 0);
        for (int e : idx) {
            if (e < 0) return {"foreign-edge", "search returned an edge that is not in the graph"};
            if (useH && (H >> e & 1)) return {"hidden-edge-used", "returned walk uses a hidden edge"};
            sum += t.w[e]; par ^= (int) (S >> e & 1); deg[t.edges[e][0]]++; deg[t.edges[e][1]]++;
        }
        if (sum != std::get<1>(res)) return {"search-weight", "returned weight " + std::to_string(std::get<1>(res)) + " != weight of returned edges " + std::to_string(sum)};
        if (par != (sp != tp ? 1 : 0)) return {"search-parity", "parity of returned walk w.r.t. S is wrong"};
        for (int v = 0; v < t.n; v++) {
            int want = ((v == s) ^ (v == tt)) ? 1 : 0;
            if ((deg[v] & 1) != want) return {"search-not-a-walk", "returned edges do not form an s-t walk"};
        }
        if (!reachable) return {"search-limit", "found a walk although none below the limit exists"};
        if (sum != D) return {"search-not-minimum", "returned walk weighs " + std::to_string(sum) + ", shortest signed distance is " + std::to_string(D)};
        if (lim && !(sum < limit)) return {"search-limit", "returned weight not below the limit"};
    } else {
        if (reachable) g_excuse_checks++;
        if (reachable && !or_.some_shortest_repeats(src, dst))
            return {"search-missed", "reported not-found although a walk of weight " + std::to_string(D) + " exists (limit " + (lim ? std::to_string(limit) : std::string("off")) + ") and no shortest walk repeats an edge"};
    }
    return {};
}

int main(int argc, char **argv) {
    SetOpts o;
    o.thorough = thorough();
    o.seed = (uint64_t) env_long("VERIF_SEED", 1);
    std::string the_case, fnname = "bidir"; unsigned long long cS = 0, cH = 0; int cs = 0, ct = 0, cspos = 1, ctpos = 0, culim = 0; double climit = 0;
    for (int i = 1; i < argc; i++) {
        std::string a = argv[i];
        if (a == "--shard" && i + 1 < argc) sscanf(argv[++i], "%d/%d", &o.shard, &o.nshards);
        else if (a == "--case" && i + 1 < argc) the_case = argv[++i];
        else if (a == "--S" && i + 1 < argc) cS = strtoull(argv[++i], 0, 10);
        else if (a == "--H" && i + 1 < argc) cH = strtoull(argv[++i], 0, 10);
        else if (a == "--s" && i + 1 < argc) cs = atoi(argv[++i]);
        else if (a == "--t" && i + 1 < argc) ct = atoi(argv[++i]);
        else if (a == "--spos" && i + 1 < argc) cspos = atoi(argv[++i]);
        else if (a == "--tpos" && i + 1 < argc) ctpos = atoi(argv[++i]);
        else if (a == "--uselimit" && i + 1 < argc) culim = atoi(argv[++i]);
        else if (a == "--limit" && i + 1 < argc) climit = atof(argv[++i]);
        else if (a == "--fn" && i + 1 < argc) fnname = argv[++i];
    }
    if (!the_case.empty()) {
        TGraph t; if (!parse_tgraph(the_case, t)) return 3;
        B bg(t);
        auto bidir0 = [](auto &&... a) { return parmcb::bidirectional_signed_dijkstra(a...); };
        Verdict vd;
        if (fnname == "find") {
            parmcb::ForestIndex<B::Graph> fi(bg.g);
            std::set<std::size_t> coords; for (int e = 0; e < t.m(); e++) if (cS >> e & 1) coords.insert(fi(bg.edge_of[e]));
            parmcb::SpVecGF2<std::size_t> support(coords);
            std::vector<B::Vertex> verts; for (int v = 0; v < t.n; v++) verts.push_back(v);
            auto wm = bg.weights();
            parmcb::detail::OddCycleFinder<B::Graph, B::WeightMap> finder(bg.g, wm, fi, verts);
            auto res = finder.find(support);
            std::vector<uint64_t> cycles; all_simple_cycles(t, cycles);
            double best = 1e300; for (auto c : cycles) if (__builtin_popcountll(c & cS) & 1) best = std::min(best, mask_weight(t, c));
            if (best < 1e299 && (!std::get<2>(res) || std::get<1>(res) != best)) vd = {"phase-not-minimum", "OddCycleFinder::find does not return a minimum odd cycle (minimum " + std::to_string(best) + ")"};
            if (best > 1e299 && std::get<2>(res)) vd = {"phase-spurious", "found an odd cycle although none exists"};
        } else {
            vd = check_call(t, bg, cS, cH, cH != 0, cs, cspos != 0, ct, ctpos != 0, culim != 0, climit, bidir0);
        }
        if (!vd.ok()) { std::cout << "REPLAY-FAIL " << fnname << " " << vd.kind << ": " << vd.detail << std::endl; return 1; }
        std::cout << "REPLAY-OK" << std::endl; return 0;
    }
    // search-function space: smaller graphs, but every S
    o.small_n = 4; o.max_exh_n = o.thorough ? 5 : 4; o.nrandom = o.thorough ? 3000 : 60; o.rnd_max_n = 7; o.rnd_max_dim = 5;
    o.shuffles = 1;
    Stats st;
    Rng rr(o.seed + 99);
    auto bidir = [](auto &&... a) { return parmcb::bidirectional_signed_dijkstra(a...); };
    // parmcb::signed_dijkstra (unidirectional) cannot be instantiated on the pinned tree (its duplicate-edge
    // branch returns a std::pair where a 3-tuple is required) and no entry point calls it: not under contract.
    for_each_graph(o, [&](TGraph &t) {
        if (t.m() < 1 || t.m() > 12 || t.n > 9) return;
        B bg(t);
        int m = t.m();
        // chain order = order of std::set<Edge>
        std::vector<int> order;
        { std::set<Edge> all; for (auto &e : bg.edge_of) all.insert(e); for (auto &e : all) order.push_back(bg.idx(e)); }
        uint64_t nS = 1ULL << m;
        uint64_t stepS = (m > 8) ? 37 : 1;        // sample S for larger m
        std::vector<uint64_t> cycles; all_simple_cycles(t, cycles);
        for (uint64_t S = 1; S < nS; S += stepS) {
            st.distinct.insert(t.key() + "|S" + std::to_string(S));
            // (a) all-vertices mode: v+ -> v-
            for (int v = 0; v < t.n; v++) {
                Signed or_(t, S, 0); or_.run(v); double D = or_.d[v + t.n];
                double lims[4] = {0, D, D + 0.5, D - 0.5};
                for (int li = 0; li < 4; li++) {
                    bool lim = li > 0; if (lim && D > 1e299) continue;
                    for (int which = 0; which < 1; which++) {
                        Verdict vd = check_call(t, bg, S, 0, false, v, true, v, false, lim, lims[li], bidir);
                        st.evaluations++;
                        if (!vd.ok()) { st.violations++; emit_violation(which == 0 ? "bidirectional_signed_dijkstra" : "signed_dijkstra", vd.kind, vd.detail,
                                input_json(t, S, 0, v, true, v, false, lim, lims[li], which == 0 ? "bidir" : "unidir")); }
                    }
                }
            }
            // (b) hidden-chain mode
            std::vector<int> chain; for (int e : order) if (S >> e & 1) chain.push_back(e);
            uint64_t H = S;
            for (size_t i = 0; i < chain.size(); i++) {
                int se = chain[i];
                int a = t.edges[se][0], b = t.edges[se][1];
                Signed or_(t, S, H); or_.run(a); double D = or_.d[b];
                double lims[3] = {0, D, D + 0.5};
                for (int li = 0; li < 3; li++) {
                    bool lim = li > 0; if (lim && D > 1e299) continue;
                    Verdict vd = check_call(t, bg, S, H, true, a, true, b, true, lim, lims[li], bidir);
                    st.evaluations++;
                    if (!vd.ok()) { st.violations++; emit_violation("bidirectional_signed_dijkstra", vd.kind, vd.detail, input_json(t, S, H, a, true, b, true, lim, lims[li], "bidir")); }
                }
                H &= ~(1ULL << se);
            }
            // (c) K10: OddCycleFinder::find on the support vector with view S
            {
                parmcb::ForestIndex<B::Graph> fi(bg.g);
                std::set<std::size_t> coords;
                for (int e = 0; e < m; e++) if (S >> e & 1) coords.insert(fi(bg.edge_of[e]));
                parmcb::SpVecGF2<std::size_t> support(coords);
                std::vector<B::Vertex> verts; for (int v = 0; v < t.n; v++) verts.push_back(v);
                auto wm = bg.weights();
                parmcb::detail::OddCycleFinder<B::Graph, B::WeightMap> finder(bg.g, wm, fi, verts);
                auto res = finder.find(support);
                double best = 1e300;
                for (auto c : cycles) if (__builtin_popcountll(c & S) & 1) best = std::min(best, mask_weight(t, c));
                st.evaluations++;
                Verdict vd;
                if (best > 1e299) { if (std::get<2>(res)) vd = {"phase-spurious", "found an odd cycle although none exists"}; }
                else if (!std::get<2>(res)) vd = {"phase-missed", "no odd cycle found although one of weight " + std::to_string(best) + " exists"};
                else {
                    std::vector<int> idx; for (auto &e : std::get<0>(res)) idx.push_back(bg.idx(e));
                    std::string err = simple_cycle_error(t, idx);
                    uint64_t mask = 0; double sum = 0; for (int e : idx) if (e >= 0) { mask |= 1ULL << e; sum += t.w[e]; }
                    if (!err.empty()) vd = {"phase-not-simple", err};
                    else if (!(__builtin_popcountll(mask & S) & 1)) vd = {"phase-parity", "cycle is even w.r.t. the witness"};
                    else if (sum != std::get<1>(res)) vd = {"phase-weight", "returned weight differs from cycle weight"};
                    else if (sum != best) vd = {"phase-not-minimum", "odd cycle of weight " + std::to_string(sum) + ", minimum is " + std::to_string(best)};
                }
                if (!vd.ok()) { st.violations++; emit_violation("OddCycleFinder::find", vd.kind, vd.detail, input_json(t, S, 0, 0, 0, 0, 0, 0, 0, "find")); }
            }
        }
        if (st.samples.size() < 4 && t.m() >= 4) st.sample(t.str());
    });
    st.counts["search_found"] = g_found; st.counts["search_notfound_excused_by_repeated_edge"] = g_excuse_checks;
    st.print("e3_search", false,
            "for every graph of the search set (all labelled graphs n<=4 x weights {1,2}, thorough n<=5, families, seeded random with m<=12): every non-empty witness set S (sampled with stride 37 when m>8) x every start vertex x limits {off, D, D+0.5, D-0.5} (bidirectional_signed_dijkstra); every hidden-chain prefix in std::set order; OddCycleFinder::find per S. distinct = (graph,S) pairs",
            std::string("m<=12 n<=9 max_exh_n=") + std::to_string(o.max_exh_n));
    return 0;
}
