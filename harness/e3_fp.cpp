// Bounded stand-in + native replay for contracts K19 (ext_gcd), K20 (get_mult_inverse), K21 (is_prime)
// and K22 (SpVecFP): the real templates, instantiated with long and boost::multiprecision::cpp_int.
//   e3_fp --shard i/N
//   e3_fp --replay-gcd a b | --replay-prime p | --replay-inv a p
#include <cmath>
#include <cassert>
#include <stdexcept>
#include <cstddef>
#include <boost/multiprecision/cpp_int.hpp>
#define PARMCB_INVARIANTS_CHECK
#include <parmcb/fp.hpp>
#include <parmcb/spvecfp.hpp>
#include "vp_parmcb.hpp"

using namespace vp;
typedef boost::multiprecision::cpp_int BI;

template<class T> std::string ts(const T &v) { std::ostringstream o; o << v; return o.str(); }

// K19 postcondition; returns violated clause
template<class T>
Verdict gcd_contract(long a0l, long b0l) {
    T a = a0l, b = b0l, x = 0, y = 0;
    T a0 = a0l, b0 = b0l;
    T g = parmcb::fp<T>::ext_gcd(a, b, x, y);
    if (!(g > 0)) return {"gcd-not-positive", "ext_gcd(" + ts(a0) + "," + ts(b0) + ") returned " + ts(g)};
    if (a0 * x + b0 * y != g) return {"bezout", "ext_gcd(" + ts(a0) + "," + ts(b0) + "): g=" + ts(g) + " x=" + ts(x) + " y=" + ts(y) + " but a*x+b*y=" + ts(T(a0 * x + b0 * y))};
    if (a0 % g != 0 || b0 % g != 0) return {"gcd-not-divisor", "g does not divide both"};
    // greatest: independent Euclid
    long aa = std::labs(a0l), bb = std::labs(b0l);
    while (bb) { long t = aa % bb; aa = bb; bb = t; }
    if (g != T(aa)) return {"gcd-not-greatest", "ext_gcd(" + ts(a0) + "," + ts(b0) + ")=" + ts(g) + " but gcd is " + std::to_string(aa)};
    return {};
}

template<class T>
Verdict inv_contract(long al, long pl) {
    long aa = std::labs(al), bb = std::labs(pl);
    while (bb) { long t = aa % bb; aa = bb; bb = t; }
    bool coprime = (aa == 1);
    T a = al, p = pl;
    bool thrown = false; T r = 0;
    try { r = parmcb::fp<T>::get_mult_inverse(a, p); }
    catch (std::runtime_error *e) { thrown = true; delete e; }
    catch (...) { thrown = true; }
    if (pl <= 0) { if (!thrown) return {"inverse-nonpositive-modulus", "p<=0 accepted"}; return {}; }
    if (coprime == thrown) return {"inverse-throws-iff", std::string("get_mult_inverse(") + std::to_string(al) + "," + std::to_string(pl) + ") " + (thrown ? "threw" : "did not throw") + " although gcd" + (coprime ? "=1" : "!=1")};
    if (!thrown) {
        T P = pl, A = al;
        T m = ((A % P) * (r % P)) % P; if (m < 0) m += P;
        T one = T(1) % P;
        if (m != one) return {"inverse-congruence", "a*ret mod p = " + ts(m) + " for a=" + std::to_string(al) + " p=" + std::to_string(pl) + " ret=" + ts(r)};
    }
    return {};
}

template<class T>
Verdict prime_contract(long pl, bool truth) {
    T p = pl;
    bool r;
    try { r = parmcb::primes<T>::is_prime(p); }
    catch (...) { return {"is_prime-throws", "is_prime(" + std::to_string(pl) + ") threw"}; }
    if (r != truth) return {"is_prime-wrong", "is_prime(" + std::to_string(pl) + ") = " + (r ? "true" : "false")};
    return {};
}

// ------------------------------------------------------------------ K22 SpVecFP against a dense model
template<class P>
struct Dense { std::vector<P> v; P p; };

template<class P>
Verdict spvecfp_matches(const parmcb::SpVecFP<P> &s, const std::vector<P> &dense, const P &p, const std::string &ctx) {
    std::size_t last = 0; bool first = true;
    std::vector<P> seen(dense.size(), P(0));
    for (auto it = s.begin(); it != s.end(); ++it) {
        std::size_t idx = boost::get<0>(*it); P val = boost::get<1>(*it);
        if (!first && idx <= last) return {"spvecfp-order", ctx + ": indices not strictly increasing"};
        first = false; last = idx;
        if (idx >= dense.size()) return {"spvecfp-range", ctx + ": index out of dimension"};
        if (!(val >= 1 && val <= p - 1)) return {"spvecfp-canonical", ctx + ": stored value " + ts(val) + " not in 1..p-1"};
        seen[idx] = val;
    }
    for (std::size_t i = 0; i < dense.size(); i++) {
        P d = dense[i] % p; if (d < 0) d += p;
        if (seen[i] != d) return {"spvecfp-value", ctx + ": coordinate " + std::to_string(i) + " is " + ts(seen[i]) + ", dense computation gives " + ts(d)};
    }
    return {};
}

template<class P>
Verdict spvecfp_history(Rng &r, long pl, int dim, int steps, std::string &trace) {
    typedef parmcb::SpVecFP<P> V;
    P p = pl;
    const int NV = 3;
    std::vector<V> vs; std::vector<std::vector<P>> ds;
    for (int i = 0; i < NV; i++) { vs.emplace_back(p); ds.emplace_back(dim, P(0)); }
    for (int s = 0; s < steps; s++) {
        int op = r.below(7), i = r.below(NV), j = r.below(NV), k = r.below(NV);
        std::ostringstream o;
        if (op == 0) { std::size_t idx = r.below(dim); vs[i] = idx; std::fill(ds[i].begin(), ds[i].end(), P(0)); ds[i][idx] = 1; o << "v" << i << "=unit(" << idx << ")"; }
        else if (op == 1) { V t = vs[j] + vs[k]; vs[i] = t; std::vector<P> d(dim); for (int q = 0; q < dim; q++) d[q] = ds[j][q] + ds[k][q]; ds[i] = d; o << "v" << i << "=v" << j << "+v" << k; }
        else if (op == 2) { vs[i] += vs[j]; std::vector<P> d(dim); for (int q = 0; q < dim; q++) d[q] = ds[i][q] + ds[j][q]; ds[i] = d; o << "v" << i << "+=v" << j; }
        else if (op == 3) { long a = (long) r.below(4 * (int) std::min<long>(pl, 1000)) - 2 * std::min<long>(pl, 1000); V t = vs[j] * P(a); vs[i] = t; std::vector<P> d(dim); for (int q = 0; q < dim; q++) d[q] = ds[j][q] * P(a); ds[i] = d; o << "v" << i << "=v" << j << "*" << a; }
        else if (op == 4) { long a = (long) r.below(2 * (int) std::min<long>(pl, 1000) + 1) - std::min<long>(pl, 1000); vs[i] *= P(a); for (int q = 0; q < dim; q++) ds[i][q] = ds[i][q] * P(a); o << "v" << i << "*=" << a; }
        else if (op == 5) {
            P dot = vs[i] * vs[j]; P dd = 0;
            for (int q = 0; q < dim; q++) { P x = ds[i][q] % p; if (x < 0) x += p; P y = ds[j][q] % p; if (y < 0) y += p; dd = (dd + x * y) % p; }
            o << "dot(v" << i << ",v" << j << ")";
            trace += o.str() + "; ";
            if (dot != dd) return {"spvecfp-dot", "dot product " + ts(dot) + " != dense " + ts(dd)};
            continue;
        } else { V c(vs[j]); vs[i] = c; ds[i] = ds[j]; o << "v" << i << "=copy(v" << j << ")"; }
        trace += o.str() + "; ";
        for (auto &d : ds[i]) { d %= p; }
        Verdict v = spvecfp_matches(vs[i], ds[i], p, o.str());
        if (!v.ok()) return v;
    }
    return {};
}

int main(int argc, char **argv) {
    int shard = 0, nshards = 1;
    for (int i = 1; i < argc; i++) {
        std::string a = argv[i];
        if (a == "--shard" && i + 1 < argc) sscanf(argv[++i], "%d/%d", &shard, &nshards);
        else if (a == "--replay-gcd" && i + 2 < argc) {
            long x = atol(argv[i + 1]), y = atol(argv[i + 2]);
            Verdict v = gcd_contract<long>(x, y); if (v.ok()) v = gcd_contract<BI>(x, y);
            if (!v.ok()) { std::cout << "REPLAY-FAIL " << v.kind << ": " << v.detail << std::endl; return 1; }
            std::cout << "REPLAY-OK" << std::endl; return 0;
        } else if (a == "--replay-prime" && i + 1 < argc) {
            long p = atol(argv[i + 1]); bool truth = p >= 2; for (long d = 2; d * d <= p; d++) if (p % d == 0) truth = false;
            Verdict v = prime_contract<long>(p, truth); if (v.ok()) v = prime_contract<BI>(p, truth);
            if (!v.ok()) { std::cout << "REPLAY-FAIL " << v.kind << ": " << v.detail << std::endl; return 1; }
            std::cout << "REPLAY-OK" << std::endl; return 0;
        } else if (a == "--replay-add" && i + 3 < argc) {
            // --replay-add p "i:v,i:v" "i:v": the two operands (built from unit vectors and scalars, checked first), then a + b
            long pl = atol(argv[i + 1]); const int dim = 16;
            auto parse = [&](const char *txt, parmcb::SpVecFP<long> &out, std::vector<long> &dense) {
                std::string t = txt; size_t pos = 0;
                while (pos < t.size() && t != "-") {
                    size_t c = t.find(':', pos), e = t.find(',', pos); if (e == std::string::npos) e = t.size();
                    long idx = atol(t.substr(pos, c - pos).c_str()), val = atol(t.substr(c + 1, e - c - 1).c_str());
                    if (idx < 0 || idx >= dim) { std::cout << "REPLAY-SKIP index outside the replay dimension" << std::endl; exit(0); }
                    parmcb::SpVecFP<long> u(pl); u = (std::size_t) idx; out += u * val; dense[idx] += val;
                    pos = e + 1;
                }
            };
            parmcb::SpVecFP<long> x(pl), y(pl); std::vector<long> dx(dim, 0), dy(dim, 0), dz(dim, 0);
            parse(argv[i + 2], x, dx); parse(argv[i + 3], y, dy);
            Verdict v = spvecfp_matches<long>(x, dx, pl, "left operand"); if (v.ok()) v = spvecfp_matches<long>(y, dy, pl, "right operand");
            if (v.ok()) { parmcb::SpVecFP<long> z = x + y; for (int q = 0; q < dim; q++) dz[q] = dx[q] + dy[q]; v = spvecfp_matches<long>(z, dz, pl, "a+b"); }
            if (!v.ok()) { std::cout << "REPLAY-FAIL " << v.kind << ": " << v.detail << std::endl; return 1; }
            std::cout << "REPLAY-OK" << std::endl; return 0;
        } else if (a == "--replay-scale" && i + 3 < argc) {
            // --replay-scale p "i:v,i:v" a: the operand (built from unit vectors, checked first), then operand * a
            long pl = atol(argv[i + 1]), sc = atol(argv[i + 3]); const int dim = 16;
            parmcb::SpVecFP<long> x(pl); std::vector<long> dx(dim, 0), dz(dim, 0);
            std::string t = argv[i + 2]; size_t pos = 0;
            while (pos < t.size() && t != "-") {
                size_t c = t.find(':', pos), e = t.find(',', pos); if (e == std::string::npos) e = t.size();
                long idx = atol(t.substr(pos, c - pos).c_str()), val = atol(t.substr(c + 1, e - c - 1).c_str());
                if (idx < 0 || idx >= dim) { std::cout << "REPLAY-SKIP index outside the replay dimension" << std::endl; return 0; }
                parmcb::SpVecFP<long> u(pl); u = (std::size_t) idx;
                for (long q = 0; q < val; q++) x += u;          // built by additions only: the scaling under test is not used to build its own input
                dx[idx] += val; pos = e + 1;
            }
            Verdict v = spvecfp_matches<long>(x, dx, pl, "operand");
            if (v.ok()) { parmcb::SpVecFP<long> z = x * sc; for (int q = 0; q < dim; q++) dz[q] = dx[q] * sc; v = spvecfp_matches<long>(z, dz, pl, "v*a"); }
            if (!v.ok()) { std::cout << "REPLAY-FAIL " << v.kind << ": " << v.detail << std::endl; return 1; }
            std::cout << "REPLAY-OK" << std::endl; return 0;
        } else if (a == "--replay-inv" && i + 2 < argc) {
            long x = atol(argv[i + 1]), y = atol(argv[i + 2]);
            Verdict v = inv_contract<long>(x, y);
            if (!v.ok()) { std::cout << "REPLAY-FAIL " << v.kind << ": " << v.detail << std::endl; return 1; }
            std::cout << "REPLAY-OK" << std::endl; return 0;
        }
    }
    bool th = thorough();
    Stats st;
    long G = th ? 2048 : 400;
    // K19 exhaustive |a|,|b| <= G, long and cpp_int (cpp_int on a sub-grid in the quick tier)
    long cnt = 0;
    for (long a = -G; a <= G; a++) {
        if (((a + G) % nshards) != shard) continue;
        for (long b = -G; b <= G; b++) {
            if (a == 0 && b == 0) continue;
            Verdict v = gcd_contract<long>(a, b);
            st.evaluations++; cnt++;
            if (!v.ok()) { st.violations++; if (st.counts["gcd_viol_" + v.kind]++ < 3) emit_violation("fp<long>::ext_gcd", v.kind, v.detail, "{\"a\":" + std::to_string(a) + ",\"b\":" + std::to_string(b) + "}"); }
            if (th || (std::labs(a) <= 64 && std::labs(b) <= 64) || (a * 31 + b) % 97 == 0) {
                Verdict w = gcd_contract<BI>(a, b);
                st.evaluations++;
                if (!w.ok()) { st.violations++; if (st.counts["gcdbi_viol_" + w.kind]++ < 3) emit_violation("fp<cpp_int>::ext_gcd", w.kind, w.detail, "{\"a\":" + std::to_string(a) + ",\"b\":" + std::to_string(b) + "}"); }
            }
            if (a != 0 && b != 0 && (a % 7 == 0)) st.distinct.insert(std::to_string(a) + "," + std::to_string(b));
        }
    }
    st.counts["gcd_pairs"] = cnt;
    // K20: all a in [-M,M], p in [-3, M]
    long M = th ? 600 : 150;
    for (long a = -M; a <= M; a++) {
        if (((a + M) % nshards) != shard) continue;
        for (long p = -3; p <= M; p++) {
            if (a == 0 && p == 0) continue;
            if (p <= 0 && a == 0) continue;
            Verdict v = inv_contract<long>(a, p);
            st.evaluations++;
            if (!v.ok()) { st.violations++; if (st.counts["inv_viol_" + v.kind]++ < 3) emit_violation("fp<long>::get_mult_inverse", v.kind, v.detail, "{\"a\":" + std::to_string(a) + ",\"p\":" + std::to_string(p) + "}"); }
            if ((a + p) % 5 == 0) {
                Verdict w = inv_contract<BI>(a, p); st.evaluations++;
                if (!w.ok()) { st.violations++; if (st.counts["invbi_viol_" + w.kind]++ < 3) emit_violation("fp<cpp_int>::get_mult_inverse", w.kind, w.detail, "{\"a\":" + std::to_string(a) + ",\"p\":" + std::to_string(p) + "}"); }
            }
        }
    }
    // K21: sieve to N
    long N = th ? (1L << 22) : (1L << 16);
    std::vector<char> comp(N + 1, 0);
    for (long i = 2; i * i <= N; i++) if (!comp[i]) for (long j = i * i; j <= N; j += i) comp[j] = 1;
    for (long p = 2; p <= N; p++) {
        if ((p % nshards) != shard) continue;
        Verdict v = prime_contract<long>(p, !comp[p]); st.evaluations++;
        if (v.ok()) { v = prime_contract<int>(p, !comp[p]); st.evaluations++; }
        if (v.ok() && (p < 4096 || p % 61 == 0)) { v = prime_contract<BI>(p, !comp[p]); st.evaluations++; }
        if (!v.ok()) { st.violations++; if (st.counts["prime_viol"]++ < 3) emit_violation("primes<T>::is_prime", v.kind, v.detail, "{\"p\":" + std::to_string(p) + "}"); }
        if (!comp[p]) st.distinct.insert("p" + std::to_string(p));
    }
    // K22: SpVecFP histories
    Rng r((uint64_t) env_long("VERIF_SEED", 1) * 1000 + shard);
    long primes_[] = {2, 3, 5, 7, 13, 17, 101, 65521, 2147483647L};
    int H = th ? 30000 : 400;
    for (int h = 0; h < H; h++) {
        long p = primes_[r.below(9)];
        std::string trace;
        Verdict v = (p < 100000) ? spvecfp_history<long>(r, p, 1 + r.below(6), 12, trace) : Verdict{};
        st.evaluations++;
        if (!v.ok()) { st.violations++; if (st.counts["spvecfp_long_viol"]++ < 3) emit_violation("SpVecFP<long>", v.kind, v.detail + " after: " + trace, "{\"p\":" + std::to_string(p) + "}"); }
        std::string trace2;
        Verdict w = spvecfp_history<BI>(r, p, 1 + r.below(6), 12, trace2);
        st.evaluations++;
        if (!w.ok()) { st.violations++; if (st.counts["spvecfp_bi_viol"]++ < 3) emit_violation("SpVecFP<cpp_int>", w.kind, w.detail + " after: " + trace2, "{\"p\":" + std::to_string(p) + "}"); }
        st.distinct.insert("h" + std::to_string(std::hash<std::string>()(trace2)));
        if (h < 2) st.sample("\"p=" + std::to_string(p) + ": " + trace2 + "\"");
    }
    st.print("e3_fp", false,
            "ext_gcd: every pair |a|,|b|<=G (long; cpp_int on a sub-grid / all in thorough); get_mult_inverse: a in [-M,M], p in [-3,M]; is_prime: every p in [2,N] against a sieve (long,int; cpp_int sampled); SpVecFP: seeded operation histories (unit assign, +, +=, *scalar incl. negative and multiples of p, *=, dot, copy) against a dense model, p in {2,3,5,7,13,17,101,65521,2^31-1}",
            "G=" + std::to_string(G) + " M=" + std::to_string(M) + " N=" + std::to_string(N) + " histories=" + std::to_string(H) + "x12 ops");
    return 0;
}
