// Native replay for contract K17b: the real parmcb::is_bfs_reachable on an undirected multigraph given as an edge list.
//   e3_bfs --replay n s t max_hops a0,b0,a1,b1,...     (edges in insertion order; "-" for none)
// The answer is compared with an independent level-by-level computation.
#include <vector>
#include <string>
#include <iostream>
#include <sstream>
#include <queue>
#include <boost/graph/adjacency_list.hpp>
#include <parmcb/detail/bfs.hpp>

typedef boost::adjacency_list<boost::vecS, boost::vecS, boost::undirectedS, boost::no_property,
        boost::property<boost::edge_weight_t, double>> G;

int main(int argc, char **argv) {
    if (argc < 7 || std::string(argv[1]) != "--replay") { std::cerr << "usage: e3_bfs --replay n s t max_hops edges" << std::endl; return 3; }
    int n = atoi(argv[2]), s = atoi(argv[3]), t = atoi(argv[4]); std::size_t h = (std::size_t) atol(argv[5]);
    std::vector<int> ev; { std::string e = argv[6]; if (e != "-") { std::stringstream ss(e); std::string tok; while (std::getline(ss, tok, ',')) ev.push_back(atoi(tok.c_str())); } }
    G g(n);
    std::vector<std::vector<int>> adj(n);
    for (size_t i = 0; i + 1 < ev.size(); i += 2) { boost::add_edge(ev[i], ev[i + 1], 1.0, g); adj[ev[i]].push_back(ev[i + 1]); adj[ev[i + 1]].push_back(ev[i]); }
    bool got = parmcb::is_bfs_reachable(g, (G::vertex_descriptor) s, (G::vertex_descriptor) t, h);
    std::vector<char> R(n, 0); R[s] = 1;
    for (std::size_t i = 0; i < h && i < (std::size_t) n; i++) { std::vector<char> N = R; for (int v = 0; v < n; v++) if (R[v]) for (int w : adj[v]) N[w] = 1; R = N; }
    bool want = R[t];
    if (got != want) { std::cout << "REPLAY-FAIL is_bfs_reachable(s=" << s << ", t=" << t << ", max_hops=" << h << ") returned " << got << " but t is " << (want ? "" : "not ") << "within max_hops hops" << std::endl; return 1; }
    std::cout << "REPLAY-OK" << std::endl; return 0;
}
