// Native replay for contracts K17b / K18d: the real parmcb::is_bfs_reachable and parmcb::dijkstra on an undirected
// multigraph given as an edge list.
//   e3_bfs --replay n s t max_hops a0,b0,a1,b1,...            (edges in insertion order; "-" for none)
//   e3_bfs --replay-dijkstra n s a0,b0,w0,a1,b1,w1,...         (integer weights)
// The answers are compared with independent computations (hop sets; Bellman-Ford).
#include <vector>
#include <string>
#include <iostream>
#include <sstream>
#include <queue>
#include <boost/graph/adjacency_list.hpp>
#include <tuple>
#include <limits>
#include <boost/property_map/function_property_map.hpp>
#include <parmcb/detail/bfs.hpp>
#include <parmcb/detail/dijkstra.hpp>

typedef boost::adjacency_list<boost::vecS, boost::vecS, boost::undirectedS, boost::no_property,
        boost::property<boost::edge_weight_t, double>> G;

typedef boost::adjacency_list<boost::vecS, boost::vecS, boost::undirectedS, boost::no_property,
        boost::property<boost::edge_weight_t, long>> GL;

static int replay_dijkstra(int argc, char **argv) {
    if (argc < 5) return 3;
    int n = atoi(argv[2]), s = atoi(argv[3]);
    std::vector<long> ev; { std::string e = argv[4]; if (e != "-") { std::stringstream ss(e); std::string tok; while (std::getline(ss, tok, ',')) ev.push_back(atol(tok.c_str())); } }
    typedef GL::vertex_descriptor V; typedef GL::edge_descriptor E;
    GL g(n);
    for (size_t i = 0; i + 2 < ev.size(); i += 3) boost::add_edge(ev[i], ev[i + 1], ev[i + 2], g);
    auto wm = boost::get(boost::edge_weight, g);
    auto im = boost::get(boost::vertex_index, g);
    const long INF = (std::numeric_limits<long>::max)();
    std::vector<long> dist(n, INF);
    boost::function_property_map<parmcb::detail::VertexIndexFunctor<GL, long>, V, long&> dist_map(parmcb::detail::VertexIndexFunctor<GL, long>(dist, im));
    std::vector<std::tuple<bool, E>> pred(n, std::make_tuple(false, E()));
    boost::function_property_map<parmcb::detail::VertexIndexFunctor<GL, std::tuple<bool, E>>, V, std::tuple<bool, E>&> pred_map(
            parmcb::detail::VertexIndexFunctor<GL, std::tuple<bool, E>>(pred, im));
    parmcb::dijkstra(g, wm, (V) s, dist_map, pred_map);
    std::vector<long> d(n, INF); d[s] = 0;
    for (int r = 0; r < n; r++) for (size_t i = 0; i + 2 < ev.size(); i += 3) { long a = ev[i], b = ev[i + 1], w = ev[i + 2];
        if (d[a] != INF && d[a] + w < d[b]) d[b] = d[a] + w; if (d[b] != INF && d[b] + w < d[a]) d[a] = d[b] + w; }
    for (int v = 0; v < n; v++) {
        bool vis = (v == s) || std::get<0>(pred[v]);
        if ((d[v] != INF) != vis) { std::cout << "REPLAY-FAIL dijkstra(s=" << s << "): vertex " << v << (vis ? " visited but unreachable" : " reachable but not visited") << std::endl; return 1; }
        if (vis && dist[v] != d[v]) { std::cout << "REPLAY-FAIL dijkstra(s=" << s << "): dist[" << v << "]=" << dist[v] << " but the shortest-path distance is " << d[v] << std::endl; return 1; }
        if (v != s && vis) { E e = std::get<1>(pred[v]); long a = boost::source(e, g), b = boost::target(e, g); long o = (a == v) ? b : a;
            if ((a != v && b != v) || dist[o] + wm[e] != dist[v]) { std::cout << "REPLAY-FAIL dijkstra(s=" << s << "): predecessor edge of " << v << " is not tight" << std::endl; return 1; } }
    }
    std::cout << "REPLAY-OK" << std::endl; return 0;
}

int main(int argc, char **argv) {
    if (argc >= 2 && std::string(argv[1]) == "--replay-dijkstra") return replay_dijkstra(argc, argv);
    if (argc < 7 || std::string(argv[1]) != "--replay") { std::cerr << "usage: e3_bfs --replay n s t max_hops edges" << std::endl; return 3; }
    int n = atoi(argv[2]), s = atoi(argv[3]), t = atoi(argv[4]); std::size_t h = (std::size_t) atol(argv[5]);
    std::vector<int> ev; { std::string e = argv[6]; if (e != "-") { std::stringstream ss(e); std::string tok; while (std::getline(ss, tok, ',')) ev.push_back(atoi(tok.c_str())); } }
    G g(n);
    std::vector<std::vector<int>> adj(n);
    for (size_t i = 0; i + 1 < ev.size(); i += 2) { boost::add_edge(ev[i], ev[i + 1], 1.0, g); adj[ev[i]].push_back(ev[i + 1]); adj[ev[i + 1]].push_back(ev[i]); }
    bool got = parmcb::is_bfs_reachable(g, (G::vertex_descriptor) s, (G::vertex_descriptor) t, h);
    std::vector<char> R(n, 0); R[s] = 1;
    for (std::size_t i = 0; i < h && i < (std::size_t) n; i++) { std::vector<char> N = R; for (int v = 0; v < n; v++) if (R[v]) for (int w : adj[v]) N[w] = 1; R = N; }
    bool want = R[t];
    if (got != want) { std::cout << "REPLAY-FAIL is_bfs_reachable(s=" << s << ", t=" << t << ", max_hops=" << h << ") returned " << got << " but t is " << (want ? "" : "not ") << "within max_hops hops" << std::endl; return 1; }
    std::cout << "REPLAY-OK" << std::endl; return 0;
}
