// Bounded stand-in for contracts K17 (spanner, C15, through hook H1) and K18 (approximate entry points,
// C05 + C06).  Real templates; every member of the exact-domain set x k in {0,1,2,3,5,n}.
#include <parmcb/config.hpp>
#include <parmcb/parmcb_approx_sva_signed.hpp>
#include <parmcb/parmcb_approx_sva_trees.hpp>
#ifdef VP_WITH_TBB_VARIANTS
#include <parmcb/parmcb_sva_signed_tbb.hpp>
#include <parmcb/parmcb_approx_sva_signed_tbb.hpp>
#include <parmcb/parmcb_approx_sva_trees_tbb.hpp>
#endif
#include "vp_parmcb.hpp"
#include "vp_sets.hpp"
#include <queue>
using namespace vp;

static Stats st;
static volatile double g_sink;

template<class W>
W run_algo(const std::string &a, BG<W> &bg, std::size_t k, std::list<std::list<typename BG<W>::Edge>> &cycles) {
    auto out = std::back_inserter(cycles);
    if (a == "approx_mcb_sva_signed") return parmcb::approx_mcb_sva_signed(bg.g, bg.weights(), k, out);
    if (a == "approx_mcb_sva_fvs_trees") return parmcb::approx_mcb_sva_fvs_trees(bg.g, bg.weights(), k, out);
    if (a == "approx_mcb_sva_iso_trees") return parmcb::approx_mcb_sva_iso_trees(bg.g, bg.weights(), k, out);
#ifdef VP_WITH_TBB_VARIANTS
    if (a == "approx_mcb_sva_signed_tbb") return parmcb::approx_mcb_sva_signed_tbb(bg.g, bg.weights(), k, out);
    if (a == "approx_mcb_sva_fvs_trees_tbb") return parmcb::approx_mcb_sva_fvs_trees_tbb(bg.g, bg.weights(), k, out);
    if (a == "approx_mcb_sva_iso_trees_tbb") return parmcb::approx_mcb_sva_iso_trees_tbb(bg.g, bg.weights(), k, out);
#endif
    std::cerr << "unknown algo " << a << std::endl; exit(3);
}

template<class W>
Verdict check_approx(const TGraph &t, const std::string &algo, std::size_t k, const McbOracle &opt) {
    std::vector<std::vector<int>> idx;
    double ret = 0;
    bool threw = false; std::string what;
    {
        BG<W> bg(t);
        std::list<std::list<typename BG<W>::Edge>> cycles;
        try { ret = (double) run_algo<W>(algo, bg, k, cycles); vp_dig_double(ret); vp_dig(cycles.size()); }
        catch (std::runtime_error &e) { threw = true; what = e.what(); }
        catch (...) { return {"approx-exception-type", "threw something that is not a std::runtime_error"}; }
        if (k == 0) {
            if (!threw) return {"approx-k0-accepted", "k=0 was not rejected with an exception"};
            if (!cycles.empty()) return {"approx-k0-emitted", "k=0 emitted cycles before throwing"};
            return {};
        }
        if (threw) return {"exception", "threw std::runtime_error: " + what};
        // descriptors must be the CALLER's edges and stay usable with the caller's maps after the call
        auto wm = bg.weights();
        double sum_after = 0;
        for (auto &c : cycles) {
            std::vector<int> v;
            for (auto &e : c) {
                int i = bg.idx(e); v.push_back(i);
#ifdef VP_SANITIZE
                sum_after += (double) wm[e];       // every handed-back descriptor is used with the caller's map (ASan watches)
#else
                if (i >= 0) sum_after += (double) wm[e];
#endif
            }
            idx.push_back(v);
        }
        g_sink = sum_after;      // keep the loads alive
    }
    Verdict v = check_basis_shape(t, idx);
    if (!v.ok()) return v;
    double sum = cycles_weight(t, idx);
    if (ret != sum) return {"returned-weight", "returned " + std::to_string(ret) + " but the emitted cycles weigh " + std::to_string(sum) + " under the caller's weights"};
#ifdef PARMCB_VERIF
    // K18b (carrier contract of the ratio, as used by the published proof): the cycle emitted for a dropped edge e=(u,v)
    // is e plus a u-v path of RETAINED edges whose weight is at most (2k-1)*w(e) - such a path exists by K17 (stretch),
    // and a weight-shortest path in the final spanner is never heavier.  The dropped set is read through hook H1 from a
    // second, identical construction of the spanner.
    {
        typedef BG<W> B; typedef typename B::Graph G; typedef typename B::WeightMap WM;
        B bg2(t);
        struct Dummy { W operator()(const G&, const WM&, int) { return W(); } };
        WM wm2 = bg2.weights();
        auto imap2 = boost::get(boost::vertex_index, bg2.g);
        parmcb::detail::BaseApproxSpannerAlgorithm<G, WM, Dummy, false> sp(bg2.g, wm2, imap2, k);
        std::vector<char> dropped(t.m(), 0);
        for (auto &e : sp.verif_non_spanner_edges()) { int i = bg2.idx(e); if (i >= 0) dropped[i] = 1; }
        for (int i = 0; i < t.m(); i++) if (dropped[i]) {
            int holder = -1, count = 0;
            for (size_t c = 0; c < idx.size(); c++) for (int x : idx[c]) if (x == i) { holder = (int) c; count++; }
            if (count != 1) continue;           // a different decomposition of the basis: nothing to say here
            bool other_dropped = false; double path = 0;
            for (int x : idx[holder]) if (x != i) { if (dropped[x]) other_dropped = true; path += t.w[x]; }
            if (other_dropped) continue;
            if (path > (2.0 * k - 1.0) * t.w[i] * (1 + 1e-12))
                return {"nonspanner-cycle-stretch", "the cycle closing dropped edge " + std::to_string(i) + " (weight " + std::to_string(t.w[i]) + ") uses a spanner path of weight " +
                        std::to_string(path) + " > (2k-1)*w(e) for k=" + std::to_string(k)};
        }
    }
#endif
    if (opt.ok) {
        if (sum < opt.weight) return {"approx-below-optimum", "impossible: basis lighter than the optimum (oracle/weights inconsistent)"};
        if (sum > (2.0 * k - 1.0) * opt.weight) return {"approx-ratio", "weight " + std::to_string(sum) + " exceeds (2k-1)*OPT = " + std::to_string((2.0 * k - 1.0) * opt.weight) + " for k=" + std::to_string(k)};
        if (k == 1 && sum != opt.weight) return {"approx-k1-not-exact", "k=1 returned " + std::to_string(sum) + ", optimum is " + std::to_string(opt.weight)};
    }
    return {};
}

#ifdef PARMCB_VERIF
// K17: the spanner itself
template<class W>
Verdict check_spanner(const TGraph &t, std::size_t k) {
    typedef BG<W> B; typedef typename B::Graph G; typedef typename B::Edge Edge; typedef typename B::WeightMap WM;
    B bg(t);
    struct Dummy { W operator()(const G&, const WM&, int) { return W(); } };
    WM wm = bg.weights();
    auto imap = boost::get(boost::vertex_index, bg.g);
    parmcb::detail::BaseApproxSpannerAlgorithm<G, WM, Dummy, false> algo(bg.g, wm, imap, k);
    const G &sp = algo.verif_spanner();
    const auto &tr = algo.verif_edge_spanner_to_g();
    const auto &dropped = algo.verif_non_spanner_edges();
    if ((int) boost::num_vertices(sp) != t.n) return {"spanner-vertices", "spanner has a different number of vertices"};
    auto spw = boost::get(boost::edge_weight, sp);
    std::vector<int> state(t.m(), 0);     // 1 retained, 2 dropped
    std::vector<std::vector<std::pair<int, int>>> adj(t.n);
    std::size_t ne = 0;
    for (auto er = boost::edges(sp); er.first != er.second; ++er.first, ++ne) {
        Edge se = *er.first;
        auto it = tr.find(se);
        if (it == tr.end()) return {"spanner-untranslated", "a spanner edge has no translation to an input edge"};
        int i = bg.idx(it->second);
        if (i < 0) return {"spanner-foreign", "translation is not an input edge"};
        int a = (int) boost::source(se, sp), b = (int) boost::target(se, sp);
        if (!((a == t.edges[i][0] && b == t.edges[i][1]) || (a == t.edges[i][1] && b == t.edges[i][0]))) return {"spanner-endpoints", "spanner edge does not join the endpoints of its input edge"};
        if ((double) spw[se] != t.w[i]) return {"spanner-weight", "spanner edge carries weight " + std::to_string((double) spw[se]) + ", its input edge weighs " + std::to_string(t.w[i])};
        if (state[i]) return {"spanner-partition", "input edge retained twice"};
        state[i] = 1; adj[a].push_back({b, i}); adj[b].push_back({a, i});
    }
    if (tr.size() != ne) return {"spanner-translation-size", "translation map and spanner edge set differ in size"};
    for (auto &e : dropped) { int i = bg.idx(e); if (i < 0) return {"spanner-foreign", "dropped edge is not an input edge"}; if (state[i]) return {"spanner-partition", "edge both retained and dropped (or dropped twice)"}; state[i] = 2; }
    for (int i = 0; i < t.m(); i++) if (!state[i]) return {"spanner-partition", "an input edge is neither retained nor dropped"};
    // stretch: every dropped edge has a path of <= 2k-1 retained edges none heavier than it
    auto bfs = [&](int s, double maxw, int forbid) { std::vector<int> d(t.n, -1); std::queue<int> q; d[s] = 0; q.push(s);
        while (!q.empty()) { int u = q.front(); q.pop(); for (auto &p : adj[u]) if (p.second != forbid && t.w[p.second] <= maxw && d[p.first] < 0) { d[p.first] = d[u] + 1; q.push(p.first); } } return d; };
    for (int i = 0; i < t.m(); i++) if (state[i] == 2) {
        auto d = bfs(t.edges[i][0], t.w[i], -1);
        int h = d[t.edges[i][1]];
        if (h < 0 || (std::size_t) h > 2 * k - 1) return {"spanner-stretch", "dropped edge " + std::to_string(i) + " has no path of <= 2k-1 retained edges of weight <= its own (k=" + std::to_string(k) + ")"};
    }
    // girth > 2k: for every retained edge, the shortest alternative path between its endpoints has >= 2k edges
    for (int i = 0; i < t.m(); i++) if (state[i] == 1) {
        auto d = bfs(t.edges[i][0], 1e300, i);
        int h = d[t.edges[i][1]];
        if (h >= 0 && (std::size_t) h + 1 <= 2 * k) return {"spanner-girth", "retained subgraph has a cycle of " + std::to_string(h + 1) + " <= 2k edges (k=" + std::to_string(k) + ")"};
    }
    return {};
}
#endif

int main(int argc, char **argv) {
    SetOpts o;
    o.thorough = thorough();
    o.seed = (uint64_t) env_long("VERIF_SEED", 1);
    std::string the_case, algo, wtype = "double", only; long kk = 2;
    for (int i = 1; i < argc; i++) {
        std::string a = argv[i];
        if (a == "--shard" && i + 1 < argc) sscanf(argv[++i], "%d/%d", &o.shard, &o.nshards);
        else if (a == "--case" && i + 1 < argc) the_case = argv[++i];
        else if (a == "--algo" && i + 1 < argc) algo = argv[++i];
        else if (a == "--wtype" && i + 1 < argc) wtype = argv[++i];
        else if (a == "--k" && i + 1 < argc) kk = atol(argv[++i]);
        else if (a == "--only" && i + 1 < argc) only = argv[++i];
    }
    std::vector<std::string> algos = {"approx_mcb_sva_signed", "approx_mcb_sva_fvs_trees", "approx_mcb_sva_iso_trees"};
#ifdef VP_WITH_TBB_VARIANTS
    algos = {"approx_mcb_sva_signed_tbb", "approx_mcb_sva_fvs_trees_tbb", "approx_mcb_sva_iso_trees_tbb"};
#endif
    if (!the_case.empty()) {
        TGraph t; if (!parse_tgraph(the_case, t)) return 3;
        McbOracle opt = mcb_bruteforce(t);
        Verdict v;
        if (algo == "spanner") {
#ifdef PARMCB_VERIF
            v = check_spanner<double>(t, (std::size_t) kk);
#endif
        } else v = wtype == "int" ? check_approx<int>(t, algo, (std::size_t) kk, opt) : check_approx<double>(t, algo, (std::size_t) kk, opt);
        if (!v.ok()) { std::cout << "REPLAY-FAIL " << algo << " k=" << kk << " " << v.kind << ": " << v.detail << std::endl; return 1; }
        std::cout << "REPLAY-OK" << std::endl; return 0;
    }
    if (o.thorough) { o.max_exh_n = 6; o.nrandom = 20000; o.shuffles = 6; o.rnd_max_dim = 11; } else { o.max_exh_n = 5; o.nrandom = 400; }
    for_each_graph(o, [&](TGraph &t) {
        McbOracle opt = mcb_bruteforce(t);
        std::vector<std::size_t> ks = {0, 1, 2, 3, 5, (std::size_t) std::max(1, t.n)};
        for (std::size_t k : ks) {
            if (only.empty() || only == "approx") for (auto &a : algos) for (int wt = 0; wt < 2; wt++) {
                if (wt == 1 && (!integral_weights(t) || k == 5)) continue;
                Verdict v = wt ? check_approx<int>(t, a, k, opt) : check_approx<double>(t, a, k, opt);
                st.evaluations++; st.counts[a]++;
                if (!v.ok()) { st.violations++; std::string site = a + (wt ? "<int>" : "<double>");
                    if (st.counts["viol_" + site + "_" + v.kind]++ < 2) emit_violation(site, v.kind, v.detail, "{\"graph\":" + t.str() + ",\"algo\":\"" + a + "\",\"k\":" + std::to_string(k) + ",\"wtype\":\"" + (wt ? "int" : "double") + "\"}"); }
            }
#ifdef PARMCB_VERIF
            if ((only.empty() || only == "spanner") && k >= 1) {
                Verdict v = check_spanner<double>(t, k);
                st.evaluations++; st.counts["spanner"]++;
                if (!v.ok()) { st.violations++; if (st.counts["viol_spanner_" + v.kind]++ < 2) emit_violation("BaseApproxSpannerAlgorithm::construct_spanner", v.kind, v.detail, "{\"graph\":" + t.str() + ",\"algo\":\"spanner\",\"k\":" + std::to_string(k) + "}"); }
                // the same graph with every weight scaled by an extreme power of two: still exact-domain (dyadic scaling is exact), but
                // absolute tolerances hidden in the scan order show only there (seed S64)
                if (k >= 2 && t.m() >= 3) for (int j : {-60, 40}) {
                    TGraph h = t; for (auto &x : h.w) x = std::ldexp(x, j); h.tag = t.tag + "*2^" + std::to_string(j);
                    Verdict vs = check_spanner<double>(h, k);
                    st.evaluations++; st.counts["spanner-scaled"]++;
                    if (!vs.ok()) { st.violations++; if (st.counts["viol_spanner_" + vs.kind]++ < 2) emit_violation("BaseApproxSpannerAlgorithm::construct_spanner", vs.kind, vs.detail, "{\"graph\":" + h.str() + ",\"algo\":\"spanner\",\"k\":" + std::to_string(k) + "}"); }
                }
            }
#endif
        }
        if (cyclomatic(t) >= 2) st.distinct.insert(t.key());
        if (st.samples.size() < 4 && cyclomatic(t) >= 3) st.sample(t.str());
    });
    st.print("e3_approx", false,
            "exact-domain set (all labelled graphs n<=5/6, all weightings n<=4, tie-heavy families, seeded random n<=9) x k in {0,1,2,3,5,n} x weight types double,int; non-trivial = cycle space dimension >= 2",
            std::string("max_exh_n=") + std::to_string(o.max_exh_n) + " nrandom=" + std::to_string(o.nrandom));
    return 0;
}
