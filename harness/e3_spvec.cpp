// Native bounded stand-in + replay for K1-K3 (SpVecGF2 with the REAL std::vector / std::set):
// seeded operation histories against a dense model (std::set of coordinates).
//   e3_spvec --shard i/N
//   e3_spvec --replay "a0,a1,.." "b0,b1,.." [k]
#include <parmcb/spvecgf2.hpp>
#include "vp_parmcb.hpp"
using namespace vp;
typedef unsigned long U;
typedef parmcb::SpVecGF2<U> V;
typedef std::set<U> D;

static Verdict matches(const V &v, const D &d, const std::string &ctx) {
    std::vector<U> got(v.begin(), v.end());
    for (size_t i = 1; i < got.size(); i++) if (!(got[i - 1] < got[i])) return {"gf2-order", ctx + ": coordinates not strictly increasing"};
    if (v.size() != got.size()) return {"gf2-size", ctx + ": size() differs from the number of listed coordinates"};
    if (D(got.begin(), got.end()) != d) return {"gf2-view", ctx + ": listed coordinates differ from the dense computation"};
    if (got.size() != d.size()) return {"gf2-size", ctx + ": size differs from dense"};
    return {};
}
static D sym(const D &a, const D &b) { D r; for (U x : a) if (!b.count(x)) r.insert(x); for (U x : b) if (!a.count(x)) r.insert(x); return r; }
static int par(const D &a, const D &b) { int c = 0; for (U x : a) if (b.count(x)) c++; return c % 2; }
static std::vector<U> parse(const char *s) { std::vector<U> v; const char *p = s; while (*p) { char *e; U x = strtoul(p, &e, 10); if (e == p) break; v.push_back(x); p = (*e == ',') ? e + 1 : e; } return v; }

static Verdict history(Rng &r, int dim, int steps, std::string &trace) {
    const int NV = 4;
    std::vector<V> vs(NV); std::vector<D> ds(NV);
    for (int s = 0; s < steps; s++) {
        int op = r.below(10), i = r.below(NV), j = r.below(NV), k = r.below(NV);
        std::ostringstream o;
        if (op == 0) { U c = r.below(dim); vs[i] = V(c); ds[i] = D{c}; o << "v" << i << "=unit(" << c << ")"; }
        else if (op == 1) { D s0; int n = r.below(dim + 1); for (int q = 0; q < n; q++) s0.insert(r.below(dim)); vs[i] = V(s0); ds[i] = s0; o << "v" << i << "=fromset(" << s0.size() << ")"; }
        else if (op == 2) { V t = vs[j] + vs[k]; D d = sym(ds[j], ds[k]); vs[i] = t; ds[i] = d; o << "v" << i << "=v" << j << "+v" << k; }
        else if (op == 3) { D d = sym(ds[i], ds[j]); vs[i] += vs[j]; ds[i] = d; o << "v" << i << "+=v" << j; }
        else if (op == 4) { V c(vs[j]); vs[i] = c; ds[i] = ds[j]; o << "v" << i << "=copy(v" << j << ")"; }
        else if (op == 5) { D d = ds[j]; V t(std::move(vs[j])); vs[i] = std::move(t); ds[i] = d; if (i != j) { vs[j] = V(ds[j]); } o << "v" << i << "=move(v" << j << ")"; }
        else if (op == 6) { vs[i].clear(); ds[i].clear(); o << "v" << i << ".clear()"; }
        else if (op == 9) { U c = ds[i].empty() ? (U) r.below(dim) : *ds[i].rbegin() + 1 + (U) r.below(3); vs[i].add(c); ds[i].insert(c); o << "v" << i << ".add(" << c << ")"; }   // precondition of add: beyond the last coordinate
        else if (op == 7) { int p = vs[i] * vs[j]; o << "dot(v" << i << ",v" << j << ")"; trace += o.str() + "; "; if (p != par(ds[i], ds[j])) return {"gf2-dot", "vector product " + std::to_string(p) + " != parity of common coordinates"}; continue; }
        else { D s0; int n = r.below(dim + 1); for (int q = 0; q < n; q++) s0.insert(r.below(dim)); int p = vs[i] * s0; o << "dotset(v" << i << ")"; trace += o.str() + "; "; if (p != par(ds[i], s0)) return {"gf2-dotset", "set product wrong"}; continue; }
        trace += o.str() + "; ";
        for (int q = 0; q < NV; q++) { Verdict v = matches(vs[q], ds[q], o.str() + " (checking v" + std::to_string(q) + ")"); if (!v.ok()) return v; }
    }
    return {};
}

int main(int argc, char **argv) {
    int shard = 0, nshards = 1;
    for (int i = 1; i < argc; i++) {
        std::string a = argv[i];
        if (a == "--shard" && i + 1 < argc) sscanf(argv[++i], "%d/%d", &shard, &nshards);
        else if (a == "--replay" && i + 2 < argc) {
            std::vector<U> av = parse(argv[i + 1]), bv = parse(argv[i + 2]);
            D da(av.begin(), av.end()), db(bv.begin(), bv.end());
            V a1(da), b1(db);
            Verdict v = matches(a1 + b1, sym(da, db), "a+b");
            if (v.ok()) { V c(a1); c += b1; v = matches(c, sym(da, db), "a+=b"); }
            if (v.ok() && (a1 * b1) != par(da, db)) v = {"gf2-dot", "a*b wrong"};
            if (v.ok() && (a1 * db) != par(da, db)) v = {"gf2-dotset", "a*set(b) wrong"};
            if (v.ok()) v = matches(a1, da, "operand a after the operations");
            if (!v.ok()) { std::cout << "REPLAY-FAIL " << v.kind << ": " << v.detail << std::endl; return 1; }
            std::cout << "REPLAY-OK" << std::endl; return 0;
        }
    }
    Stats st;
    Rng r((uint64_t) env_long("VERIF_SEED", 1) * 7777 + shard);
    int H = thorough() ? 200000 : 2000;
    for (int h = 0; h < H; h++) {
        std::string trace;
        int dim = 1 + r.below(h % 3 == 0 ? 4 : 40);
        Verdict v = history(r, dim, 16, trace);
        st.evaluations++;
        st.distinct.insert(std::to_string(std::hash<std::string>()(trace)));
        if (!v.ok()) { st.violations++; if (st.counts["viol_" + v.kind]++ < 2) emit_violation("SpVecGF2", v.kind, v.detail + " after: " + trace, "{\"trace\":\"" + trace + "\"}"); }
        if (h < 2) st.sample("\"" + trace + "\"");
    }
    st.print("e3_spvec", false, "seeded histories of 16 operations over 4 vectors (unit/set/copy/move construction, +, +=, clear, both products) against a dense std::set model; dimension 1..4 or 1..40; distinct by operation trace",
             "histories=" + std::to_string(H) + " per shard");
    return 0;
}
