// Native exhaustive enforcement of K23: the slice arithmetic EXTRACTED from the three MPI work-splitting
// sites (vp_slices_gen.hpp is generated from /repo on every run): for every total and every communicator
// size every index 0..total-1 is owned by exactly one rank.
#include "vp_slices_gen.hpp"
#include "vp_parmcb.hpp"
using namespace vp;
typedef void (*slice_fn)(std::size_t, int, int, std::vector<int>&);
struct Site { const char *name; slice_fn f; };
int main(int argc, char **argv) {
    int shard = 0, nshards = 1;
    for (int i = 1; i < argc; i++) { std::string a = argv[i]; if (a == "--shard" && i + 1 < argc) sscanf(argv[++i], "%d/%d", &shard, &nshards); }
    Site sites[] = VP_SLICE_SITES;
    Stats st;
    int T = thorough() ? 4096 : 700, PM = 64;
    for (auto &s : sites) for (int total = 0; total <= T; total++) {
        if ((total % nshards) != shard) continue;
        for (int P = 1; P <= PM; P++) {
            std::vector<int> owned(total + 1, 0);
            for (int r = 0; r < P; r++) s.f((std::size_t) total, P, r, owned);
            st.evaluations++;
            int bad = -1; for (int i = 0; i < total; i++) if (owned[i] != 1) { bad = i; break; }
            if (total >= 2 && P >= 2) st.distinct.insert(std::string(s.name) + ":" + std::to_string(total) + ":" + std::to_string(P));
            if (bad >= 0) { st.violations++; if (st.counts[std::string("viol_") + s.name]++ < 2)
                emit_violation(std::string("slice:") + s.name, "mpi-slices-not-a-partition", "index " + std::to_string(bad) + " of " + std::to_string(total) + " is owned by " + std::to_string(owned[bad]) + " ranks with P=" + std::to_string(P), "{\"total\":" + std::to_string(total) + ",\"P\":" + std::to_string(P) + "}"); }
        }
    }
    st.sample("\"total=10 P=4: ranks own [0,3) [3,6) [6,9) [9,10)\"");
    st.print("e3_slices", true, "extracted stride/istart/iend/loop-guard of the three MPI sites; every total<=700/4096 x every P<=64 x every rank; distinct = (site,total,P) with total,P>=2", "T=" + std::to_string(T) + " P<=64");
    return 0;
}
