// Bounded stand-ins for the component-builder contracts:
//   K15/K15a ForestIndex + spanning_forest (C16), K13 greedy_fvs (C13),
//   K12 SPTree / lex_dijkstra (C12), K14 Horton/FVS/ISO candidate collections (C14).
// Real templates from /repo/include on every member of the exact-domain set.
#include <parmcb/config.hpp>
#include <parmcb/forestindex.hpp>
#include <parmcb/detail/spanning_forest.hpp>
#include <parmcb/detail/fvs.hpp>
#include <parmcb/sptrees.hpp>
#include <parmcb/detail/cycles.hpp>
#include "vp_parmcb.hpp"
#include "vp_sets.hpp"
using namespace vp;
typedef BG<double> B;
typedef B::Graph G;
typedef B::Edge Edge;
typedef B::WeightMap WM;

static Stats st;
static void viol(const std::string &site, const Verdict &v, const TGraph &t) {
    st.violations++;
    if (st.counts["viol_" + site + "_" + v.kind]++ < 2) emit_violation(site, v.kind, v.detail, "{\"graph\":" + t.str() + "}");
}

// ---------------------------------------------------------------- C16
static Verdict check_forest_index(const TGraph &t, B &bg) {
    int c = components(t), m = t.m(), n = t.n;
    {   // K15a
        std::vector<Edge> fe;
        std::size_t k = parmcb::detail::spanning_forest(bg.g, std::back_inserter(fe));
        if ((int) k != c) return {"spanning_forest-components", "returned " + std::to_string(k) + " components, graph has " + std::to_string(c)};
        if ((int) fe.size() != n - c) return {"spanning_forest-size", "emitted " + std::to_string(fe.size()) + " edges, a spanning forest has " + std::to_string(n - c)};
        UF u(n);
        for (auto &e : fe) { int i = bg.idx(e); if (i < 0) return {"spanning_forest-foreign", "emitted a non-edge"}; if (!u.unite(t.edges[i][0], t.edges[i][1])) return {"spanning_forest-cycle", "emitted edges contain a cycle"}; }
    }
    parmcb::ForestIndex<G> fi(bg.g);
    auto validate = [&](const parmcb::ForestIndex<G> &fi, const std::string &how) -> Verdict {
        if ((int) fi.weak_connected_components() != c) return {"forestindex-components", how + " reports " + std::to_string(fi.weak_connected_components()) + " components, graph has " + std::to_string(c)};
        if ((long) fi.cycle_space_dimension() != (long) m - n + c) return {"forestindex-dimension", how + ": cycle space dimension " + std::to_string(fi.cycle_space_dimension()) + " instead of " + std::to_string(m - n + c)};
        std::vector<int> seen(m, 0);
        UF u(n); int forest_edges = 0;
        for (int i = 0; i < m; i++) {
            std::size_t x = fi(bg.edge_of[i]);
            if (x >= (std::size_t) m) return {"forestindex-range", how + ": index out of 0..m-1"};
            if (seen[x]++) return {"forestindex-injective", how + ": two edges share index " + std::to_string(x)};
            if (bg.idx(fi(x)) != i) return {"forestindex-inverse", how + ": index-to-edge lookup is not the inverse of edge-to-index"};
            bool onf = fi.is_on_forest(bg.edge_of[i]);
            if (onf != (x >= (std::size_t) (m - n + c))) return {"forestindex-forest-flag", how + ": is_on_forest disagrees with index >= dimension"};
            if (onf) { forest_edges++; if (!u.unite(t.edges[i][0], t.edges[i][1])) return {"forestindex-forest-cyclic", how + ": edges reported on-forest contain a cycle"}; }
        }
        if (forest_edges != n - c) return {"forestindex-forest-spanning", how + ": on-forest edges do not span every component"};
        return {};
    };
    Verdict v0 = validate(fi, "constructed index");
    if (!v0.ok()) return v0;
    {   // copies are ForestIndex objects of the same graph and must answer alike
        parmcb::ForestIndex<G> cp(fi);
        Verdict v1 = validate(cp, "copy-constructed index");
        if (!v1.ok()) return v1;
        TGraph other = wheel(4); B obg(other);
        parmcb::ForestIndex<G> as1(obg.g);            // previously indexed a graph with cycles
        as1 = fi;
        Verdict v2 = validate(as1, "index assigned over an index of another graph (W4)");
        if (!v2.ok()) return v2;
        TGraph empty; B ebg(empty);
        parmcb::ForestIndex<G> as2(ebg.g);            // previously indexed the empty graph
        as2 = fi;
        Verdict v3 = validate(as2, "index assigned over an index of the empty graph");
        if (!v3.ok()) return v3;
    }
    return {};
}

// ---------------------------------------------------------------- C13
static Verdict check_fvs(const TGraph &t, B &bg) {
    std::vector<B::Vertex> out;
    parmcb::greedy_fvs(bg.g, std::back_inserter(out));
    std::set<int> s;
    for (auto v : out) { if ((int) v < 0 || (int) v >= t.n) return {"fvs-not-a-vertex", "emitted a non-vertex"}; if (!s.insert((int) v).second) return {"fvs-duplicate", "vertex emitted twice"}; }
    UF u(t.n);
    for (int i = 0; i < t.m(); i++) {
        int a = t.edges[i][0], b = t.edges[i][1];
        if (s.count(a) || s.count(b)) continue;
        if (!u.unite(a, b)) return {"fvs-not-feedback", "a cycle survives the removal of the emitted vertices"};
    }
    if (cyclomatic(t) == 0 && !out.empty()) return {"fvs-forest-nonempty", "emitted vertices for a forest"};
    return {};
}

// ---------------------------------------------------------------- C12
struct Trees {
    typename boost::property_map<G, boost::vertex_index_t>::type index_map;
    WM wm;
    std::vector<parmcb::SPTree<G, WM>> trees;
    Trees(B &bg) : index_map(boost::get(boost::vertex_index, bg.g)), wm(bg.weights()) {
        int n = (int) boost::num_vertices(bg.g);
        trees.reserve(n);
        for (int s = 0; s < n; s++) trees.emplace_back((std::size_t) s, bg.g, index_map, wm, (B::Vertex) s);
    }
};
// path from root s to v in tree s as vertex list (s first); empty if v unreachable
static bool tree_path(const TGraph &t, B &bg, parmcb::SPTree<G, WM> &tr, int s, int v, std::vector<int> &path, std::string &err) {
    path.clear();
    auto nd = tr.node(v);
    if (!nd) return false;
    int cur = v, steps = 0;
    std::vector<int> rev = {v};
    while (cur != s) {
        auto nc = tr.node(cur);
        if (!nc) { err = "path leaves the tree"; return false; }
        if (!nc->has_pred()) { err = "non-root vertex without predecessor"; return false; }
        int e = bg.idx(nc->pred());
        if (e < 0) { err = "predecessor edge is not an edge of the graph"; return false; }
        int a = t.edges[e][0], b = t.edges[e][1];
        if (a != cur && b != cur) { err = "predecessor edge not incident to its vertex"; return false; }
        cur = (a == cur) ? b : a;
        rev.push_back(cur);
        if (++steps > t.n) { err = "predecessor edges contain a cycle"; return false; }
    }
    path.assign(rev.rbegin(), rev.rend());
    return true;
}
static Verdict check_sptrees(const TGraph &t, B &bg) {
    Trees T(bg);
    auto d = floyd(t);
    int n = t.n;
    std::vector<std::vector<std::vector<int>>> P(n, std::vector<std::vector<int>>(n));
    for (int s = 0; s < n; s++) {
        auto &tr = T.trees[s];
        if ((int) tr.source() != s) return {"sptree-source", "source() wrong"};
        for (int v = 0; v < n; v++) {
            auto nd = tr.node(v);
            bool reach = d[s][v] >= 0;
            if ((nd != nullptr) != reach) return {"sptree-reachability", std::string(reach ? "reachable vertex has no node" : "unreachable vertex has a node") + " (root " + std::to_string(s) + ", vertex " + std::to_string(v) + ")"};
            if (!reach) continue;
            if ((int) nd->vertex() != v) return {"sptree-node-vertex", "node(v)->vertex() != v"};
            if (nd->weight() != d[s][v]) return {"sptree-distance", "root " + std::to_string(s) + " vertex " + std::to_string(v) + ": reported distance " + std::to_string(nd->weight()) + ", true distance " + std::to_string(d[s][v])};
            if ((v == s) == nd->has_pred()) return {"sptree-root-pred", "exactly the root has no predecessor"};
            std::string err;
            if (!tree_path(t, bg, tr, s, v, P[s][v], err)) return {"sptree-not-a-tree", "root " + std::to_string(s) + " vertex " + std::to_string(v) + ": " + err};
            // root path has the reported length
            double len = 0;
            for (size_t i = 0; i + 1 < P[s][v].size(); i++) {
                auto nc = tr.node(P[s][v][i + 1]); len += t.w[bg.idx(nc->pred())];
            }
            if (len != d[s][v]) return {"sptree-path-length", "root path length differs from the reported distance"};
            int first = (int) tr.first(v);
            int want = (v == s) ? s : P[s][v][1];
            if (first != want) return {"sptree-first", "first(" + std::to_string(v) + ") in tree " + std::to_string(s) + " is " + std::to_string(first) + ", path passes through " + std::to_string(want)};
        }
    }
    // consistency across sources
    for (int u = 0; u < n; u++) for (int v = 0; v < n; v++) {
        if (d[u][v] < 0 || u == v) continue;
        std::vector<int> r(P[v][u].rbegin(), P[v][u].rend());
        if (r != P[u][v]) return {"sptree-reverse-consistency", "tree path " + std::to_string(u) + "->" + std::to_string(v) + " is not the reverse of " + std::to_string(v) + "->" + std::to_string(u)};
        auto &p = P[u][v];
        for (size_t i = 0; i < p.size(); i++) for (size_t j = i + 1; j < p.size(); j++) {
            std::vector<int> sub(p.begin() + i, p.begin() + j + 1);
            if (P[p[i]][p[j]] != sub) return {"sptree-subpath-consistency", "sub-path " + std::to_string(p[i]) + "->" + std::to_string(p[j]) + " of the chosen path " + std::to_string(u) + "->" + std::to_string(v) + " is not the chosen path between its endpoints"};
        }
    }
    return {};
}

// ---------------------------------------------------------------- C14
typedef std::set<std::pair<int, int>> CandSet;     // (root vertex, edge index)
template<class Builder>
static Verdict check_collection(const char *name, const TGraph &t, B &bg, const McbOracle &opt, CandSet &outset) {
    std::vector<parmcb::SPTree<G, WM>> trees;
    std::vector<parmcb::CandidateCycle<G, WM>> cycles;
    WM wm = bg.weights();
    Builder b;
    b(bg.g, wm, trees, cycles);
    auto d = floyd(t);
    struct C { double w; Bits b; };
    std::vector<C> cs;
    for (auto &c : cycles) {
        if (c.tree() >= trees.size()) return {std::string(name) + "-tree-id", "candidate refers to a non-existent tree"};
        auto &tr = trees[c.tree()];
        int r = (int) tr.source();
        int e = bg.idx(c.edge());
        if (e < 0) return {std::string(name) + "-foreign-edge", "candidate edge not in graph"};
        int x = t.edges[e][0], y = t.edges[e][1];
        if (!tr.node(x) || !tr.node(y)) return {std::string(name) + "-unreachable", "candidate endpoint has no tree node"};
        std::vector<int> px, py; std::string err;
        if (!tree_path(t, bg, tr, r, x, px, err) || !tree_path(t, bg, tr, r, y, py, err)) return {std::string(name) + "-path", err};
        std::set<int> sx(px.begin() + 1, px.end());
        for (size_t i = 1; i < py.size(); i++) if (sx.count(py[i])) return {std::string(name) + "-not-simple", "root paths of candidate (root " + std::to_string(r) + ", edge " + std::to_string(e) + ") meet outside the root"};
        Bits bits(t.m()); bits.set(e); double w = t.w[e];
        std::vector<int> cyc = {e};
        for (auto *p : {&px, &py}) for (size_t i = 0; i + 1 < p->size(); i++) {
            int pe = bg.idx(tr.node((*p)[i + 1])->pred());
            if (pe == e) return {std::string(name) + "-tree-edge", "candidate closing edge is a tree edge of its own path"};
            bits.flip(pe); w += t.w[pe]; cyc.push_back(pe);
        }
        std::string serr = simple_cycle_error(t, cyc);
        if (!serr.empty()) return {std::string(name) + "-not-simple", "candidate is not a simple cycle: " + serr};
        if (c.weight() != w) return {std::string(name) + "-weight", "recorded weight " + std::to_string(c.weight()) + " but the cycle weighs " + std::to_string(w)};
        if (c.weight() != t.w[e] + d[r][x] + d[r][y]) return {std::string(name) + "-weight", "recorded weight is not w(e)+d(r,u)+d(r,v)"};
        outset.insert({r, e});
        cs.push_back({w, bits});
    }
    if (opt.ok) {
        std::stable_sort(cs.begin(), cs.end(), [](const C &a, const C &b) { return a.w < b.w; });
        GF2Basis Bs; double tot = 0;
        for (auto &c : cs) { if (Bs.rank() == opt.dim) break; if (Bs.add(c.b)) tot += c.w; }
        if (Bs.rank() != opt.dim) return {std::string(name) + "-insufficient-dimension", "greedy selection reaches dimension " + std::to_string(Bs.rank()) + " of " + std::to_string(opt.dim)};
        if (tot != opt.weight) return {std::string(name) + "-insufficient-weight", "greedy selection weighs " + std::to_string(tot) + ", optimum " + std::to_string(opt.weight)};
    }
    return {};
}

int main(int argc, char **argv) {
    SetOpts o;
    o.thorough = thorough();
    o.seed = (uint64_t) env_long("VERIF_SEED", 1);
    std::string only;
    for (int i = 1; i < argc; i++) {
        std::string a = argv[i];
        if (a == "--shard" && i + 1 < argc) sscanf(argv[++i], "%d/%d", &o.shard, &o.nshards);
        else if (a == "--only" && i + 1 < argc) only = argv[++i];
        else if (a == "--case" && i + 1 < argc) {
            TGraph t; if (!parse_tgraph(argv[++i], t)) return 3;
            B bg(t); McbOracle opt = mcb_bruteforce(t); CandSet h, f, s;
            std::vector<std::pair<std::string, Verdict>> vs = {{"ForestIndex", check_forest_index(t, bg)}, {"greedy_fvs", check_fvs(t, bg)}, {"SPTree", check_sptrees(t, bg)},
                {"Horton", check_collection<parmcb::detail::HortonCyclesBuilder<G, WM>>("horton", t, bg, opt, h)},
                {"FVS", check_collection<parmcb::detail::FVSCyclesBuilder<G, WM>>("fvs-collection", t, bg, opt, f)},
                {"ISO", check_collection<parmcb::detail::ISOCyclesBuilder<G, WM>>("iso-collection", t, bg, opt, s)}};
            int rc = 0;
            for (auto &p : vs) if (!p.second.ok()) { std::cout << "REPLAY-FAIL " << p.first << " " << p.second.kind << ": " << p.second.detail << std::endl; rc = 1; }
            if (!rc) std::cout << "REPLAY-OK" << std::endl;
            return rc;
        }
    }
    if (o.thorough) { o.max_exh_n = 7; o.nrandom = 30000; o.shuffles = 8; o.rnd_max_n = 11; o.rnd_max_dim = 12; }
    else { o.max_exh_n = 6; o.nrandom = 600; o.small_n = 3; }
    bool heavy_all = o.thorough;
    if (o.shard == 0 && (only.empty() || only == "C12")) {
        // K12 tail: LexDistanceCompare on labels with equal distance and edge count is a strict TOTAL order
        // on equal-size vertex sets (all subsets of {0..5} of each size)
        typedef parmcb::detail::LexDistance<G, double*> LD;
        parmcb::detail::LexDistanceCompare<G, double*> cmp;
        TGraph dummy;
        for (int size = 1; size <= 5; size++) {
            std::vector<LD> ls;
            for (int mask = 0; mask < 64; mask++) if (__builtin_popcount(mask) == size) {
                std::set<std::size_t> vs; for (int b = 0; b < 6; b++) if (mask >> b & 1) vs.insert(b);
                ls.emplace_back(3.0, (std::size_t) (size - 1), vs);
            }
            for (size_t a = 0; a < ls.size(); a++) for (size_t b = 0; b < ls.size(); b++) {
                st.evaluations++;
                bool ab = cmp(ls[a], ls[b]), ba = cmp(ls[b], ls[a]);
                if (a == b && ab) viol("LexDistanceCompare", {"lexorder-irreflexive", "cmp(a,a) is true"}, dummy);
                if (a != b && ab == ba) viol("LexDistanceCompare", {"lexorder-total-asymmetric", "exactly one of cmp(a,b), cmp(b,a) must hold for distinct equal-size sets"}, dummy);
                for (size_t c = 0; c < ls.size(); c++) if (ab && cmp(ls[b], ls[c]) && !cmp(ls[a], ls[c])) viol("LexDistanceCompare", {"lexorder-transitive", "order on labels not transitive"}, dummy);
            }
        }
    }
    for_each_graph(o, [&](TGraph &t) {
        B bg(t);
        bool small = true; (void) heavy_all;
        Verdict v;
        if (only.empty() || only == "C16") { v = check_forest_index(t, bg); st.evaluations++; st.counts["ForestIndex"]++; if (!v.ok()) viol("ForestIndex", v, t); }
        if (only.empty() || only == "C13") { v = check_fvs(t, bg); st.evaluations++; st.counts["greedy_fvs"]++; if (!v.ok()) viol("greedy_fvs", v, t); }
        if (small && (only.empty() || only == "C12")) { v = check_sptrees(t, bg); st.evaluations++; st.counts["SPTree"]++; if (!v.ok()) viol("SPTree", v, t); }
        if (small && (only.empty() || only == "C14")) {
            McbOracle opt = mcb_bruteforce(t);
            CandSet h, f, s;
            v = check_collection<parmcb::detail::HortonCyclesBuilder<G, WM>>("horton", t, bg, opt, h); st.evaluations++; st.counts["Horton"]++; if (!v.ok()) viol("HortonCyclesBuilder", v, t);
            Verdict vf = check_collection<parmcb::detail::FVSCyclesBuilder<G, WM>>("fvs-collection", t, bg, opt, f); st.evaluations++; st.counts["FVS"]++; if (!vf.ok()) viol("FVSCyclesBuilder", vf, t);
            Verdict vi = check_collection<parmcb::detail::ISOCyclesBuilder<G, WM>>("iso-collection", t, bg, opt, s); st.evaluations++; st.counts["ISO"]++; if (!vi.ok()) viol("ISOCyclesBuilder", vi, t);
            if (v.ok() && vf.ok()) for (auto &p : f) if (!h.count(p)) { viol("FVSCyclesBuilder", {"fvs-collection-not-subset", "FVS candidate (root,edge) missing from Horton's collection"}, t); break; }
            if (v.ok() && vi.ok()) for (auto &p : s) if (!h.count(p)) { viol("ISOCyclesBuilder", {"iso-collection-not-subset", "isometric candidate (root,edge) missing from Horton's collection"}, t); break; }
        }
        if (t.m() >= 3) st.distinct.insert(t.key());
        if (st.samples.size() < 4 && cyclomatic(t) >= 3) st.sample(t.str());
    });
    st.print("e3_components", false,
            "exact-domain set: every labelled graph n<=6 (unit weights + one seeded weighting), all weightings {1,2} for n<=3/4, tie-heavy families (grids, hypercubes, K_n, K_{a,b}, wheels, thetas, Petersen, unions, forests, empty) under renumberings, seeded random n<=9/10; distinct by ordered edge list with >=3 edges",
            std::string("max_exh_n=6 nrandom=") + std::to_string(o.nrandom));
    return 0;
}
