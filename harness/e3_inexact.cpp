// Bounded stand-in for C09: exact variants on INEXACT double weights (uniform doubles in [1e-3,1e3] and
// decimal fractions k/10, k/100, and small near-tie weights k*1e-3 + j*3e-10).  Validity (C01) must hold exactly; the returned value must equal the
// sum of the emitted cycle weights and be within a relative 1e-9 of the true minimum, which is computed
// in exact 2^-70 fixed point (__int128) by brute force.
#include <parmcb/config.hpp>
#include <parmcb/parmcb_sva_signed.hpp>
#include <parmcb/parmcb_sva_trees.hpp>
#include <parmcb/parmcb_sva_signed_tbb.hpp>
#include "vp_parmcb.hpp"
#include "vp_sets.hpp"
using namespace vp;
typedef BG<double> B;
typedef __int128 I128;

static const char *VARIANTS[] = {"mcb_sva_signed", "mcb_sva_fvs_trees", "mcb_sva_iso_trees", "mcb_sva_signed_tbb", "mcb_sva_fvs_trees_tbb", "mcb_sva_iso_trees_tbb"};

static I128 fx(double w) { return (I128) std::ldexp(w, 70); }            // exact: w has <= 53 significant bits, w >= 2^-10
static double back(I128 v) { return std::ldexp((double) v, -70); }

// exact optimum: all simple cycles with exact weights, greedy
static bool exact_opt(const TGraph &t, I128 &opt) {
    if (t.m() > 62) return false;
    std::vector<uint64_t> cyc; all_simple_cycles(t, cyc, 3000000);
    if (cyc.size() >= 3000000) return false;
    std::vector<I128> wf(t.m()); for (int i = 0; i < t.m(); i++) wf[i] = fx(t.w[i]);
    std::vector<std::pair<I128, uint64_t>> cw;
    for (auto c : cyc) { I128 s = 0; for (int i = 0; i < t.m(); i++) if (c >> i & 1) s += wf[i]; cw.push_back({s, c}); }
    std::sort(cw.begin(), cw.end());
    std::vector<uint64_t> piv(64, 0); int dim = cyclomatic(t), got = 0; opt = 0;
    for (auto &c : cw) { uint64_t v = c.second; while (v) { int l = __builtin_ctzll(v); if (!piv[l]) { piv[l] = v; break; } v ^= piv[l]; } if (v) { opt += c.first; if (++got == dim) break; } }
    return got == dim;
}

static Verdict check_one(const TGraph &t, int variant, bool have_opt, I128 opt) {
    B bg(t);
    std::list<std::list<B::Edge>> cycles;
    auto out = std::back_inserter(cycles);
    double ret;
    try {
        switch (variant) {
            case 0: ret = parmcb::mcb_sva_signed(bg.g, bg.weights(), out); break;
            case 1: ret = parmcb::mcb_sva_fvs_trees(bg.g, bg.weights(), out); break;
            case 2: ret = parmcb::mcb_sva_iso_trees(bg.g, bg.weights(), out); break;
            case 3: ret = parmcb::mcb_sva_signed_tbb(bg.g, bg.weights(), out); break;
            case 4: ret = parmcb::mcb_sva_fvs_trees_tbb(bg.g, bg.weights(), out); break;
            default: ret = parmcb::mcb_sva_iso_trees_tbb(bg.g, bg.weights(), out); break;
        }
    } catch (std::exception &e) { return {"exception", std::string("threw ") + e.what()}; }
    auto idx = to_indices(bg, cycles);
    Verdict v = check_basis_shape(t, idx);
    if (!v.ok()) return v;
    // returned value = sum of emitted cycle weights (up to rounding of the summation order)
    I128 sum = 0; for (auto &c : idx) for (int e : c) sum += fx(t.w[e]);
    double s = back(sum);
    if (std::fabs(ret - s) > 1e-9 * std::max(1.0, s)) return {"returned-weight", "returned " + std::to_string(ret) + " but the emitted cycles weigh " + std::to_string(s)};
    if (have_opt) {
        double o = back(opt);
        if (sum < opt - (I128) 1) { /* impossible for a basis */ return {"below-optimum", "basis lighter than the exact optimum: oracle inconsistent"}; }
        if (s - o > 1e-9 * std::max(o, 1e-300)) return {"not-minimum", "basis weight " + std::to_string(s) + " exceeds the true minimum " + std::to_string(o) + " by more than 1e-9 relative"};
    }
    return {};
}

int main(int argc, char **argv) {
    int shard = 0, nshards = 1; std::string the_case, algo;
    for (int i = 1; i < argc; i++) {
        std::string a = argv[i];
        if (a == "--shard" && i + 1 < argc) sscanf(argv[++i], "%d/%d", &shard, &nshards);
        else if (a == "--case" && i + 1 < argc) the_case = argv[++i];
        else if (a == "--algo" && i + 1 < argc) algo = argv[++i];
    }
    Stats st;
    if (!the_case.empty()) {
        TGraph t; if (!parse_tgraph(the_case, t)) return 3;
        I128 opt; bool ho = exact_opt(t, opt);
        int rc = 0;
        for (int v = 0; v < 6; v++) { if (!algo.empty() && algo != VARIANTS[v]) continue; Verdict vd = check_one(t, v, ho, opt);
            if (!vd.ok()) { std::cout << "REPLAY-FAIL " << VARIANTS[v] << " " << vd.kind << ": " << vd.detail << std::endl; rc = 1; } }
        if (!rc) std::cout << "REPLAY-OK" << std::endl;
        return rc;
    }
    uint64_t seed = (uint64_t) env_long("VERIF_SEED", 1);
    bool th = thorough();
    int N = th ? 300000 : 3000;
    // fixed instances of the known finding D7 (so that each listed finding is exercised on every run)
    const char *FIXED[] = {
        "{\"n\":5,\"edges\":[[0,1,0.6],[1,3,0.2],[3,2,0.5],[4,1,0.1],[4,2,0.8],[3,0,0.9],[0,2,0.9],[1,2,0.9]]}",
        "{\"n\":7,\"edges\":[[1,6,0.9],[1,3,0.7],[0,1,0.6],[1,5,0.8],[6,2,0.3],[5,4,0.5],[1,2,0.1],[5,6,0.3],[2,4,0.9],[0,3,0.8],[6,0,0.5],[5,3,0.8]]}",
        "{\"n\":8,\"edges\":[[4,5,0.2],[3,4,0.1],[0,4,0.9],[4,7,0.5],[2,3,0.9],[1,4,0.3],[0,5,0.1],[6,7,0.9],[3,6,0.6],[0,1,0.9],[1,5,0.2],[4,6,0.5],[5,7,0.9],[0,2,0.6],[1,2,0.9],[3,5,0.8],[1,3,0.4],[0,3,0.4],[0,6,0.9],[1,7,0.1],[1,6,0.6]]}"};
    // rounding-tie instances the unchanged tree HANDLES (two routes whose float lengths tie while the real sums differ; found with seed S61):
    // not part of any listed finding, so a failure here is reported even for the isometric variants
    if (shard == 0) {
        std::vector<TGraph> ties;
        { TGraph g; g.n = 5; g.edges = {{0, 1}, {0, 3}, {0, 4}, {1, 3}, {2, 3}, {2, 4}}; g.w = {0.1, 0.6, 0.3, 0.1, 0.4, 0.1}; ties.push_back(g); }
        { const double b0 = 1e-3, s3 = 3e-10; TGraph g; g.n = 6; g.edges = {{0, 1}, {0, 2}, {0, 3}, {0, 5}, {1, 3}, {1, 4}, {2, 4}, {3, 4}, {4, 5}};
          g.w = {b0 + 2 * s3, b0 + 3 * s3, b0 + 2 * s3, b0 + 4 * s3, b0 + 4 * s3, b0 + 4 * s3, b0 + 5 * s3, b0 + 6 * s3, b0 + 2 * s3}; ties.push_back(g); }
        for (auto &g : ties) {
            g.tag = "fixed-rounding-tie-instance";
            I128 opt; bool ho = exact_opt(g, opt);
            for (int v = 0; v < 6; v++) {
                Verdict vd = check_one(g, v, ho, opt);
                st.evaluations++; st.counts[VARIANTS[v]]++;
                if (!vd.ok()) { st.violations++; std::string site = std::string(VARIANTS[v]) + "@inexact-weights[" + g.tag + "]";
                    if (st.counts["viol_" + site + "_" + vd.kind]++ < 1) emit_violation(site, vd.kind, vd.detail, "{\"graph\":" + g.str() + ",\"algo\":\"" + VARIANTS[v] + "\"}"); }
            }
        }
    }
    for (int i = -3; i < N; i++) {
        if (i < 0) {
            if (shard != 0) continue;
            TGraph g; parse_tgraph(FIXED[i + 3], g); g.tag = "fixed-D7-instance";
            I128 opt; bool ho = exact_opt(g, opt);
            for (int v = 0; v < 6; v++) {
                Verdict vd = check_one(g, v, ho, opt);
                st.evaluations++; st.counts[VARIANTS[v]]++;
                if (!vd.ok()) { st.violations++; std::string site = std::string(VARIANTS[v]) + "@inexact-weights[fixed-D7-instance]";
                    if (st.counts["viol_" + site + "_" + vd.kind]++ < 1) emit_violation(site, vd.kind, vd.detail, "{\"graph\":" + g.str() + ",\"algo\":\"" + VARIANTS[v] + "\"}"); }
            }
            st.distinct.insert(g.key());
            continue;
        }
        if ((i % nshards) != shard) continue;
        Rng r(seed * 7919 + i);
        int n = 3 + r.below(th ? 8 : 7);
        int maxm = std::min(npairs(n), n - 1 + (th ? 11 : 9));
        int m = 2 + r.below(maxm - 1);
        TGraph g = random_graph(r, n, m, {1});
        int kind = i % 5;
        for (auto &w : g.w) {
            if (kind == 0) w = 1e-3 + r.unit() * (1e3 - 1e-3);               // arbitrary doubles, wide range
            else if (kind == 1) w = (1 + r.below(99)) / 10.0;                  // k/10
            else if (kind == 2) w = (1 + r.below(999)) / 100.0;                // k/100
            else if (kind == 3) w = (1 + r.below(9)) / 10.0;                   // few distinct decimal values: many near-ties
            else w = (1 + r.below(4)) * 1e-3 + r.below(10) * 3e-10;           // small weights whose sums differ by less than 1e-9 ABSOLUTE yet by ~1e-7 relative
        }
        g.tag = kind == 0 ? "uniform" : kind == 1 ? "k/10" : kind == 2 ? "k/100" : kind == 3 ? "k/10-small" : "k*1e-3+j*3e-10";
        I128 opt; bool ho = exact_opt(g, opt);
        for (int v = 0; v < 6; v++) {
            Verdict vd = check_one(g, v, ho, opt);
            st.evaluations++; st.counts[VARIANTS[v]]++;
            // the site names the weight family: a known finding is listed per (entry point, kind, family), so the same symptom on a
            // family the unchanged tree handles is still reported
            if (!vd.ok()) { st.violations++; std::string site = std::string(VARIANTS[v]) + "@inexact-weights[" + g.tag + "]";
                if (st.counts["viol_" + site + "_" + vd.kind]++ < 1) emit_violation(site, vd.kind, vd.detail, "{\"graph\":" + g.str() + ",\"algo\":\"" + VARIANTS[v] + "\"}"); }
        }
        if (cyclomatic(g) >= 2) st.distinct.insert(g.key());
        if (st.samples.size() < 3 && cyclomatic(g) >= 3) st.sample(g.str());
    }
    st.print("e3_inexact", false,
            "seeded simple graphs n<=9/10, dimension<=9/11, weights: uniform doubles in [1e-3,1e3], k/10, k/100, k/10 with k<=9 (many near-ties), and k*1e-3 + j*3e-10 (sums closer than 1e-9 absolutely, not relatively); six exact variants (sequential + real oneTBB); oracle = brute force in exact 2^-70 fixed point; non-trivial = dimension >= 2",
            std::string("graphs=") + std::to_string(N));
    return 0;
}
