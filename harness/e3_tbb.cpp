// Bounded stand-in for C03: the six TBB entry points, compiled UNCHANGED either against the executable
// contract model of TBB (stubs/tbb_contract first on the include path: schedules are enumerated /
// sampled through a choice tape) or against the real oneTBB (-DVP_REAL_TBB: 1, 2 and 16 workers).
// Postconditions: K16 (exact variants: C01+C02 contract incl. optimum) and K18 (approximate variants).
#include <parmcb/config.hpp>
#include <parmcb/parmcb_sva_signed_tbb.hpp>
#include <parmcb/parmcb_sva_trees.hpp>
#include <parmcb/parmcb_approx_sva_signed_tbb.hpp>
#include <parmcb/parmcb_approx_sva_trees_tbb.hpp>
#include "vp_parmcb.hpp"
#include "vp_sets.hpp"
#ifdef VP_REAL_TBB
#include <tbb/global_control.h>
#endif
using namespace vp;
typedef BG<double> B;

static const char *EXACT[] = {"mcb_sva_signed_tbb", "mcb_sva_fvs_trees_tbb", "mcb_sva_iso_trees_tbb"};
static const char *APPROX[] = {"approx_mcb_sva_signed_tbb", "approx_mcb_sva_fvs_trees_tbb", "approx_mcb_sva_iso_trees_tbb"};

static double run_algo(const std::string &a, B &bg, std::size_t k, std::list<std::list<B::Edge>> &cycles) {
    auto out = std::back_inserter(cycles);
    if (a == "mcb_sva_signed_tbb") return parmcb::mcb_sva_signed_tbb(bg.g, bg.weights(), out);
    if (a == "mcb_sva_fvs_trees_tbb") return parmcb::mcb_sva_fvs_trees_tbb(bg.g, bg.weights(), out);
    if (a == "mcb_sva_iso_trees_tbb") return parmcb::mcb_sva_iso_trees_tbb(bg.g, bg.weights(), out);
    if (a == "approx_mcb_sva_signed_tbb") return parmcb::approx_mcb_sva_signed_tbb(bg.g, bg.weights(), k, out);
    if (a == "approx_mcb_sva_fvs_trees_tbb") return parmcb::approx_mcb_sva_fvs_trees_tbb(bg.g, bg.weights(), k, out);
    if (a == "approx_mcb_sva_iso_trees_tbb") return parmcb::approx_mcb_sva_iso_trees_tbb(bg.g, bg.weights(), k, out);
    std::cerr << "unknown algo" << std::endl; exit(3);
}

static Verdict check_one(const TGraph &t, const std::string &algo, std::size_t k, bool exact, const McbOracle &opt) {
    B bg(t);
    std::list<std::list<B::Edge>> cycles;
    double ret;
    try { ret = run_algo(algo, bg, k, cycles); }
    catch (std::exception &e) { return {"exception", std::string("threw ") + e.what()}; }
    auto idx = to_indices(bg, cycles);
    Verdict v = check_basis_shape(t, idx);
    if (!v.ok()) return v;
    double sum = cycles_weight(t, idx);
    if (ret != sum) return {"returned-weight", "returned " + std::to_string(ret) + " but emitted cycles weigh " + std::to_string(sum)};
    if (opt.ok) {
        if (exact && sum != opt.weight) return {"not-minimum", "basis weight " + std::to_string(sum) + ", optimum " + std::to_string(opt.weight)};
        if (!exact && (sum < opt.weight || sum > (2.0 * k - 1) * opt.weight)) return {"approx-ratio", "weight " + std::to_string(sum) + " outside [OPT,(2k-1)OPT], OPT=" + std::to_string(opt.weight)};
    }
    return {};
}

int main(int argc, char **argv) {
    SetOpts o;
    o.thorough = thorough();
    o.seed = (uint64_t) env_long("VERIF_SEED", 1);
    std::string the_case, algo; long kk = 2; long tape_seed = -1;
    for (int i = 1; i < argc; i++) {
        std::string a = argv[i];
        if (a == "--shard" && i + 1 < argc) sscanf(argv[++i], "%d/%d", &o.shard, &o.nshards);
        else if (a == "--case" && i + 1 < argc) the_case = argv[++i];
        else if (a == "--algo" && i + 1 < argc) algo = argv[++i];
        else if (a == "--k" && i + 1 < argc) kk = atol(argv[++i]);
        else if (a == "--tape-seed" && i + 1 < argc) tape_seed = atol(argv[++i]);
    }
    Stats st;
#ifdef VP_REAL_TBB
    const char *mode = "real oneTBB";
    int workers[] = {1, 2, 16};
#else
    const char *mode = "tbb_contract model";
#endif
    if (!the_case.empty()) {
        TGraph t; if (!parse_tgraph(the_case, t)) return 3;
        McbOracle opt = mcb_bruteforce(t);
        bool exact = algo.find("approx") == std::string::npos;
        int fails = 0;
        for (int rep = 0; rep < 200; rep++) {
#ifndef VP_REAL_TBB
            vp_tbb::chooser().seed(tape_seed >= 0 ? (uint64_t) tape_seed : (uint64_t) rep);
#endif
            Verdict v = check_one(t, algo, (std::size_t) kk, exact, opt);
            if (!v.ok()) { std::cout << "REPLAY-FAIL " << algo << " (" << mode << ", tape seed " << (tape_seed >= 0 ? tape_seed : rep) << ") " << v.kind << ": " << v.detail << std::endl; fails++; break; }
            if (tape_seed >= 0) break;
        }
        if (!fails) std::cout << "REPLAY-OK" << std::endl;
        return fails ? 1 : 0;
    }
    if (o.thorough) { o.max_exh_n = 6; o.nrandom = 6000; o.shuffles = 4; } else { o.max_exh_n = 5; o.nrandom = 500; o.shuffles = 1; }
    long exhausted = 0, tapes_total = 0;
    for_each_graph(o, [&](TGraph &t) {
        McbOracle opt = mcb_bruteforce(t);
        int dim = cyclomatic(t);
        std::vector<std::pair<std::string, std::size_t>> jobs;
        for (auto a : EXACT) jobs.push_back({a, 0});
        for (auto a : APPROX) { jobs.push_back({a, 1}); jobs.push_back({a, 2}); if (o.thorough) jobs.push_back({a, 3}); }
        for (auto &job : jobs) {
            bool exact = job.second == 0;
#ifdef VP_REAL_TBB
            for (int w : workers) {
                tbb::global_control gc(tbb::global_control::max_allowed_parallelism, w);
                Verdict v = check_one(t, job.first, job.second, exact, opt);
                st.evaluations++; st.counts[job.first]++;
                if (!v.ok()) { st.violations++; if (st.counts["viol_" + job.first + "_" + v.kind]++ < 2) emit_violation(job.first, v.kind, v.detail + " (real TBB, " + std::to_string(w) + " workers)", "{\"graph\":" + t.str() + ",\"algo\":\"" + job.first + "\",\"k\":" + std::to_string(job.second) + "}"); }
            }
#else
            auto &c = vp_tbb::chooser();
            // 1. odometer over schedules (exhaustive when it terminates within the cap)
            long cap = (dim <= 1) ? 400 : (o.thorough ? 120 : 40);
            c.start_odometer();
            long n = 0; bool more = true;
            while (more && n < cap) {
                c.rewind();
                Verdict v = check_one(t, job.first, job.second, exact, opt);
                st.evaluations++; st.counts[job.first]++; n++;
                if (!v.ok()) { st.violations++; if (st.counts["viol_" + job.first + "_" + v.kind]++ < 2) emit_violation(job.first, v.kind, v.detail + " (schedule: odometer tape #" + std::to_string(n) + ")", "{\"graph\":" + t.str() + ",\"algo\":\"" + job.first + "\",\"k\":" + std::to_string(job.second) + "}"); break; }
                more = c.advance();
            }
            if (!more) exhausted++;
            tapes_total += n;
            // 2. seeded random schedules
            int R = o.thorough ? 12 : 4;
            for (int r = 0; r < R; r++) {
                uint64_t ts = o.seed * 1000003ULL + st.evaluations;
                c.seed(ts);
                Verdict v = check_one(t, job.first, job.second, exact, opt);
                st.evaluations++; st.counts[job.first]++;
                if (!v.ok()) { st.violations++; if (st.counts["viol_" + job.first + "_" + v.kind]++ < 2) emit_violation(job.first, v.kind, v.detail + " (schedule: tape seed " + std::to_string(ts) + ")", "{\"graph\":" + t.str() + ",\"algo\":\"" + job.first + "\",\"k\":" + std::to_string(job.second) + ",\"tape_seed\":" + std::to_string(ts) + "}"); break; }
            }
#endif
        }
        if (dim >= 2) st.distinct.insert(t.key());
        if (st.samples.size() < 3 && dim >= 3) st.sample(t.str());
    });
    st.counts["graph_algo_pairs_with_schedule_space_exhausted"] = exhausted;
    st.counts["odometer_tapes"] = tapes_total;
    st.print(std::string("e3_tbb[") + mode + "]", false,
            std::string("six TBB entry points (exact x3, approximate x3 with k=1,2[,3]) on the exact-domain set (all labelled graphs n<=4/5 with all weightings n<=4, families, seeded random), each under ") + mode + ": odometer enumeration of the choice tape (capped; exhaustive where the count says so) plus seeded random tapes / 1,2,16 workers; non-trivial = cycle space dimension >= 2",
            std::string("max_exh_n=") + std::to_string(o.max_exh_n) + " nrandom=" + std::to_string(o.nrandom));
    return 0;
}
