"""K26 set_global_tbb_concurrency (include/parmcb/util.hpp, E2: the function text is #included
verbatim between anchors into a C++ unit with an executable contract of tbb::global_control) and
K27 (cores half): the --cores option block of the two TBB demos (E1, rewritten to C)."""
import os, re
from lib import xtract as X
from lib.core import VERIF, Undecided, WORK, ensure_dir, write


def _knob_unit():
    text = X.src("include/parmcb/util.hpp")
    m = X._unique(text, r"(inline\s+)?void set_global_tbb_concurrency\(const std::size_t hardware_concurrency_hint\)\s*", "set_global_tbb_concurrency")
    i = text.index("{", m.end())
    j = X._match_close(text, i, "{", "}")
    fn = text[m.start():j + 1]
    harness = r"""
#include "prelude.hpp"
namespace parmcb {
%s
}
vp_size_t nondet_sz(); bool nondet_b();
vp_size_t vp_in_n1, vp_in_n2, vp_in_bg; bool vp_in_bg_live;
extern "C" void h_knob() {
  /* arbitrary earlier history: possibly a background limit, none of our slots live */
  oneapi::tbb::info::vp_hw = nondet_sz(); __CPROVER_assume(oneapi::tbb::info::vp_hw >= 1 && oneapi::tbb::info::vp_hw <= 4096);   /* any machine */
  vp_bg_live = nondet_b(); vp_bg_val = nondet_sz();
  __CPROVER_assume(vp_bg_val >= 1);
  vp_size_t n1 = nondet_sz(), n2 = nondet_sz();
  __CPROVER_assume(n1 >= 1 && n1 < VP_DEFAULT && n2 >= 1 && n2 < VP_DEFAULT);
  /* the property speaks about the limit this knob sets: a stricter limit set by somebody else stays in force */
  __CPROVER_assume(!vp_bg_live || (vp_bg_val >= n1 && vp_bg_val >= n2));
  vp_in_n1 = n1; vp_in_n2 = n2; vp_in_bg = vp_bg_val; vp_in_bg_live = vp_bg_live;
  parmcb::set_global_tbb_concurrency(n1);
  __CPROVER_assert(vp_active() == n1, "K26.ensures: allowed parallelism is n after the call returns (and until it is set again)");
  parmcb::set_global_tbb_concurrency(n2);
  __CPROVER_assert(vp_active() == n2, "K26.ensures: a second call replaces the limit (sequence of calls)");
  parmcb::set_global_tbb_concurrency(n1);
  __CPROVER_assert(vp_active() == n1, "K26.ensures: third call of a sequence");
  __CPROVER_assert(vp_ctor_calls - vp_dtor_calls <= 1, "K26.frame: at most one control object stays alive (no accumulation over calls)");
  __CPROVER_assert(0, "VP_REACH end of harness");
}
""" % fn
    return dict(unit="K26_set_global_tbb_concurrency", lang="cpp", source="include/parmcb/util.hpp set_global_tbb_concurrency (verbatim)",
                text=harness, entry="h_knob", mode="proof", unwind=6, timeout=600,
                bound="all n>=1 (below the default), call sequences of length 3 from an arbitrary earlier history; straight-line code, model loops over 4 slots fully unwound",
                cc_flags=["-nostdinc", "-I", os.path.join(VERIF, "stubs/knob")], flags=["--drop-unused-functions"],
                rewrites=[dict(pattern="(function text between anchors)", fired=1, expected=1, kind="verbatim", note="no rewrite")],
                dropped=["nothing of the function; the #else branch (TBB <= 2020) is not compiled"],
                functions={"set_global_tbb_concurrency": "proved under the global_control contract"},
                assumptions=["executable contract of oneapi::tbb::global_control in stubs/knob/prelude.hpp (active value = minimum over live controls); std::unique_ptr stub",
                             "limits set by other parties are not stricter than n (otherwise TBB keeps the stricter one by design)"],
                trusted=["cbmc 6.11 C++ front end + SAT back end"])


DEMOS = [("mcb-dimacs", "src/mcb-dimacs.cpp"), ("approx-mcb-dimacs", "src/approx-mcb-dimacs.cpp")]


def _cores_unit(name, rel):
    log = []
    text = X.src(rel)
    blk = X.span(text, r"#ifdef PARMCB_HAVE_TBB\s*\n\s*if \(vm\.count\(\"cores\"\)\)", r"\n#(?:endif|ifdef PARMCB_VERIF)", "--cores block of " + name, include_end=False)
    blk = blk[blk.index("\n") + 1:]
    blk = X.rewrite(blk, [
        (r"vm\.count\(\"(\w+)\"\)", r"vp_count_\1", 1, "container-api", "program_options: count()"),
        (r"vm\[\"(\w+)\"\]\.as<(?:int|bool)>\(\)", r"vp_opt_\1", 3, "container-api", "program_options: value of an option"),
        (r"std::size_t", "size_t", 1, "type-binding", ""),
        (r"boost::thread::hardware_concurrency\(\)", "vp_hw", 1, "container-api", "hardware concurrency (>=1)"),
        (r"std::cout <<[^;]*;", ";", (0, 3), "drop", "console output"),
        (r"parmcb::set_global_tbb_concurrency\(", "set_global_tbb_concurrency(", 1, "type-binding", "namespace"),
    ], log)
    fn = r"""
#include <stddef.h>
int vp_count_cores, vp_opt_cores; _Bool vp_opt_verbose, vp_opt_parallel; size_t vp_hw;
int vp_called; size_t vp_called_with;
void set_global_tbb_concurrency(size_t n)
__CPROVER_requires(n >= 1)
__CPROVER_ensures(vp_called == __CPROVER_old(vp_called) + 1 && vp_called_with == n)
__CPROVER_assigns(vp_called, vp_called_with)
;
void cores_block(void)
/* program_options contract: an option with a default value is always present */
__CPROVER_requires(vp_count_cores == 1 && vp_opt_cores >= 0 && vp_hw >= 1 && vp_called == 0)
__CPROVER_requires(vp_opt_verbose <= 1 && vp_opt_parallel <= 1)
__CPROVER_assigns(vp_called, vp_called_with)
/* --cores takes effect whenever a parallel algorithm is selected, independent of unrelated flags */
__CPROVER_ensures(vp_opt_parallel ==> (vp_called == 1 && vp_called_with == (vp_opt_cores ? (size_t) vp_opt_cores : vp_hw)))
{
%s
}
int vp_in_cores; _Bool vp_in_verbose, vp_in_parallel;
void h_cores(void) {
  vp_in_cores = vp_opt_cores; vp_in_verbose = vp_opt_verbose; vp_in_parallel = vp_opt_parallel;
  cores_block();
  __CPROVER_assert(0, "VP_REACH end of harness");
}
""" % blk
    return dict(unit="K27_cores_block_" + name, lang="c", source=rel + " (--cores option block)", text=fn, entry="h_cores",
                enforce="cores_block", replace=["set_global_tbb_concurrency"], mode="proof", timeout=600,
                bound="every valuation of verbose/parallel/cores (cores >= 0)", rewrites=log, dropped=["the rest of main"],
                functions={"%s: --cores option block" % name: "proved"},
                assumptions=["boost::program_options: an option with default_value is always counted; values as parsed"],
                trusted=["cbmc 6.11 + DFCC, SAT back end"])


def units(tier):
    out = [X.guarded("K26_set_global_tbb_concurrency", _knob_unit)]
    for n, r in DEMOS:
        out.append(X.guarded("K27_cores_block_" + n, _cores_unit, n, r))
    return out
