"""K16 (composition): the MAIN LOOP of mcb_sva_signed and of _mcb_sva_trees with their real loop bodies - support
initialisation, sparsest-support swap, support update, output and weight accumulation are the extracted code - and
only the search for the shortest odd cycle replaced by its contract (K9/K10/K11 + the ForestIndex bijection K15):
"returns an existing cycle whose coordinate set is odd w.r.t. the current witness support[k], with some weight".
Bounded by unwinding (cycle-space dimension csd <= MAXC): the independence ARGUMENT of C01 checked on the composed
real code: with W_j the witness used in phase j and C_i the i-th emitted cycle,
      <W_j, C_j> = 1   and   <W_j, C_i> = 0 for all i < j        (unit lower-triangular => C_0..C_{csd-1} independent),
exactly csd cycles are emitted and the returned value is the sum of the weights the phases reported.
SpVecGF2 is its 64-coordinate view (operators inlined as their contracts K1-K3)."""
import re
from lib import xtract as X
from lib.core import Undecided
from units.canon import MAINLOOP

PRE = r"""
#include <stddef.h>
typedef _Bool bool;
#define true 1
#define false 0
#define MAXC %(MAXC)s
typedef long W;
typedef struct { unsigned long edges; W weight; bool exists; } cycle_t;
#define GET0(c) ((c).edges)
#define GET1(c) ((c).weight)
#define GET2(c) ((c).exists)
#define PAR(x) ((int)(__builtin_popcountll(x) & 1))
#define POP(x) ((size_t)__builtin_popcountll(x))
unsigned long support[MAXC + 1];           /* view of std::vector<SpVecGF2<size_t>> support */
unsigned long EMITTED[MAXC + 1]; size_t vp_emitted;    /* coordinate sets of the cycles written to `out` */
unsigned long WIT[MAXC + 1];               /* ghost: witness in force when phase k searched */
W PW[MAXC + 1];                            /* ghost: weight reported by phase k */
size_t csd; W mcb_weight;
/* K9/K10/K11 + K15: the search returns an existing cycle that is odd w.r.t. the current witness */
cycle_t phase(size_t k)
__CPROVER_requires(k < csd && csd <= MAXC)
__CPROVER_assigns(WIT[k])
__CPROVER_ensures(__CPROVER_return_value.exists == 1 && PAR(support[k] & __CPROVER_return_value.edges) == 1)
__CPROVER_ensures(__CPROVER_return_value.weight == PW[k] && WIT[k] == support[k])
;
"""

HARNESS = r"""
size_t vp_in_csd;
void h_main(void) {
  __CPROVER_assume(csd <= MAXC);
  for (size_t i = 0; i <= MAXC; i++) __CPROVER_assume(PW[i] > 0 && PW[i] < 1000000000L);
  vp_in_csd = csd;
  mainloop();
  __CPROVER_assert(vp_emitted == csd, "K16.count: exactly csd cycles are emitted");
  W sum = 0;
  for (size_t j = 0; j < MAXC; j++) if (j < csd) {
    sum += PW[j];
    __CPROVER_assert(PAR(WIT[j] & EMITTED[j]) == 1, "K16.diagonal: <W_j, C_j> = 1");
    for (size_t i = 0; i < MAXC; i++) if (i < j)
      __CPROVER_assert(PAR(WIT[j] & EMITTED[i]) == 0, "K16.lower-triangular: <W_j, C_i> = 0 for i < j  (=> the emitted cycles are linearly independent)");
  }
  __CPROVER_assert(mcb_weight == sum, "K16.weight: the returned value is the sum of the weights of the emitted cycles");
  __CPROVER_assert(0, "VP_REACH end of harness");
}
"""

COMMON_RULES = [
    (r"std::size_t", "size_t", (2, 6), "type-binding", ""),
    (r"support\.emplace_back\((\w+)\);", r"support[\1] = 1UL << \1;", 1, "container-api", "SpVecGF2(i): the unit vector e_i (K1)"),
    (r"(?:cycle_timer|support_timer|trees_timer)\.(?:resume|stop)\(\);", "", (0, 8), "drop", "timers"),
    (r"std::set<size_t> cyclek;\s*convert_edges\(std::get<0>\(best\), std::inserter\(cyclek, cyclek\.end\(\)\), forest_index\);",
     "unsigned long cyclek = GET0(best);", 1, "container-api", "coordinates of the cycle's edges under the ForestIndex bijection (K15)"),
    (r"support\[([^\]]+)\] \* cyclek", r"PAR(support[\1] & cyclek)", 1, "overload-resolution", "SpVecGF2::operator*(set) = its contract K3"),
    (r"support\[([^\]]+)\] \+= support\[([^\]]+)\]", r"support[\1] ^= support[\2]", 1, "overload-resolution", "SpVecGF2::operator+= = its contract K2"),
    (r"std::list<Edge> cyclek_edgelist;\s*std::copy\(std::get<0>\(best\)\.begin\(\), std::get<0>\(best\)\.end\(\), std::back_inserter\(cyclek_edgelist\)\);", "", 1,
     "drop", "copy of the edge set into the output list"),
    (r"\*out\+\+ = cyclek_edgelist;", "EMITTED[vp_emitted++] = GET0(best);", 1, "container-api", "output iterator"),
    (r"mcb_weight \+= std::get<1>\(best\);", "mcb_weight += GET1(best);", 1, "overload-resolution", ""),
]


def _signed(maxc):
    log = []
    rel = "include/parmcb/parmcb_sva_signed.hpp"
    text = X.canon(X.src(rel), MAINLOOP, log)
    init = X.stmt_after(text, r"std::vector<SpVecGF2<std::size_t>> support;", r"\bfor\s*\(", "support initialisation (signed)")
    main = X.stmt_after(text, r"WeightType mcb_weight = WeightType\(\);", r"\bfor\s*\(", "main loop (signed)")
    main = X.rewrite(main, [
        (r"cycle_timer\.resume\(\);.*?cycle_timer\.stop\(\);", "cycle_t best = phase(k);", 1, "block-abstraction",
         "the shortest-odd-cycle phase (proved separately: K10_phase_signed_seq) -> its contract"),
        (r"auto min_support = k;", "size_t min_support = k;", 1, "type-binding", ""),
        (r"auto r = k \+ 1", "size_t r = k + 1", (0, 1), "type-binding", ""),
        (r"\bauto (\w+) =", r"size_t \1 =", (0, 2), "type-binding", "remaining auto locals are size_t"),
        (r"support\[([^\]]+)\]\.size\(\)", r"POP(support[\1])", (2, 4), "overload-resolution", "SpVecGF2::size()"),
        (r"std::swap\(support\[(\w+)\], support\[(\w+)\]\);", r"{ unsigned long t_ = support[\1]; support[\1] = support[\2]; support[\2] = t_; }", 1,
         "overload-resolution", "std::swap of two vectors"),
    ], log)
    body = X.rewrite(init + "\n" + main, COMMON_RULES, log)
    txt = PRE % dict(MAXC=maxc) + "void mainloop(void) {\n  mcb_weight = 0; vp_emitted = 0;\n" + body + "\n}\n" + HARNESS
    return dict(unit="K16_mainloop_signed", lang="c", source=rel + " (support initialisation + main loop, phase abstracted by its contract)",
                text=txt, entry="h_main", replace=["phase"], mode="bounded", unwind=maxc + 2, timeout=1800,
                bound="cycle-space dimension csd <= %d (all loops unwound), 64-coordinate view" % maxc, rewrites=log,
                dropped=["timers; logging; the phase block (contract)"],
                functions={"mcb_sva_signed: main loop composition (independence argument)": "bounded(csd<=%d)" % maxc},
                assumptions=["phase contract = K9/K10 (parity of the returned cycle w.r.t. the witness; bounded stand-in e3_search) + K15 (edge<->coordinate bijection)",
                             "SpVecGF2 operators inlined as their contracts K1-K3"],
                trusted=["cbmc 6.11 SAT back end; goto-instrument DFCC for the replaced call"])


def _trees(maxc):
    log = []
    rel = "include/parmcb/parmcb_sva_trees.hpp"
    text = X.canon(X.src(rel), MAINLOOP, log)
    init = X.stmt_after(text, r"std::vector<SpVecGF2<std::size_t>> support;", r"\bfor\s*\(", "support initialisation (trees)")
    main = X.stmt_after(text, r"WeightType mcb_weight = WeightType\(\);", r"\bfor\s*\(", "main loop (trees)")
    main = X.inline_temps(X.strip_logging(main, log), log)
    main = X.rewrite(main, [
        (r"std::set<Edge> signed_edges;\s*convert_edges\(support\[k\], std::inserter\(signed_edges, signed_edges\.end\(\)\), forest_index\);", "", 1,
         "drop", "witness as edge set (K15)"),
        (r"(?:const )?std::tuple<std::set<Edge>, WeightType, bool> best = cycle_lookup\(signed_edges\);", "cycle_t best = phase(k);", 1, "block-abstraction",
         "ShortestOddCycleLookup (K11 units) -> its contract"),
    ], log)
    body = X.rewrite(init + "\n" + main, COMMON_RULES, log)
    txt = PRE % dict(MAXC=maxc) + "void mainloop(void) {\n  mcb_weight = 0; vp_emitted = 0;\n" + body + "\n}\n" + HARNESS
    return dict(unit="K16_mainloop_trees", lang="c", source=rel + " (_mcb_sva_trees: support initialisation + main loop, lookup abstracted by its contract)",
                text=txt, entry="h_main", replace=["phase"], mode="bounded", unwind=maxc + 2, timeout=1800,
                bound="cycle-space dimension csd <= %d (all loops unwound), 64-coordinate view" % maxc, rewrites=log,
                dropped=["timers; logging; the lookup call (contract)"],
                functions={"_mcb_sva_trees: main loop composition (independence argument)": "bounded(csd<=%d)" % maxc},
                assumptions=["lookup contract = K11 (odd candidate w.r.t. the witness) + K15", "SpVecGF2 operators inlined as their contracts K1-K3"],
                trusted=["cbmc 6.11 SAT back end; goto-instrument DFCC for the replaced call"])


def _signed_tbb(maxc):
    """mcb_sva_signed_tbb: concurrent initialisation (arbitrary push order = arbitrary permutation of the unit vectors),
    swap without early break, update through parallel_for (TBB contract: the body runs over a partition of the range; one
    task over the whole range is used here, the per-task frame/functional contract is K5)."""
    log = []
    rel = "include/parmcb/parmcb_sva_signed_tbb.hpp"
    text = X.canon(X.src(rel), MAINLOOP, log)
    i0 = text.index("mcb_sva_signed_tbb(const Graph &g, WeightMap weight_map")
    text = text[i0:]
    init = X.stmt_after(text, r"tbb::concurrent_vector<SpVecGF2<std::size_t>> support;", r"tbb::parallel_for\s*\(", "concurrent support initialisation")
    main = X.stmt_after(text, r"WeightType mcb_weight = WeightType\(\);", r"\bfor\s*\(", "main loop (signed tbb)")
    main = X.strip_logging(main, log)
    def lower_parallel_for(t):
        """tbb::parallel_for(blocked_range(lo,hi), [&](const blocked_range &r){BODY}) -> BODY over the whole (non-empty) range"""
        out, n = "", 0
        while True:
            m = re.search(r"tbb::parallel_for\s*\(", t)
            if not m:
                return out + t, n
            i = t.index("(", m.start()); j = X._match_close(t, i, "(", ")")
            args = X.call_args(t[m.start():j + 1])
            mr = re.match(r"tbb::blocked_range<(?:std::)?size_t>\((.*),\s*(.*)\)$", args[0], re.S)
            ml = re.match(r"\[&\]\s*\(const tbb::blocked_range<(?:std::)?size_t> &(\w+)\)\s*\{", args[1])
            if len(args) != 2 or not mr or not ml:
                raise Undecided("extraction out of date: shape of a tbb::parallel_for call")
            body = X.body_after(args[1], r"\[&\]\s*\([^)]*\)\s*", "parallel_for body")
            r = ml.group(1)
            body = re.sub(r"\b%s\.begin\(\)" % r, "vp_rb", body); body = re.sub(r"\b%s\.end\(\)" % r, "vp_re", body)
            out += t[:m.start()] + "{ size_t vp_rb = (%s), vp_re = (%s); if (vp_rb < vp_re) { %s } }" % (mr.group(1).strip(), mr.group(2).strip(), body)
            t = t[j + 1:]
            n += 1
    both, npf = lower_parallel_for(init + ";\n" + main)
    if npf != 2:
        raise Undecided("extraction out of date: %d parallel_for calls in initialisation + main loop (expected 2)" % npf)
    log.append(dict(pattern="tbb::parallel_for(range, body)", fired=npf, expected=2, kind="container-api",
                    note="the body applied to the (non-empty) range - TBB contract; partition into sub-ranges is K5's business"))
    both = X.rewrite(both, [
        (r"std::size_t", "size_t", (3, 14), "type-binding", ""),
        (r"support\.push_back\(SpVecGF2<size_t> \{ (\w+) \}\);", r"support[vp_pos++] = 1UL << PERM[\1];", 1, "container-api",
         "concurrent push_back of the unit vectors: arbitrary order = an arbitrary permutation PERM of the coordinates"),
        (r"cycle_timer\.resume\(\);\s*auto cycle = odd_cycle_finder\.find\(support\[k\]\);\s*cycle_timer\.stop\(\);", "cycle_t cycle = phase(k);", 1,
         "block-abstraction", "OddCycleFinder::find (K8/K8a/K9 units) -> its contract"),
        (r"auto min_support = k;", "size_t min_support = k;", 1, "type-binding", ""),
        (r"\bauto (\w+) =", r"size_t \1 =", (1, 3), "type-binding", "remaining auto locals are size_t"),
        (r"support\[([^\]]+)\]\.size\(\)", r"POP(support[\1])", 2, "overload-resolution", "SpVecGF2::size()"),
        (r"std::swap\(support\[(\w+)\], support\[(\w+)\]\);", r"{ unsigned long t_ = support[\1]; support[\1] = support[\2]; support[\2] = t_; }", 1,
         "overload-resolution", "std::swap"),
        (r"(?:cycle_timer|support_timer)\.(?:resume|stop)\(\);", "", (0, 6), "drop", "timers"),
        (r"std::set<size_t> cyclek;\s*convert_edges\(std::get<0>\(cycle\), std::inserter\(cyclek, cyclek\.end\(\)\), forest_index\);",
         "unsigned long cyclek = GET0(cycle);", 1, "container-api", "coordinates of the cycle's edges (K15)"),
        (r"support\[([^\]]+)\] \* cyclek", r"PAR(support[\1] & cyclek)", 1, "overload-resolution", "K3"),
        (r"support\[([^\]]+)\] \+= support\[([^\]]+)\]", r"support[\1] ^= support[\2]", 1, "overload-resolution", "K2"),
        (r"std::list<Edge> cyclek_edgelist;\s*std::copy\(std::get<0>\(cycle\)\.begin\(\), std::get<0>\(cycle\)\.end\(\), std::back_inserter\(cyclek_edgelist\)\);", "", 1,
         "drop", "copy into the output list"),
        (r"\*out\+\+ = cyclek_edgelist;", "EMITTED[vp_emitted++] = GET0(cycle);", 1, "container-api", "output iterator"),
        (r"mcb_weight \+= std::get<1>\(cycle\);", "mcb_weight += GET1(cycle);", 1, "overload-resolution", ""),
    ], log)
    extra = "size_t PERM[MAXC + 1]; size_t vp_pos;\n"
    harness = HARNESS.replace("  vp_in_csd = csd;", "  for (size_t a = 0; a <= MAXC; a++) { __CPROVER_assume(PERM[a] < MAXC + 1 && (a >= csd || PERM[a] < csd)); for (size_t b = 0; b <= MAXC; b++) __CPROVER_assume(a == b || PERM[a] != PERM[b]); }\n  vp_pos = 0;\n  vp_in_csd = csd;")
    txt = PRE % dict(MAXC=maxc) + extra + "void mainloop(void) {\n  mcb_weight = 0; vp_emitted = 0;\n" + both + "\n}\n" + harness
    return dict(unit="K16_mainloop_signed_tbb", lang="c", source=rel + " (mcb_sva_signed_tbb: concurrent initialisation + main loop, find() abstracted by its contract)",
                text=txt, entry="h_main", replace=["phase"], mode="bounded", unwind=maxc + 3, timeout=1800,
                bound="cycle-space dimension csd <= %d, arbitrary initial order of the unit vectors" % maxc, rewrites=log,
                dropped=["timers; logging; OddCycleFinder construction"],
                functions={"mcb_sva_signed_tbb: main loop composition (independence argument)": "bounded(csd<=%d)" % maxc},
                assumptions=["find() contract = K8/K9 (odd cycle w.r.t. the witness) + K15", "TBB contract for parallel_for; concurrent push_back order = arbitrary permutation",
                             "SpVecGF2 operators inlined as their contracts K1-K3"],
                trusted=["cbmc 6.11 SAT back end; goto-instrument DFCC for the replaced call"])


def _lc_variant(spec, maxc, scan_loop=True, tbb=False):
    """Loop-contract variant of a K16 unit: the same extracted text, the loops closed by contracts whose invariants are quantified over
    the bounded cycle-space dimension; the triangular-incidence clauses become the postcondition of the main loop function."""
    from units.k17b_bfs import _fresh
    txt = spec["text"]
    a = txt.index("void mainloop(void) {")
    b = txt.index("size_t vp_in_csd;")
    body = txt[a + len("void mainloop(void) {"):txt.rindex("}", a, b)]
    sumpw = lambda lim: "(" + " + ".join("((%d < (%s)) ? PW[%d] : 0)" % (i, lim, i) for i in range(maxc)) + ")"
    tri = ("ALLC(qj, qj < k ==> (PAR(WIT[qj] & EMITTED[qj]) == 1 && ALLC2(qi, qi < qj ==> PAR(WIT[qj] & EMITTED[qi]) == 0)))")
    orth = "ALLC(ql, (ql >= %s && ql < csd) ==> ALLC2(qe, qe < k ==> PAR(support[ql] & EMITTED[qe]) == 0))"
    inv_init = "__CPROVER_assigns(k, __CPROVER_object_whole(support))\n__CPROVER_loop_invariant(k <= csd && ALLC(qa, qa < k ==> support[qa] == (1UL << qa)))\n__CPROVER_decreases(csd - k)"
    inv_main = ("__CPROVER_assigns(k, vp_emitted, mcb_weight, __CPROVER_object_whole(support), __CPROVER_object_whole(EMITTED), __CPROVER_object_whole(WIT))\n"
                "__CPROVER_loop_invariant(k <= csd && vp_emitted == k && mcb_weight == SUMPW(k) && %s && %s)\n__CPROVER_decreases(csd - k)" % (tri, orth % "k"))
    inv_scan = "__CPROVER_assigns(r, min_support)\n__CPROVER_loop_invariant(k + 1 <= r && r <= csd && k <= min_support && min_support < csd)\n__CPROVER_decreases(csd - r)"
    inv_upd = ("__CPROVER_assigns(l, __CPROVER_object_whole(support))\n"
               "__CPROVER_loop_invariant(k + 1 <= l && l <= csd && support[k] == WIT[k] && PAR(support[k] & cyclek) == 1 && ALLC2(qz, qz < k ==> PAR(support[k] & EMITTED[qz]) == 0)"
               " && ALLC(qm, (qm > k && qm < l) ==> PAR(support[qm] & cyclek) == 0) && %s)\n__CPROVER_decreases(csd - l)" % (orth % "k + 1"))
    if tbb:
        # concurrent initialisation lowered to one task over the whole range (push position vp_pos), update lowered likewise (loop variable i, bound e)
        # the names of the task-local loop variable / bound are read from the lowered headers (they are locals of the lambda bodies)
        import re
        hs = [body[x:y + 1] for x, y in X.loops(body)]
        mi = re.match(r"for \(size_t (\w+) = vp_rb; \1 != vp_re; \1\+\+\)$", hs[0]) if hs else None
        mu = re.match(r"for \(size_t (\w+) = vp_rb; \1 != (\w+); \1\+\+\)$", hs[-1]) if hs else None
        if not mi or not mu:
            raise Undecided("extraction out of date: shape of the task loops of mcb_sva_signed_tbb (%s)" % "; ".join(h[:60] for h in hs))
        iv, (uv, ue) = mi.group(1), mu.groups()
        inv_init = ("__CPROVER_assigns(%(i)s, vp_pos, __CPROVER_object_whole(support))\n__CPROVER_loop_invariant(vp_rb <= %(i)s && %(i)s <= vp_re && vp_re == csd && vp_rb == 0 && vp_pos == %(i)s)\n__CPROVER_decreases(vp_re - %(i)s)" % dict(i=iv))
        inv_upd = inv_upd.replace("__CPROVER_assigns(l,", "__CPROVER_assigns(%s," % uv).replace("k + 1 <= l && l <= csd", "k + 1 <= %s && %s <= csd && %s == csd && vp_re == csd" % (uv, uv, ue)).replace("qm < l)", "qm < %s)" % uv).replace("__CPROVER_decreases(csd - l)", "__CPROVER_decreases(csd - %s)" % uv)
    contracts = {0: inv_init, 1: inv_main, 2: inv_scan, 3: inv_upd} if scan_loop else {0: inv_init, 1: inv_main, 2: inv_upd}
    log = list(spec.get("rewrites", []))
    if len(X.loops(body)) != len(contracts):
        raise Undecided("extraction out of date: main loop text has %d loops (%d expected)" % (len(X.loops(body)), len(contracts)))
    body = X.splice_loop_contracts(body, contracts, log)
    fn = r"""
#define ALLC(c, body) __CPROVER_forall { size_t c; (c < MAXC) ==> (body) }
#define ALLC2(c, body) __CPROVER_forall { size_t c; (c < MAXC) ==> (body) }
#define SUMPW(lim) %(SUMPW)s
void mainloop(void)
__CPROVER_requires(csd <= MAXC && ALLC(rp, PW[rp] > 0 && PW[rp] < 1000000000L))
__CPROVER_assigns(vp_emitted, mcb_weight, %(EXTRA)s__CPROVER_object_whole(support), __CPROVER_object_whole(EMITTED), __CPROVER_object_whole(WIT))
/* exactly csd cycles; returned value = sum of the weights the phases reported */
__CPROVER_ensures(vp_emitted == csd && mcb_weight == SUMPW(csd))
/* unit lower-triangular incidence of witnesses and emitted cycles => the emitted cycles are linearly independent */
__CPROVER_ensures(ALLC(pj, pj < csd ==> (PAR(WIT[pj] & EMITTED[pj]) == 1 && ALLC2(pi, pi < pj ==> PAR(WIT[pj] & EMITTED[pi]) == 0))))
{%(BODY)s}
size_t vp_in_csd;
void h_main(void) {
  vp_in_csd = csd;
  mainloop();
  __CPROVER_assert(0, "VP_REACH end of harness");
}
""" % dict(SUMPW=sumpw("lim"), BODY=body, EXTRA="vp_pos, " if tbb else "")
    if tbb:
        fn = fn.replace("__CPROVER_requires(csd <= MAXC && ", "__CPROVER_requires(csd <= MAXC && vp_pos == 0 && ALLC(rq, PERM[rq] < 64) && ")
    out = dict(spec)
    out.update(unit=spec["unit"] + "_lc", text=txt[:a] + _fresh(fn), enforce="mainloop", loop_contracts=True, mode="proof", unwind=20, split=8, timeout=2400,
               flags=["--object-bits", "12"], rewrites=log,
               bound="proved(csd<=%d): all loops closed by loop contracts with invariants quantified over the cycle-space dimension; 64-coordinate view" % maxc,
               functions={k.replace("bounded", "proved").split("(")[0] + " (loop contracts)": "proved(csd<=%d)" % maxc for k in spec["functions"]})
    return out


def units(tier):
    # loop-contract variants (quantified invariants): csd <= 8 in ~20 s, 10 in ~1 min, 12 in ~5 min, 16 does not finish in 25 min;
    # the unwound variants (csd <= 5 / 4) remain as the bounded fallback that decides a failed loop obligation
    mc = 10 if tier == "thorough" else 8
    def mk(base_fn, fb_mc, **kw):
        def build():
            spec = _lc_variant(base_fn(mc), mc, **kw)
            spec["fallback"] = lambda: base_fn(fb_mc)
            return spec
        return build
    return [X.guarded("K16_mainloop_signed_lc", mk(_signed, 5)), X.guarded("K16_mainloop_trees_lc", mk(_trees, 5, scan_loop=False)),
            X.guarded("K16_mainloop_signed_tbb_lc", mk(_signed_tbb, 4, tbb=True))]
