"""K16 (composition): the MAIN LOOP of mcb_sva_signed and of _mcb_sva_trees with their real loop bodies - support
initialisation, sparsest-support swap, support update, output and weight accumulation are the extracted code - and
only the search for the shortest odd cycle replaced by its contract (K9/K10/K11 + the ForestIndex bijection K15):
"returns an existing cycle whose coordinate set is odd w.r.t. the current witness support[k], with some weight".
Bounded by unwinding (cycle-space dimension csd <= MAXC): the independence ARGUMENT of C01 checked on the composed
real code: with W_j the witness used in phase j and C_i the i-th emitted cycle,
      <W_j, C_j> = 1   and   <W_j, C_i> = 0 for all i < j        (unit lower-triangular => C_0..C_{csd-1} independent),
exactly csd cycles are emitted and the returned value is the sum of the weights the phases reported.
SpVecGF2 is its 64-coordinate view (operators inlined as their contracts K1-K3)."""
import re
from lib import xtract as X
from lib.core import Undecided

PRE = r"""
#include <stddef.h>
typedef _Bool bool;
#define true 1
#define false 0
#define MAXC %(MAXC)s
typedef long W;
typedef struct { unsigned long edges; W weight; bool exists; } cycle_t;
#define GET0(c) ((c).edges)
#define GET1(c) ((c).weight)
#define GET2(c) ((c).exists)
#define PAR(x) ((int)(__builtin_popcountll(x) & 1))
#define POP(x) ((size_t)__builtin_popcountll(x))
unsigned long support[MAXC + 1];           /* view of std::vector<SpVecGF2<size_t>> support */
unsigned long EMITTED[MAXC + 1]; size_t vp_emitted;    /* coordinate sets of the cycles written to `out` */
unsigned long WIT[MAXC + 1];               /* ghost: witness in force when phase k searched */
W PW[MAXC + 1];                            /* ghost: weight reported by phase k */
size_t csd; W mcb_weight;
/* K9/K10/K11 + K15: the search returns an existing cycle that is odd w.r.t. the current witness */
cycle_t phase(size_t k)
__CPROVER_requires(k < csd && csd <= MAXC)
__CPROVER_assigns(WIT[k])
__CPROVER_ensures(__CPROVER_return_value.exists == 1 && PAR(support[k] & __CPROVER_return_value.edges) == 1)
__CPROVER_ensures(__CPROVER_return_value.weight == PW[k] && WIT[k] == support[k])
;
"""

HARNESS = r"""
size_t vp_in_csd;
void h_main(void) {
  __CPROVER_assume(csd <= MAXC);
  for (size_t i = 0; i <= MAXC; i++) __CPROVER_assume(PW[i] > 0 && PW[i] < 1000000000L);
  vp_in_csd = csd;
  mainloop();
  __CPROVER_assert(vp_emitted == csd, "K16.count: exactly csd cycles are emitted");
  W sum = 0;
  for (size_t j = 0; j < MAXC; j++) if (j < csd) {
    sum += PW[j];
    __CPROVER_assert(PAR(WIT[j] & EMITTED[j]) == 1, "K16.diagonal: <W_j, C_j> = 1");
    for (size_t i = 0; i < MAXC; i++) if (i < j)
      __CPROVER_assert(PAR(WIT[j] & EMITTED[i]) == 0, "K16.lower-triangular: <W_j, C_i> = 0 for i < j  (=> the emitted cycles are linearly independent)");
  }
  __CPROVER_assert(mcb_weight == sum, "K16.weight: the returned value is the sum of the weights of the emitted cycles");
  __CPROVER_assert(0, "VP_REACH end of harness");
}
"""

COMMON_RULES = [
    (r"std::size_t", "size_t", (2, 6), "type-binding", ""),
    (r"support\.emplace_back\((\w+)\);", r"support[\1] = 1UL << \1;", 1, "container-api", "SpVecGF2(i): the unit vector e_i (K1)"),
    (r"(?:cycle_timer|support_timer|trees_timer)\.(?:resume|stop)\(\);", "", (0, 8), "drop", "timers"),
    (r"std::set<size_t> cyclek;\s*convert_edges\(std::get<0>\(best\), std::inserter\(cyclek, cyclek\.end\(\)\), forest_index\);",
     "unsigned long cyclek = GET0(best);", 1, "container-api", "coordinates of the cycle's edges under the ForestIndex bijection (K15)"),
    (r"support\[([^\]]+)\] \* cyclek", r"PAR(support[\1] & cyclek)", 1, "overload-resolution", "SpVecGF2::operator*(set) = its contract K3"),
    (r"support\[([^\]]+)\] \+= support\[([^\]]+)\]", r"support[\1] ^= support[\2]", 1, "overload-resolution", "SpVecGF2::operator+= = its contract K2"),
    (r"std::list<Edge> cyclek_edgelist;\s*std::copy\(std::get<0>\(best\)\.begin\(\), std::get<0>\(best\)\.end\(\), std::back_inserter\(cyclek_edgelist\)\);", "", 1,
     "drop", "copy of the edge set into the output list"),
    (r"\*out\+\+ = cyclek_edgelist;", "EMITTED[vp_emitted++] = GET0(best);", 1, "container-api", "output iterator"),
    (r"mcb_weight \+= std::get<1>\(best\);", "mcb_weight += GET1(best);", 1, "overload-resolution", ""),
]


def _signed(maxc):
    log = []
    rel = "include/parmcb/parmcb_sva_signed.hpp"
    text = X.src(rel)
    init = X.stmt_after(text, r"std::vector<SpVecGF2<std::size_t>> support;", r"\bfor\s*\(", "support initialisation (signed)")
    main = X.stmt_after(text, r"WeightType mcb_weight = WeightType\(\);", r"\bfor\s*\(", "main loop (signed)")
    main = X.rewrite(main, [
        (r"cycle_timer\.resume\(\);.*?cycle_timer\.stop\(\);", "cycle_t best = phase(k);", 1, "block-abstraction",
         "the shortest-odd-cycle phase (proved separately: K10_phase_signed_seq) -> its contract"),
        (r"auto min_support = k;", "size_t min_support = k;", 1, "type-binding", ""),
        (r"auto r = k \+ 1", "size_t r = k + 1", (0, 1), "type-binding", ""),
        (r"\bauto (\w+) =", r"size_t \1 =", (0, 2), "type-binding", "remaining auto locals are size_t"),
        (r"support\[([^\]]+)\]\.size\(\)", r"POP(support[\1])", (2, 4), "overload-resolution", "SpVecGF2::size()"),
        (r"std::swap\(support\[(\w+)\], support\[(\w+)\]\);", r"{ unsigned long t_ = support[\1]; support[\1] = support[\2]; support[\2] = t_; }", 1,
         "overload-resolution", "std::swap of two vectors"),
    ], log)
    body = X.rewrite(init + "\n" + main, COMMON_RULES, log)
    txt = PRE % dict(MAXC=maxc) + "void mainloop(void) {\n  mcb_weight = 0; vp_emitted = 0;\n" + body + "\n}\n" + HARNESS
    return dict(unit="K16_mainloop_signed", lang="c", source=rel + " (support initialisation + main loop, phase abstracted by its contract)",
                text=txt, entry="h_main", replace=["phase"], mode="bounded", unwind=maxc + 2, timeout=1800,
                bound="cycle-space dimension csd <= %d (all loops unwound), 64-coordinate view" % maxc, rewrites=log,
                dropped=["timers; logging; the phase block (contract)"],
                functions={"mcb_sva_signed: main loop composition (independence argument)": "bounded(csd<=%d)" % maxc},
                assumptions=["phase contract = K9/K10 (parity of the returned cycle w.r.t. the witness; bounded stand-in e3_search) + K15 (edge<->coordinate bijection)",
                             "SpVecGF2 operators inlined as their contracts K1-K3"],
                trusted=["cbmc 6.11 SAT back end; goto-instrument DFCC for the replaced call"])


def _trees(maxc):
    log = []
    rel = "include/parmcb/parmcb_sva_trees.hpp"
    text = X.src(rel)
    init = X.stmt_after(text, r"std::vector<SpVecGF2<std::size_t>> support;", r"\bfor\s*\(", "support initialisation (trees)")
    main = X.stmt_after(text, r"WeightType mcb_weight = WeightType\(\);", r"\bfor\s*\(", "main loop (trees)")
    main = X.strip_logging(main, log)
    main = X.rewrite(main, [
        (r"std::set<Edge> signed_edges;\s*convert_edges\(support\[k\], std::inserter\(signed_edges, signed_edges\.end\(\)\), forest_index\);", "", 1,
         "drop", "witness as edge set (K15)"),
        (r"std::tuple<std::set<Edge>, WeightType, bool> best = cycle_lookup\(signed_edges\);", "cycle_t best = phase(k);", 1, "block-abstraction",
         "ShortestOddCycleLookup (K11 units) -> its contract"),
    ], log)
    body = X.rewrite(init + "\n" + main, COMMON_RULES, log)
    txt = PRE % dict(MAXC=maxc) + "void mainloop(void) {\n  mcb_weight = 0; vp_emitted = 0;\n" + body + "\n}\n" + HARNESS
    return dict(unit="K16_mainloop_trees", lang="c", source=rel + " (_mcb_sva_trees: support initialisation + main loop, lookup abstracted by its contract)",
                text=txt, entry="h_main", replace=["phase"], mode="bounded", unwind=maxc + 2, timeout=1800,
                bound="cycle-space dimension csd <= %d (all loops unwound), 64-coordinate view" % maxc, rewrites=log,
                dropped=["timers; logging; the lookup call (contract)"],
                functions={"_mcb_sva_trees: main loop composition (independence argument)": "bounded(csd<=%d)" % maxc},
                assumptions=["lookup contract = K11 (odd candidate w.r.t. the witness) + K15", "SpVecGF2 operators inlined as their contracts K1-K3"],
                trusted=["cbmc 6.11 SAT back end; goto-instrument DFCC for the replaced call"])


def units(tier):
    # the SAT instance grows quickly with csd (csd<=6: 23 s, csd<=7: > 400 s for the signed loop)
    big = tier == "thorough"
    return [X.guarded("K16_mainloop_signed", _signed, 6 if big else 5), X.guarded("K16_mainloop_trees", _trees, 7 if big else 5)]
