"""K19 fp<T>::ext_gcd, K20 fp<T>::get_mult_inverse, K21 primes<T>::is_prime (include/parmcb/fp.hpp).

The function bodies are copied verbatim; `T &a` parameters are bound by `#define a (*a_p)` so the
body text is untouched.  Kept: the repository's own assert under PARMCB_INVARIANTS_CHECK (becomes a
proof obligation).  `throw new std::runtime_error("..")` -> VP_THROW("..") (ghost flag + return)."""
import re
from lib import xtract as X
from lib import native


def _num(v):
    m = re.match(r"-?\d+", v or "")
    return m.group(0) if m else "0"


def _replay_gcd(vals, failed):
    return native.replay_run("e3_fp", ["--replay-gcd", _num(vals.get("vp_in_a")), _num(vals.get("vp_in_b"))], dict(libs=()))


def _replay_prime(vals, failed):
    return native.replay_run("e3_fp", ["--replay-prime", _num(vals.get("vp_in_p"))], dict(libs=()))


def _replay_inv(vals, failed):
    return native.replay_run("e3_fp", ["--replay-inv", _num(vals.get("vp_in_a")), _num(vals.get("vp_in_p"))], dict(libs=()))

COMMON = r"""
#include <stddef.h>
#define PARMCB_INVARIANTS_CHECK
#define true 1
#define false 0
typedef _Bool bool;
#define assert(c) __CPROVER_assert((c), "repository assert (PARMCB_INVARIANTS_CHECK)")
int vp_thrown;
#define VP_THROW(msg) do { vp_thrown = 1; return 0; } while (0)
"""

THROW_RULE = (r"throw new std::runtime_error\((\"[^\"]*\")\);", r"VP_THROW(\1);", None, "exceptions",
              "throw new std::runtime_error -> ghost flag + return")


def _ext_gcd_body(log):
    text = X.src("include/parmcb/fp.hpp")
    body = X.body_after(text, r"T fp<T>::ext_gcd\(T &a, T &b, T &x, T &y\)\s*", "fp::ext_gcd")
    body = X.rewrite(body, [(r"std::size_t", "size_t", (1, 4), "type-binding", "std::size_t -> size_t")], log)
    return body


EXT_GCD_FN = r"""
typedef %(T)s T;
typedef %(WIDE)s WIDE;
T vp_in_a, vp_in_b;
#define a (*a_p)
#define b (*b_p)
#define x (*x_p)
#define y (*y_p)
T ext_gcd(T *a_p, T *b_p, T *x_p, T *y_p)
__CPROVER_requires(__CPROVER_is_fresh(a_p, sizeof(T)) && __CPROVER_is_fresh(b_p, sizeof(T)) && __CPROVER_is_fresh(x_p, sizeof(T)) && __CPROVER_is_fresh(y_p, sizeof(T)))
__CPROVER_requires(!(a == 0 && b == 0))
__CPROVER_requires(a > T_MIN && b > T_MIN)            /* machine integers: -T_MIN is not representable */
__CPROVER_requires(%(DOMAIN)s)
__CPROVER_requires(vp_in_a == a && vp_in_b == b)      /* ghost capture of the inputs for the replay */
__CPROVER_assigns(a, b, x, y)
__CPROVER_ensures(__CPROVER_return_value > 0)
/* Bezout identity over the ORIGINAL arguments, in wide arithmetic */
__CPROVER_ensures((WIDE)__CPROVER_old(a) * (WIDE)x + (WIDE)__CPROVER_old(b) * (WIDE)y == (WIDE)__CPROVER_return_value)
/* the returned value divides both arguments */
__CPROVER_ensures(__CPROVER_old(a) %% __CPROVER_return_value == 0 && __CPROVER_old(b) %% __CPROVER_return_value == 0)
{%(BODY)s}
#undef a
#undef b
#undef x
#undef y
void h_gcd(void) {
  T a0, b0, x0, y0, n1, n2;
  %(INIT)s
  vp_in_a = n1; vp_in_b = n2;
  T g = ext_gcd(&a0, &b0, &x0, &y0);
  (void) g;
  __CPROVER_assert(0, "VP_REACH end of harness");
}
"""


def _gcd_unit(kind, tier):
    log = []
    body = _ext_gcd_body(log)
    if kind == "shortcut":
        T, WIDE, TMIN = "long", "__int128", "(-9223372036854775807L-1)"
        dom = "a == 0 || b == 0"
        # on the a==0 path the code leaves x unassigned (and y on the b==0 path): the caller's value is used,
        # so the harness initialises both to 0 as get_mult_inverse would see after zero-initialisation
        init = ""
        mode, bound, unwind = "proof", "all 64-bit pairs with a==0 or b==0 (the paths that return before the loop; loop unreachable)", 1
        name = "K19_ext_gcd_shortcut_int64"
        fstat = "proved (zero-argument paths, all int64)"
        to = 300
    else:
        lim = 63 if tier == "quick" else 127
        unw = 10 if tier == "quick" else 12
        T, WIDE, TMIN = "int", "long", "(-2147483647-1)"
        dom = "a >= -%d && a <= %d && b >= -%d && b <= %d" % (lim, lim, lim, lim)
        init = ""
        mode, bound, unwind = "bounded", "|a|,|b| <= %d, int32, Euclid loop unwound %d times with unwinding assertions" % (lim, unw), unw
        name = "K19_ext_gcd_loop_bounded"
        fstat = "bounded(|a|,|b|<=%d)" % lim
        to = 900
    txt = COMMON + "#define T_MIN %s\n" % TMIN + EXT_GCD_FN % dict(T=T, WIDE=WIDE, DOMAIN=dom, BODY=body, INIT=init)
    return dict(unit=name, site="K19_ext_gcd", lang="c", source="include/parmcb/fp.hpp fp<T>::ext_gcd", text=txt, entry="h_gcd",
                enforce="ext_gcd", unwind=unwind, mode=mode, bound=bound, rewrites=log, timeout=to,
                dropped=["template header; reference parameters bound by #define a (*a_p) etc."],
                functions={"fp<T>::ext_gcd [%s]" % kind: fstat},
                assumptions=["T is a two's-complement machine integer; arguments > T_MIN (negation overflow otherwise); "
                             "multiprecision T is only reached by the native bounded stand-in"],
                trusted=["cbmc 6.11 SAT back end"], replay=_replay_gcd)


def _inv_unit():
    log = []
    text = X.src("include/parmcb/fp.hpp")
    body = X.body_after(text, r"T fp<T>::get_mult_inverse\(T &a, T &p\)\s*", "fp::get_mult_inverse")
    r = list(THROW_RULE); r[2] = 2
    body = X.rewrite(body, [tuple(r),
                            (r"fp<T>::ext_gcd\((\w+), (\w+), (\w+), (\w+)\)", r"ext_gcd(&(\1), &(\2), &(\3), &(\4))", 1, "type-binding",
                             "reference arguments passed as pointers (a, p are bound to *a_p, *p_p)")], log)
    fn = r"""
typedef long T;
#define T_MIN (-9223372036854775807L-1)
/* ghost record of the callee's contract instance (written by K19's ensures) */
T vp_g_a, vp_g_b, vp_g_x, vp_g_ret; int vp_g_calls;
T ext_gcd(T *a_p, T *b_p, T *x_p, T *y_p)
__CPROVER_requires(__CPROVER_r_ok(a_p, sizeof(T)) && __CPROVER_r_ok(b_p, sizeof(T)) && __CPROVER_w_ok(x_p, sizeof(T)) && __CPROVER_w_ok(y_p, sizeof(T)))
__CPROVER_requires(!(*a_p == 0 && *b_p == 0))
__CPROVER_requires(*a_p > T_MIN && *b_p > T_MIN)
__CPROVER_assigns(*a_p, *b_p, *x_p, *y_p, vp_g_a, vp_g_b, vp_g_x, vp_g_ret, vp_g_calls)
__CPROVER_ensures(__CPROVER_return_value > 0)
__CPROVER_ensures(vp_g_a == __CPROVER_old(*a_p) && vp_g_b == __CPROVER_old(*b_p) && vp_g_x == *x_p && vp_g_ret == __CPROVER_return_value)
__CPROVER_ensures(vp_g_calls == __CPROVER_old(vp_g_calls) + 1)
;
T vp_in_a, vp_in_p;
#define a (*a_p)
#define p (*p_p)
T get_mult_inverse(T *a_p, T *p_p)
__CPROVER_requires(__CPROVER_is_fresh(a_p, sizeof(T)) && __CPROVER_is_fresh(p_p, sizeof(T)))
__CPROVER_requires(a > T_MIN && vp_thrown == 0 && vp_g_calls == 0)
__CPROVER_requires(vp_in_a == a && vp_in_p == p)
__CPROVER_assigns(a, p, vp_thrown, vp_g_a, vp_g_b, vp_g_x, vp_g_ret, vp_g_calls)
/* p <= 0 is rejected */
__CPROVER_ensures(__CPROVER_old(p) <= 0 ==> vp_thrown)
/* otherwise ext_gcd is consulted exactly once on exactly (a, p) */
__CPROVER_ensures(__CPROVER_old(p) > 0 ==> (vp_g_calls == 1 && vp_g_a == __CPROVER_old(a) && vp_g_b == __CPROVER_old(p)))
/* throws iff gcd != 1, and returns exactly the Bezout coefficient of a */
__CPROVER_ensures(__CPROVER_old(p) > 0 ==> (vp_thrown == (vp_g_ret != 1)))
__CPROVER_ensures((__CPROVER_old(p) > 0 && !vp_thrown) ==> __CPROVER_return_value == vp_g_x)
{%s}
#undef a
#undef p
void h_inv(void) {
  T a0, p0, n1, n2;
  vp_in_a = n1; vp_in_p = n2;
  T r = get_mult_inverse(&a0, &p0);
  (void) r;
  __CPROVER_assert(0, "VP_REACH end of harness");
}
""" % body
    return dict(unit="K20_get_mult_inverse", lang="c", source="include/parmcb/fp.hpp fp<T>::get_mult_inverse",
                text=COMMON + fn, entry="h_inv", enforce="get_mult_inverse", replace=["ext_gcd"], mode="proof",
                bound="all int64 (a > T_MIN), loop-free, against K19's contract", rewrites=log, timeout=300,
                dropped=["template header; reference parameters"],
                functions={"fp<T>::get_mult_inverse": "proved against K19's contract"},
                assumptions=["the step from Bezout (a*x + p*y = 1) to a*x = 1 (mod p) is the arithmetic lemma p*y mod p = 0, checked natively, not by CBMC"],
                trusted=["cbmc 6.11 SAT back end"], replay=_replay_inv)


def _prime_unit(tier):
    log = []
    text = X.src("include/parmcb/fp.hpp")
    body = X.body_after(text, r"static bool is_prime\(const T &p\)\s*", "primes::is_prime")
    r = list(THROW_RULE); r[2] = 1
    body = X.rewrite(body, [
        tuple(r),
        (r"\bT\(sqrt\(p\)\)", r"((T)(vp_sqrt(p)))", 1, "type-binding", "T(x) -> cast; sqrt -> its contract (libm assumed)"),
        (r"\bT\((\d+)\)", r"((T)(\1))", 3, "type-binding", "T(literal) -> cast"),
    ], log)
    lim = 256 if tier == "quick" else 1024
    unw = 20 if tier == "quick" else 36
    fn = r"""
typedef int T;
#define LIM %d
/* libm sqrt + conversion to T: floor of the real square root (assumed contract) */
T vp_sqrt(T v)
__CPROVER_requires(v >= 0)
__CPROVER_ensures(__CPROVER_return_value >= 0 && __CPROVER_return_value <= 46340)
__CPROVER_ensures(__CPROVER_return_value * __CPROVER_return_value <= v && (__CPROVER_return_value + 1) * (__CPROVER_return_value + 1) > v)
__CPROVER_assigns()
;
T vp_in_p;
_Bool is_prime(const T p)
__CPROVER_requires(p >= 2 && p < LIM && vp_thrown == 0)
__CPROVER_assigns(vp_thrown)
__CPROVER_ensures(!vp_thrown)
__CPROVER_ensures(__CPROVER_return_value == __CPROVER_forall { int d; (2 <= d && d < LIM) ==> (d < p ==> p %% d != 0) })
{%s}
void h_prime(void) {
  T p0; vp_in_p = p0;
  _Bool r = is_prime(p0);
  (void) r;
  __CPROVER_assert(0, "VP_REACH end of harness");
}
""" % (lim, body)
    return dict(unit="K21_is_prime_bounded", site="K21_is_prime", lang="c", source="include/parmcb/fp.hpp primes<T>::is_prime",
                text=COMMON + fn, entry="h_prime", enforce="is_prime", replace=["vp_sqrt"], unwind=unw, mode="bounded",
                bound="2 <= p < %d, int32, trial-division loop unwound %d times" % (lim, unw), rewrites=log, timeout=600,
                dropped=["template header; class wrapper"],
                functions={"primes<T>::is_prime": "bounded(p<%d)" % lim},
                assumptions=["sqrt + conversion returns the floor square root (libm trusted)"],
                trusted=["cbmc 6.11 SAT back end"], replay=_replay_prime)


def units(tier):
    G = X.guarded
    return [G("K19_ext_gcd_shortcut_int64", _gcd_unit, "shortcut", tier),
            G("K19_ext_gcd_loop_bounded", _gcd_unit, "loop", tier),
            G("K20_get_mult_inverse", _inv_unit),
            G("K21_is_prime_bounded", _prime_unit, tier)]
