"""K1-K3: every public operation of parmcb::SpVecGF2 (include/parmcb/spvecgf2.hpp), E2 route: the
UNMODIFIED header goes through CBMC's C++ front end with stub std headers (stubs/cxx = the assumed
contract of the standard library).  Only preprocessor substitutions are applied:
   -Dauto=const_iterator   (every `auto` in this header declares a const_iterator; counted)
   -Dprivate=public        (the harness builds arbitrary canonical representation states)
C++ mode rejects contract syntax, so each contract is enforced at harness level: requires ->
__CPROVER_assume over a symbolic state, ensures -> __CPROVER_assert after the call, frame ->
"argument unchanged" assertions.  Loops are unwound: bounded by the vector length."""
import os, re
from lib import xtract as X
from lib import native
from lib.core import VERIF, REPO, Undecided

HDR = "include/parmcb/spvecgf2.hpp"
EXPECTED_AUTO = 6

HARNESS = r"""
#include <parmcb/spvecgf2.hpp>
typedef unsigned long U;
typedef parmcb::SpVecGF2<U> V;
typedef std::set<U> S;
U nondet_U();
unsigned long nondet_len();
/* requires: arbitrary CANONICAL representation state of length n (not only constructor-reachable ones) */
static void mk(V &v, unsigned long n) {
  U prev = 0;
  for (unsigned long i = 0; i < n; i++) { U x = nondet_U(); __CPROVER_assume(i == 0 || x > prev); v.ones.push_back(x); prev = x; }
}
static void mkset(S &s, unsigned long n) {
  U prev = 0;
  for (unsigned long i = 0; i < n; i++) { U x = nondet_U(); __CPROVER_assume(i == 0 || x > prev); s.data_[i] = x; prev = x; }
  s.n_ = n;
}
/* ghost capture of the inputs for the native replay */
U vp_in_a[VP_CAP + 1], vp_in_b[VP_CAP + 1], vp_in_k; unsigned long vp_in_na, vp_in_nb;
static void capA(const V &v) { vp_in_na = v.ones.n_; for (unsigned long i = 0; i < v.ones.n_; i++) vp_in_a[i] = v.ones.data_[i]; }
static void capB(const V &v) { vp_in_nb = v.ones.n_; for (unsigned long i = 0; i < v.ones.n_; i++) vp_in_b[i] = v.ones.data_[i]; }
static void capS(const S &v) { vp_in_nb = v.n_; for (unsigned long i = 0; i < v.n_; i++) vp_in_b[i] = v.data_[i]; }
static bool member(const V &v, U k) { bool r = false; for (unsigned long i = 0; i < v.ones.n_; i++) if (v.ones.data_[i] == k) r = true; return r; }
static bool smember(const S &s, U k) { bool r = false; for (unsigned long i = 0; i < s.n_; i++) if (s.data_[i] == k) r = true; return r; }
static bool canon(const V &v) { for (unsigned long i = 1; i < v.ones.n_; i++) if (!(v.ones.data_[i - 1] < v.ones.data_[i])) return false; return true; }
static bool same(const V &a, const V &b) { if (a.ones.n_ != b.ones.n_) return false; for (unsigned long i = 0; i < a.ones.n_; i++) if (a.ones.data_[i] != b.ones.data_[i]) return false; return true; }

extern "C" void h_add_dot() {            /* K2 operator+ , K3 operator*(vec) */
  V a, b; mk(a, NA); mk(b, NB); capA(a); capB(b);
  V a0(a), b0(b);
  V r = a + b;
  U k = nondet_U();                      /* ghost coordinate: "for arbitrary k" */
  __CPROVER_assert(canon(r), "K2.plus.canon: result strictly increasing");
  __CPROVER_assert(member(r, k) == (member(a0, k) != member(b0, k)), "K2.plus.view: k in a+b <=> k in exactly one operand");
  __CPROVER_assert(r.size() == r.ones.n_ && r.size() <= NA + NB, "K2.plus.size");
  __CPROVER_assert(same(a, a0) && same(b, b0), "K2.plus.frame: operands unchanged");
  int par = a * b;
  unsigned long cnt = 0; for (unsigned long i = 0; i < a0.ones.n_; i++) if (member(b0, a0.ones.data_[i])) cnt++;
  __CPROVER_assert(par == (int)(cnt % 2), "K3.dot.vec: parity of the common coordinates");
  __CPROVER_assert(par == 0 || par == 1, "K3.dot.vec: result in {0,1}");
  __CPROVER_assert(same(a, a0) && same(b, b0), "K3.dot.vec.frame: operands unchanged");
  __CPROVER_assert(0, "VP_REACH end of harness");
}
extern "C" void h_addassign_dotset() {   /* K2 operator+= , K3 operator*(set) */
  V a, b; mk(a, NA); mk(b, NB); capA(a); capB(b);
  S s; mkset(s, NB);
  V a0(a), b0(b);
  U k = nondet_U();
  int par = a * s;
  unsigned long cnt = 0; for (unsigned long i = 0; i < a0.ones.n_; i++) if (smember(s, a0.ones.data_[i])) cnt++;
  __CPROVER_assert(par == (int)(cnt % 2), "K3.dot.set: parity of the common coordinates");
  __CPROVER_assert(same(a, a0), "K3.dot.set.frame: vector unchanged");
  V &ret = (a += b);
  __CPROVER_assert(&ret == &a, "K2.pluseq.returns *this");
  __CPROVER_assert(canon(a), "K2.pluseq.canon");
  __CPROVER_assert(member(a, k) == (member(a0, k) != member(b0, k)), "K2.pluseq.view: symmetric difference");
  __CPROVER_assert(a.size() == a.ones.n_, "K2.pluseq.size");
  __CPROVER_assert(same(b, b0), "K2.pluseq.frame: right operand unchanged");
  __CPROVER_assert(0, "VP_REACH end of harness");
}
extern "C" void h_self() {               /* aliasing: a += a is the zero vector, a = a keeps a, a * a = |a| mod 2 */
  V a; mk(a, NA);
  V a0(a);
  int par = a * a;
  __CPROVER_assert(par == (int)(NA % 2), "K3.dot.self");
  a = a;
  __CPROVER_assert(same(a, a0), "K1.assign.self: self-assignment keeps the vector");
  a += a;
  __CPROVER_assert(a.size() == 0, "K2.pluseq.self: a += a is the zero vector");
  __CPROVER_assert(0, "VP_REACH end of harness");
}
extern "C" void h_append() {             /* K1: add(pos) appends a coordinate beyond the last one */
  unsigned long n = nondet_len(); __CPROVER_assume(n <= NA);
  V a; mk(a, n); capA(a);
  V a0(a);
  U pos = nondet_U(), k = nondet_U();
  __CPROVER_assume(n == 0 || pos > a.ones.data_[n - 1]);      /* precondition of add(): beyond the last coordinate */
  a.add(pos);
  __CPROVER_assert(canon(a), "K1.add.canon: still strictly increasing");
  __CPROVER_assert(a.size() == n + 1 && member(a, k) == (member(a0, k) || k == pos), "K1.add.view: the old coordinates and pos");
  __CPROVER_assert(0, "VP_REACH end of harness");
}
extern "C" void h_unary() {              /* K1: constructors, assignment, clear; symbolic length <= NA */
  unsigned long n = nondet_len(); __CPROVER_assume(n <= NA);
  V a; mk(a, n);
  V a0(a);
  U k = nondet_U(), i = nondet_U();
  __CPROVER_assert(same(a0, a) && canon(a0), "K1.copy-ctor: copy equals the source, source unchanged");
  V u(i);
  __CPROVER_assert(u.size() == 1 && member(u, k) == (k == i) && canon(u), "K1.unit-ctor: view = {i}");
  V z;
  __CPROVER_assert(z.size() == 0 && !member(z, k), "K1.default-ctor: zero vector");
  S s; unsigned long ns = nondet_len(); __CPROVER_assume(ns <= NA); mkset(s, ns);
  V fs(s);
  __CPROVER_assert(canon(fs) && fs.size() == ns && member(fs, k) == smember(s, k), "K1.set-ctor: view = the set");
  V b; b = a;
  __CPROVER_assert(same(b, a0) && same(a, a0), "K1.copy-assign");
  V c; c = std::move(b);
  __CPROVER_assert(same(c, a0), "K1.move-assign: target holds the source's value");
  V d(std::move(c));
  __CPROVER_assert(same(d, a0), "K1.move-ctor: target holds the source's value");
  __CPROVER_assert(d.end() - d.begin() == (long) d.size(), "K1.begin/end delimit size() elements");
  d.clear();
  __CPROVER_assert(d.size() == 0 && !member(d, k), "K1.clear: zero vector");
  __CPROVER_assert(same(a, a0), "K1.frame: source never modified");
  __CPROVER_assert(0, "VP_REACH end of harness");
}
"""


def _count_auto():
    text = X.src(HDR)
    n = len(re.findall(r"\bauto\b", text))
    if n != EXPECTED_AUTO:
        raise Undecided("extraction out of date: %s has %d `auto` declarations, the -Dauto=const_iterator binding was validated for %d"
                        % (HDR, n, EXPECTED_AUTO))
    return n


def _replay(vals, failed):
    def vec(prefix, n):
        out = []
        for i in range(n):
            for k, v in vals.items():
                m = re.match(r"%s\[(\d+)\w*\]$" % prefix, k)
                if m and int(m.group(1)) == i:
                    out.append(re.sub(r"[a-zA-Z]+$", "", v))
        return ",".join(out) or "-"
    na = int(re.sub(r"\D", "", vals.get("vp_in_na", "0")) or 0)
    nb = int(re.sub(r"\D", "", vals.get("vp_in_nb", "0")) or 0)
    return native.replay_run("e3_spvec", ["--replay", vec("vp_in_a", na), vec("vp_in_b", nb)], dict(libs=()))


def _unit(entry, na, nb, tag, fn_status, timeout):
    n = _count_auto()
    cap = max(1, na + nb, na, nb)
    return dict(unit="K1-3_spvecgf2_%s_%s" % (entry[2:], tag), site="SpVecGF2::" + entry[2:], lang="cpp",
                source=HDR + " (unmodified, #included)", text=HARNESS, entry=entry, mode="bounded",
                bound="vector lengths (%s), coordinates unconstrained 64-bit, loops unwound %d" % (tag, cap + 2),
                unwind=cap + 2, timeout=timeout, flags=["--drop-unused-functions"],
                cc_flags=["-nostdinc", "-I", os.path.join(VERIF, "stubs/cxx"), "-I", os.path.join(REPO, "include"),
                          "-Dauto=const_iterator", "-Dprivate=public", "-DNA=%d" % na, "-DNB=%d" % nb, "-DVP_CAP=%d" % cap],
                rewrites=[dict(pattern="-Dauto=const_iterator", fired=n, expected=EXPECTED_AUTO, kind="type-binding",
                               note="CBMC's C++ front end does not deduce auto; every auto in this header is a const_iterator"),
                          dict(pattern="-Dprivate=public", fired=1, expected=1, kind="access", note="harness builds arbitrary canonical states")],
                dropped=["nothing of the header; serialize() and operator<< are templates that are never instantiated"],
                functions=fn_status, replay=_replay,
                assumptions=["stubs/cxx <vector>,<set> are the assumed contract of the standard containers (fixed capacity = bound)",
                             "SpVecGF2::add() is not called by the library; it is a public member and has its own unit (h_append) since the repair of its assertion"],
                trusted=["cbmc 6.11 C++ front end + SAT back end"])


def units(tier):
    N = 3 if tier == "quick" else 4
    out = []
    G = X.guarded
    for na in range(N + 1):
        for nb in range(N + 1):
            tag = "%dx%d" % (na, nb)
            to = 600 if tier == "quick" else 1800
            out.append(G("K1-3_spvecgf2_add_dot_" + tag, _unit, "h_add_dot", na, nb, tag,
                         {"SpVecGF2::operator+": "bounded(len<=%d)" % N, "SpVecGF2::operator*(vec)": "bounded(len<=%d)" % N}, to))
            out.append(G("K1-3_spvecgf2_addassign_dotset_" + tag, _unit, "h_addassign_dotset", na, nb, tag,
                         {"SpVecGF2::operator+=": "bounded(len<=%d)" % N, "SpVecGF2::operator*(set)": "bounded(len<=%d)" % N}, to))
    for na in range(N + 2):
        out.append(G("K1-3_spvecgf2_self_%d" % na, _unit, "h_self", na, 0, "%d" % na,
                     {"SpVecGF2 aliasing (a+=a, a=a, a*a)": "bounded(len<=%d)" % (N + 1)}, 600))
    out.append(G("K1-3_spvecgf2_append", _unit, "h_append", N, 1, "upto%d" % N, {"SpVecGF2::add": "bounded(len<=%d)" % N}, 600))
    out.append(G("K1-3_spvecgf2_unary", _unit, "h_unary", N + 1, 0, "upto%d" % (N + 1),
                 {"SpVecGF2 ctors/assign/move/clear/begin/end": "bounded(len<=%d)" % (N + 1)}, 900))
    return out
