"""Loop-free arithmetic helpers behind C02/C12: detail::closed_plus::operator() and the scalar
prefix (distance, edge_count) of detail::LexDistanceCompare::operator().  Full domain => proof."""
from lib import xtract as X


def _closed_plus(W, wname, inf, log):
    text = X.src("include/parmcb/detail/util.hpp")
    body = X.body_after(text, r"T operator\(\)\(const T &a, const T &b\) const\s*", "closed_plus::operator()")
    body = X.rewrite(body, [(r"using namespace std;", "", 1, "drop", "using-directive")], log)
    pre = "typedef %s T;\nstatic const T inf = %s;\n" % (W, inf)
    if W == "double":
        req = "__CPROVER_requires(a == a && b == b && a >= 0 && b >= 0 && a <= inf && b <= inf)"
        ens = "__CPROVER_ensures((a != inf && b != inf) ==> __CPROVER_return_value == a + b)"
    else:
        req = "__CPROVER_requires(a >= 0 && b >= 0 && ((a != inf && b != inf) ==> a <= inf - b))"
        ens = "__CPROVER_ensures((a != inf && b != inf) ==> __CPROVER_return_value == a + b)"
    fn = pre + r"""
T closed_plus(const T a, const T b)
%s
__CPROVER_ensures((a == inf || b == inf) ==> __CPROVER_return_value == inf)
%s
__CPROVER_ensures(__CPROVER_return_value >= a && __CPROVER_return_value >= b)   /* monotone: never below an operand */
__CPROVER_assigns()
{%s}
T vp_in_a, vp_in_b;
void h_cp(void) { T a, b; vp_in_a = a; vp_in_b = b; T r = closed_plus(a, b); (void) r; __CPROVER_assert(0, "VP_REACH end"); }
""" % (req, ens, body)
    return fn


def _lex_prefix(W, log):
    text = X.src("include/parmcb/detail/lex_dijkstra.hpp")
    body = X.body_after(text, r"struct LexDistanceCompare \{.*?bool operator\(\)\(const LexDistance<Graph, DistanceMap> &a, const LexDistance<Graph, DistanceMap> &b\)\s*",
                        "LexDistanceCompare::operator()")
    # keep the scalar prefix verbatim; the set-difference tail becomes one call of an abstract function
    idx = body.find("std::set<std::size_t> non_common_a;")
    if idx < 0:
        from lib.core import Undecided
        raise Undecided("extraction out of date: set-difference tail of LexDistanceCompare not found")
    prefix = body[:idx]
    log.append(dict(pattern="std::set<std::size_t> non_common_a; ... end", replacement="return vp_tail(a, b);", fired=1,
                    expected=1, kind="abstraction", note="set-difference tail abstracted to an unconstrained boolean function (its order laws are checked natively in C12)"))
    fn = r"""
#include <stddef.h>
typedef %s D;
typedef struct { D distance; size_t edge_count; int vertex_indices_id; } lexdist;
_Bool vp_tail(lexdist a, lexdist b)     /* arbitrary result: contract says nothing */
__CPROVER_ensures(1) __CPROVER_assigns();
#define LEXLT(a,b) ((a).distance < (b).distance || ((a).distance == (b).distance && (a).edge_count < (b).edge_count))
_Bool lexcmp(const lexdist a, const lexdist b)
__CPROVER_requires(a.distance == a.distance && b.distance == b.distance)
__CPROVER_ensures(LEXLT(a, b) ==> __CPROVER_return_value)
__CPROVER_ensures(LEXLT(b, a) ==> !__CPROVER_return_value)
{%s
  return vp_tail(a, b);
}
lexdist vp_in_a, vp_in_b;
void h_lex(void) { lexdist a, b; vp_in_a = a; vp_in_b = b; _Bool r = lexcmp(a, b); (void) r; __CPROVER_assert(0, "VP_REACH end"); }
#define true 1
#define false 0
""" % (W, prefix)
    # true/false must be defined before use
    fn = "#define true 1\n#define false 0\n" + fn.replace("#define true 1\n#define false 0\n", "")
    return fn


def units(tier):
    out = []
    for W, wname, inf in (("double", "double", "1.7976931348623157e308"), ("int", "int", "2147483647"),
                          ("unsigned long", "size_t", "18446744073709551615UL")):
        def mk(W=W, wname=wname, inf=inf):
            log = []
            fn = _closed_plus(W, wname, inf, log)
            return dict(unit="K12_closed_plus_" + wname, lang="c", source="include/parmcb/detail/util.hpp closed_plus::operator()",
                        text="#define true 1\n#define false 0\n" + fn, entry="h_cp", enforce="closed_plus", mode="proof", timeout=600,
                        rewrites=log, dropped=["template header, struct wrapper, reference-ness of parameters"],
                        functions={"closed_plus<%s>::operator()" % wname: "proved"},
                        assumptions=["finite operands do not overflow the weight type (int: a <= inf - b); weights non-negative and not NaN"],
                        trusted=["cbmc 6.11 SAT back end"])
        out.append(X.guarded("K12_closed_plus_" + wname, mk))
    for W in ("double", "int"):
        def mk2(W=W):
            log = []
            fn = _lex_prefix(W, log)
            return dict(unit="K12_lexcompare_prefix_" + W, lang="c", source="include/parmcb/detail/lex_dijkstra.hpp LexDistanceCompare::operator()",
                        text=fn, entry="h_lex", enforce="lexcmp", replace=["vp_tail"], mode="proof", timeout=600, rewrites=log,
                        dropped=["template header; set-difference tail (abstracted)"],
                        functions={"LexDistanceCompare scalar prefix <%s>" % W: "proved"},
                        assumptions=["distances are not NaN"], trusted=["cbmc 6.11 SAT back end"])
        out.append(X.guarded("K12_lexcompare_prefix_" + W, mk2))
    return out
