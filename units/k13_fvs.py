"""K13: parmcb::greedy_fvs (include/parmcb/detail/fvs.hpp) as an E1 unit: all eight loops closed by loop contracts whose
invariants are quantified over the bounded vertex range (n <= MAXN; the SAT back end instantiates `__CPROVER_forall` over
a constant range) and use explicit bounded sums for "number of existing neighbours".

Binding: vertices are ordinals; the graph is a symmetric, irreflexive adjacency relation ADJM with out-edge lists
ADJ[u][0..DEG0[u]) (each neighbour exactly once, position table POS) - a simple undirected graph, as the library
requires; `exists` / `degree` are the arrays EX / DG.  std::deque forRemoval is an abstract multiset given by the
contract of the four operations used (push_front, empty, front, pop_front: front/pop return SOME contained element - a
superset of the real LIFO behaviour); the pairing heap is an abstract set whose top() is SOME element (the priorities
are doubles whose order the property does not depend on; writes to the priority map are dropped), decrease() requires
its handle to denote a vertex that is in the heap.

Proved:
  A  on return no vertex exists any more; every vertex is emitted at most once and only while it existed
  B  (ghost assertion at each of the three cleanup removals) a vertex that is removed WITHOUT being emitted has at
     most one neighbour that still exists at that moment
  C  (ghost assertion between the first cleanup and the main loop) every vertex that still exists has at least two
     existing neighbours
  D  heap.decrease is only applied to vertices that are in the heap; degree counters never underflow
Informal lemmas (DESIGN 10.9): B => the graph without the emitted vertices is acyclic (on a cycle of never-emitted
vertices, the one removed first would have had two existing neighbours); C => for a forest nothing is emitted (a
non-empty graph in which every vertex has two neighbours contains a cycle)."""
import re
from lib import xtract as X
from lib.core import Undecided


def _sum(n, term):
    return "(" + " + ".join("(%s ? 1 : 0)" % term.replace("@", str(i)) for i in range(n)) + ")"


def _pre(maxn):
    cnt = _sum(maxn, "(@ < vp_n && ADJM[v][@] && EX[@])")
    return r"""
#include <stddef.h>
typedef _Bool bool;
#define true 1
#define false 0
#define MAXN %(MAXN)d
size_t vp_n;
bool ADJM[MAXN][MAXN]; size_t DEG0[MAXN], ADJ[MAXN][MAXN], POS[MAXN][MAXN];
bool EX[MAXN]; size_t DG[MAXN];
size_t EMIT[MAXN], vp_nemit;
#define CNT(v) %(CNT)s
#define ALLV(v, body) __CPROVER_forall { size_t v; (v < MAXN) ==> ((v < vp_n) ==> (body)) }
/* ---- std::deque<Vertex> forRemoval as a multiset: MULT[v] copies of v, dn elements in total */
size_t MULT[MAXN], dn, vp_front;
void dq_push(size_t v)
__CPROVER_requires(v < vp_n && MULT[v] < 1000)
__CPROVER_assigns(MULT[v], dn)
__CPROVER_ensures(MULT[v] == __CPROVER_old(MULT[v]) + 1 && dn == __CPROVER_old(dn) + 1)
;
bool dq_empty(void)
__CPROVER_assigns()
__CPROVER_ensures(__CPROVER_return_value == (dn == 0))
__CPROVER_ensures(__CPROVER_return_value ==> __CPROVER_forall { size_t dq_e; (dq_e < MAXN) ==> MULT[dq_e] == 0 })
;
size_t dq_front(void)
__CPROVER_requires(dn > 0)
__CPROVER_assigns(vp_front)
__CPROVER_ensures(__CPROVER_return_value < vp_n && MULT[__CPROVER_return_value] > 0 && vp_front == __CPROVER_return_value)
;
void dq_pop(void)
__CPROVER_requires(dn > 0 && vp_front < vp_n && MULT[vp_front] > 0)
__CPROVER_assigns(MULT[vp_front], dn)
__CPROVER_ensures(MULT[vp_front] == __CPROVER_old(MULT[vp_front]) - 1 && dn == __CPROVER_old(dn) - 1)
;
/* ---- boost::heap::pairing_heap as a set: INHEAP, hn elements; top() is SOME element */
bool INHEAP[MAXN]; size_t hn, vp_top;
void heap_push(size_t v)
__CPROVER_requires(v < vp_n && !INHEAP[v])
__CPROVER_assigns(INHEAP[v], hn)
__CPROVER_ensures(INHEAP[v] && hn == __CPROVER_old(hn) + 1)
;
bool heap_empty(void)
__CPROVER_assigns()
__CPROVER_ensures(__CPROVER_return_value == (hn == 0))
__CPROVER_ensures(__CPROVER_return_value ==> __CPROVER_forall { size_t hp_e; (hp_e < MAXN) ==> !INHEAP[hp_e] })
;
size_t heap_top(void)
__CPROVER_requires(hn > 0)
__CPROVER_assigns(vp_top)
__CPROVER_ensures(__CPROVER_return_value < vp_n && INHEAP[__CPROVER_return_value] && vp_top == __CPROVER_return_value)
;
void heap_pop(void)
__CPROVER_requires(hn > 0 && vp_top < vp_n && INHEAP[vp_top])
__CPROVER_assigns(INHEAP[vp_top], hn)
__CPROVER_ensures(!INHEAP[vp_top] && hn == __CPROVER_old(hn) - 1)
;
void heap_decrease(size_t v)
__CPROVER_requires(v < vp_n && INHEAP[v])      /* the handle must denote an element of the heap */
__CPROVER_assigns()
;
size_t vp_flip, vp_phase;
""" % dict(MAXN=maxn, CNT=cnt)


# ---- invariant building blocks ---------------------------------------------------------------------------------------
EMITF = "ALLV(qv, EMIT[qv] <= 1 && (EMIT[qv] == 1 ==> !EX[qv]))"
QUEUED = "ALLV(qv, (MULT[qv] > 0 ==> ((EX[qv] ==> DG[qv] <= 1) && (!EX[qv] ==> CNT(qv) == 0))) && ((MULT[qv] >= 2 && EX[qv]) ==> DG[qv] == 0) && MULT[qv] <= 2)"
LOWQ = "ALLV(qv, (EX[qv] && DG[qv] <= 1) ==> MULT[qv] > 0)"
EXACT = "ALLV(qv, EX[qv] ==> DG[qv] == CNT(qv))"
INHEAPF = "ALLV(qv, EX[qv] ==> INHEAP[qv])"
NOHEAP = "ALLV(qv, !INHEAP[qv]) && hn == 0"


def _pend(r):
    # inside the scan of r's out-edge list: neighbours at slots >= ei still count r although EX[r] is already false
    return ("ALLV(qv, EX[qv] ==> DG[qv] == CNT(qv) + ((vp_flip && ADJM[%(r)s][qv] && POS[%(r)s][qv] >= ei) ? 1 : 0))"
            " && (!vp_flip ==> CNT(%(r)s) == 0) && %(r)s < vp_n && !EX[%(r)s] && ei <= eiRange_second && eiRange_second == DEG0[%(r)s] && eiRange_u == %(r)s" % dict(r=r))



def _unit(bounded, maxn):
    log = []
    rel = "include/parmcb/detail/fvs.hpp"
    text = X.src(rel)
    body = X.body_after(text, r"void greedy_fvs\(const Graph &g, VertexOutputIterator out\)\s*", "greedy_fvs")
    i = body.find("std::size_t n = boost::num_vertices(g);")
    if i < 0:
        raise Undecided("extraction out of date: start of greedy_fvs")
    body = body[i:]
    body = X.canon(body, [(r"std::deque<Vertex> (\w+);", ["forRemoval"]), (r"VertexIt (\w+), (\w+);", ["vi", "viend"])], log)
    body = X.inline_temps(body, log)
    body = X.rewrite(body, [
        (r"std::size_t n = boost::num_vertices\(g\);", "size_t n = vp_n;", 1, "container-api", ""),
        (r"std::vector<bool> exists\(n\);", "", 1, "container-api", "vector<bool> -> array EX"),
        (r"std::vector<std::size_t> degree\(n\);", "", 1, "container-api", "vector -> array DG"),
        (r"std::vector<HeapHandleType> handle\(n\);", "", 1, "container-api", "handles: a handle is the vertex it was returned for"),
        (r"std::map<Vertex, double> priority;", "", 1, "drop", "priority map (only its order matters; top() is SOME element)"),
        (r"boost::heap::pairing_heap<Vertex, boost::heap::compare<detail::LessVertex<Vertex>>> heap\(\s*detail::LessVertex<Vertex> \{ priority \}\);", "", 1, "container-api", "heap -> its contract"),
        (r"const VertexIndexMapType &index_map = boost::get\(boost::vertex_index, g\);", "", 1, "container-api", "vertex index map = identity (vecS)"),
        (r"boost::associative_property_map<std::map<Vertex, double>> priority_map\(priority\);", "", 1, "drop", ""),
        (r"std::deque<Vertex> forRemoval;", "", 1, "container-api", "deque -> its contract"),
        (r"VertexIt vi, viend;", "size_t vi, viend;", 1, "container-api", ""),
        (r"boost::tie\(vi, viend\) = boost::vertices\(g\)", "vi = 0, viend = vp_n", 2, "container-api", "vertex range = ordinals"),
        (r"auto v = \*vi;", "size_t v = vi;", 2, "container-api", ""),
        (r"auto (\w+) = index_map\[(\w+)\];", r"size_t \1 = \2;", (6, 9), "container-api", "index map = identity"),
        (r"auto d = boost::out_degree\(v, g\);", "size_t d = DEG0[v];", 1, "container-api", ""),
        (r"\bexists\[", "EX[", (8, 16), "container-api", ""),
        (r"\bdegree\[", "DG[", (8, 20), "container-api", ""),
        (r"priority\[\w+\] = 1\.0 / [^;]+;", "", (2, 6), "drop", "priority writes"),
        (r"forRemoval\.push_front\((\w+)\);", r"dq_push(\1);", (3, 8), "container-api", ""),
        (r"!forRemoval\.empty\(\)", "!dq_empty()", 2, "container-api", ""),
        (r"Vertex u = forRemoval\.front\(\);", "size_t u = dq_front();", 2, "container-api", ""),
        (r"forRemoval\.pop_front\(\);", "dq_pop();", 2, "container-api", ""),
        (r"auto eiRange = boost::out_edges\((\w+), g\);", r"size_t eiRange_u = \1, eiRange_second = DEG0[\1];", 2, "container-api", "out_edges(x,g) = slots 0..DEG0[x] of x's list"),
        (r"\beiRange = boost::out_edges\((\w+), g\);", r"eiRange_u = \1; eiRange_second = DEG0[\1];", 1, "container-api", ""),
        (r"for \(auto ei = eiRange\.first; ei != eiRange\.second; ei\+\+\)", "for (size_t ei = 0; ei != eiRange_second; ei++)", 3, "container-api", ""),
        (r"auto (\w+) = boost::target\(\*ei, g\);", r"size_t \1 = ADJ[eiRange_u][ei];", 3, "container-api", "far endpoint of the out-edge at this slot"),
        (r"handle\[vindex\] = heap\.push\(v\);", "heap_push(v);", 1, "container-api", ""),
        (r"!heap\.empty\(\)", "!heap_empty()", 1, "container-api", ""),
        (r"auto v = heap\.top\(\);", "size_t v = heap_top();", 1, "container-api", ""),
        (r"heap\.pop\(\);", "heap_pop();", 1, "container-api", ""),
        (r"\*out\+\+ = v;", "EMIT[v]++; vp_nemit++;", 1, "ghost", "output iterator + ghost emission count"),
        (r"(EMIT\[v\]\+\+; vp_nemit\+\+;\s*(?://[^\n]*\n\s*)*)EX\[vindex\] = false;", r"\1vp_flip = 1; EX[vindex] = 0;", 1, "ghost", "removal by emission"),
        (r"EX\[(\w+)\] = false;", lambda m: 'vp_flip = EX[%s]; __CPROVER_assert(!EX[%s] || CNT(%s) <= 1, "K13.B: a vertex removed without being emitted has at most one existing neighbour"); EX[%s] = 0;' % ((m.group(1),) * 4),
         (1, 4), "ghost", "every other removal + ghost assertion B"),
        (r"std::size_t", "size_t", (0, 6), "type-binding", ""),
        (r"heap\.decrease\(handle\[(\w+)\]\);", r"heap_decrease(\1);", (1, 4), "container-api", ""),
    ], log)
    # ghost assertion C between the first cleanup and the loop that fills the heap: at the second `for (vi = 0 ...`
    marks = [m.start() for m in re.finditer(r"for \(vi = 0, viend = vp_n;", body)]
    if len(marks) != 2:
        raise Undecided("extraction out of date: the two vertex loops of greedy_fvs")
    body = (body[:marks[1]] + "__CPROVER_assert(ALLV(vc, EX[vc] ==> CNT(vc) >= 2), \"K13.C: after the first cleanup every remaining vertex has at least two remaining neighbours\");\n            "
            + body[marks[1]:])
    A_DQ = "dn, __CPROVER_object_whole(MULT)"
    A_ALL = "vp_flip, vp_front, vp_top, vp_nemit, hn, " + A_DQ + ", __CPROVER_object_whole(EX), __CPROVER_object_whole(DG), __CPROVER_object_whole(EMIT), __CPROVER_object_whole(INHEAP)"
    invs = {}
    # L0: initialisation
    invs[0] = ("__CPROVER_assigns(vi, %s, __CPROVER_object_whole(EX), __CPROVER_object_whole(DG))\n"
               "__CPROVER_loop_invariant(vi <= vp_n && viend == vp_n && ALLV(qv, (qv < vi ==> (EX[qv] && DG[qv] == DEG0[qv] && MULT[qv] == (DEG0[qv] <= 1 ? 1 : 0))) && (qv >= vi ==> MULT[qv] == 0)) && dn <= vi)\n"
               "__CPROVER_decreases(vp_n - vi)" % A_DQ)
    # L1: first cleanup (no heap yet)
    common1 = " && ".join(["ALLV(qv, EMIT[qv] == 0)", QUEUED, LOWQ, NOHEAP])
    invs[1] = ("__CPROVER_assigns(vp_flip, vp_front, %s, __CPROVER_object_whole(EX), __CPROVER_object_whole(DG))\n"
               "__CPROVER_loop_invariant(%s && %s)" % (A_DQ, common1, EXACT))
    invs[2] = ("__CPROVER_assigns(ei, %s, __CPROVER_object_whole(DG))\n"
               "__CPROVER_loop_invariant(%s && %s)\n__CPROVER_decreases(eiRange_second - ei)" % (A_DQ, common1, _pend("u")))
    # L3: fill the heap
    invs[3] = ("__CPROVER_assigns(vi, hn, __CPROVER_object_whole(INHEAP))\n"
               "__CPROVER_loop_invariant(vi <= vp_n && viend == vp_n && dn == 0 && ALLV(qv, MULT[qv] == 0 && EMIT[qv] == 0 && (EX[qv] ==> DG[qv] >= 2) && (qv < vi ==> (!INHEAP[qv] == !EX[qv])) && (qv >= vi ==> !INHEAP[qv])) && hn <= vi && %s)\n"
               "__CPROVER_decreases(vp_n - vi)" % EXACT)
    # L4: main loop
    common4 = " && ".join([EMITF, QUEUED, LOWQ, INHEAPF, "hn <= vp_n"])
    invs[4] = ("__CPROVER_assigns(%s)\n__CPROVER_loop_invariant(%s && %s && dn == 0 && ALLV(qv, MULT[qv] == 0))\n__CPROVER_decreases(hn)" % (A_ALL, common4, EXACT))
    invs[5] = ("__CPROVER_assigns(ei, %s, __CPROVER_object_whole(DG))\n"
               "__CPROVER_loop_invariant(%s && %s && vp_flip)\n__CPROVER_decreases(eiRange_second - ei)" % (A_DQ, common4, _pend("v")))
    invs[6] = ("__CPROVER_assigns(vp_flip, vp_front, eiRange_u, eiRange_second, %s, __CPROVER_object_whole(EX), __CPROVER_object_whole(DG))\n"
               "__CPROVER_loop_invariant(%s && %s)" % (A_DQ, common4, EXACT))
    invs[7] = ("__CPROVER_assigns(ei, %s, __CPROVER_object_whole(DG))\n"
               "__CPROVER_loop_invariant(%s && %s)\n__CPROVER_decreases(eiRange_second - ei)" % (A_DQ, common4, _pend("u")))
    if len(X.loops(body)) != 8:
        raise Undecided("extraction out of date: greedy_fvs has %d loops (8 expected)" % len(X.loops(body)))
    body = X.splice_loop_contracts(body, invs, log)
    fn = r"""
void fvs(void)
__CPROVER_requires(vp_n <= MAXN && dn == 0 && hn == 0 && vp_nemit == 0)
__CPROVER_requires(__CPROVER_forall { size_t r0; (r0 < MAXN) ==> (MULT[r0] == 0 && !INHEAP[r0] && EMIT[r0] == 0) })
/* a simple undirected graph: symmetric irreflexive relation; each out-edge list enumerates the neighbours exactly once */
__CPROVER_requires(ALLV(ra, DEG0[ra] < vp_n && !ADJM[ra][ra] && DEG0[ra] == CNTALL(ra)))
__CPROVER_requires(ALLV(rb, ALLW(rc, (ADJM[rb][rc] == ADJM[rc][rb]) && (ADJM[rb][rc] ==> (POS[rb][rc] < DEG0[rb] && ADJ[rb][POS[rb][rc]] == rc)))))
__CPROVER_requires(ALLV(rd, ALLS(re, re < DEG0[rd] ==> (ADJ[rd][re] < vp_n && ADJM[rd][ADJ[rd][re]] && POS[rd][ADJ[rd][re]] == re))))
__CPROVER_assigns(vp_flip, vp_front, vp_top, vp_nemit, hn, dn, __CPROVER_object_whole(MULT), __CPROVER_object_whole(EX), __CPROVER_object_whole(DG),
                  __CPROVER_object_whole(EMIT), __CPROVER_object_whole(INHEAP))
/* A */
__CPROVER_ensures(ALLV(pa, !EX[pa] && EMIT[pa] <= 1))
{%s}
size_t vp_in_n;
void h_fvs(void) {
  vp_in_n = vp_n;
  fvs();
  __CPROVER_assert(0, "VP_REACH end of harness");
}
""" % body
    extra = ("#define CNTALL(v) %s\n#define ALLW(w, body) __CPROVER_forall { size_t w; (w < MAXN) ==> ((w < vp_n) ==> (body)) }\n"
             "#define ALLS(s, body) __CPROVER_forall { size_t s; (s < MAXN) ==> (body) }\n") % _sum(maxn, "(@ < vp_n && ADJM[v][@])")
    from units.k17b_bfs import _fresh
    txt = _pre(maxn) + extra + _fresh(fn)
    return dict(unit="K13_greedy_fvs", site="K13_greedy_fvs", lang="c", source=rel + " (parmcb::greedy_fvs)", text=txt, entry="h_fvs", enforce="fvs",
                replace=["dq_push", "dq_empty", "dq_front", "dq_pop", "heap_push", "heap_empty", "heap_top", "heap_pop", "heap_decrease"],
                rewrites=log, timeout=3000, split=16, flags=["--object-bits", "12"], unwind=28, loop_contracts=True, mode="proof",
                bound="proved(n<=%d): all eight loops closed by loop contracts with invariants quantified over the vertex range; termination of the two cleanup loops is not proved (no variant)" % maxn,
                dropped=["template header; typedefs; LessVertex; priority map writes (only the order of the heap depends on them)"],
                functions={"greedy_fvs": "proved(n<=%d), partial correctness" % maxn},
                assumptions=["simple undirected input graph (symmetric, irreflexive, out-edge lists enumerate the neighbours once)",
                             "contracts of std::deque (as a multiset: front/pop return SOME element) and boost::heap::pairing_heap (as a set: top is SOME element; decrease needs a live handle)",
                             "informal lemmas of DESIGN 10.9 (B => acyclic remainder; C => nothing emitted for a forest)"],
                trusted=["cbmc 6.11 + DFCC, SAT back end (bounded quantifier instantiation)"])


def units(tier):
    return [X.guarded("K13_greedy_fvs", _unit, False, 5 if tier == "thorough" else 4)]
