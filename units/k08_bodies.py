"""K8: the reduce BODIES handed to tbb::parallel_reduce (signed TBB: all-vertices and hidden-chain; MPI
signed: both; tree lookup) and the hidden-chain construction loop of OddCycleFinder::find_less_than_vertices,
verified modularly against the callee contracts (K9 search / K11 candidate builder) with loop contracts.
Contract of a body (what TBB's parallel_reduce needs from it, DESIGN 4/C03): body(r, init) is an accumulating
fold - the result is never worse than init and at least as good as every candidate of the sub-range, and it
passes its running value as the pruning limit.  Together with K7 (join laws, identity) the schedule
independence of the reduction follows by induction over the split tree."""
import re
from lib import xtract as X
from lib.core import Undecided
from units.k10_phase import PRELUDE

TUPLE_RULES = [
    (r"std::get<([012])>\((running_min|res|cc)\)", r"GET\1(\2)", (6, 30), "overload-resolution", "tuple fields"),
    (r"\bcompare\(", "VP_LESS(", (1, 4), "overload-resolution", "compare is std::less<WeightType>"),
    (r"std::size_t", "size_t", (1, 3), "type-binding", ""),
]


def _body_lambda(rel, which, total, what):
    text = X.src(rel)
    ms = list(re.finditer(r"tbb::parallel_reduce\s*\(", text))
    if len(ms) != total:
        raise Undecided("extraction out of date: %d parallel_reduce calls in %s (expected %d)" % (len(ms), rel, total))
    i = text.index("(", ms[which].start())
    j = X._match_close(text, i, "(", ")")
    call = text[ms[which].start():j + 1]
    args = X.call_args(call)
    if len(args) != 4:
        raise Undecided("extraction out of date: parallel_reduce at %s has %d arguments" % (what, len(args)))
    lam = args[2]
    m = re.match(r"\[&\]\s*\(\s*tbb::blocked_range<std::size_t> (\w+),\s*auto (\w+)\)\s*\{", lam)
    if not m:
        raise Undecided("extraction out of date: body lambda header at " + what)
    body = X.body_after(lam, r"\[&\]\s*\([^)]*\)\s*", "reduce body " + what)
    if m.group(2) != "running_min":      # the accumulator parameter is local to the lambda (N2)
        body = X.canon("auto %s;" % m.group(2) + body, [(r"^auto (\w+);", ["running_min"])], [])[len("auto running_min;"):]
    return body, m.group(1), args[0]


def _signed_body(site, rel, which, total, mode, bounded):
    """mode 'all' (v+ -> v- per vertex) or 'hidden' (chain)"""
    log = []
    body, R, rng = _body_lambda(rel, which, total, site)
    rules = [
        (r"\b%s\.begin\(\)" % R, "vp_rb", 1, "container-api", "blocked_range::begin"),
        (r"\b%s\.end\(\)" % R, "vp_re", 1, "container-api", "blocked_range::end"),
    ]
    if mode == "all":
        rules += [
            (r"auto v = (?:vertices|localVertices)\[i\];", "size_t v = VERT[i];", 1, "container-api", "vertex list"),
            (r"auto res = bidirectional_signed_dijkstra\(g, weight_map, signed_edges,\s*std::set<Edge> \{ \},\s*", "cycle_t res = search(0UL, ", 1,
             "overload-resolution", "callee -> contract K9"),
        ]
    else:
        rules += [
            (r"auto se = (?:signed_edges_as_vector|local_signed_edges_as_vector)\.at\(i\);", "size_t se = VEC[i];", 1, "container-api", "std::vector::at"),
            (r"auto se_v = boost::source\(se, g\);", "size_t se_v = SRC[se];", 1, "container-api", ""),
            (r"auto se_u = boost::target\(se, g\);", "size_t se_u = TGT[se];", 1, "container-api", ""),
            (r"(?:const )?auto hidden_edges = hidden_edges_per_edge\.at\(se\);", "unsigned long hidden_edges = HPE[se];", 1, "container-api", "std::map::at -> table of masks"),
            (r"auto res = bidirectional_signed_dijkstra\(g, weight_map, signed_edges, hidden_edges,\s*", "cycle_t res = search(hidden_edges, ", 1,
             "overload-resolution", "callee -> contract K9"),
            (r"GET0\(res\)\.find\(se\) == GET0\(res\)\.end\(\)", "(((GET0(res)) >> se) & 1UL) == 0", 1, "container-api", "set membership"),
            (r"boost::get\(weight_map, se\)", "WSE[se]", 1, "container-api", ""),
            (r"GET0\(res\)\.insert\(se\);", "GET0(res) |= (1UL << se);", 1, "container-api", "set insert"),
        ]
    body = X.canon(body, [(r"auto (\w+) = bidirectional_signed_dijkstra\(", ["res"])], log)
    body = X.rewrite(body, TUPLE_RULES[:1] + rules[:2], log)
    body = X.rewrite(body, TUPLE_RULES[1:] + rules[2:], log)
    if mode == "all":
        inv = ("__CPROVER_assigns(i, running_min)\n"
               "__CPROVER_loop_invariant(vp_rb <= i && i <= vp_re)\n"
               "__CPROVER_loop_invariant(vp_init.exists ==> (running_min.exists && running_min.weight <= vp_init.weight))\n"
               "__CPROVER_loop_invariant((g0 >= vp_rb && g0 < i && FA[VERT[g0]]) ==> (running_min.exists && running_min.weight <= DA[VERT[g0]]))\n"
               "__CPROVER_decreases(vp_re - i)")
        cand = "FA[VERT[g0]]"; candw = "DA[VERT[g0]]"
        tables = "__CPROVER_requires(VERT[g0] < vp_n && DA[VERT[g0]] > 0 && DA[VERT[g0]] < WBOUND)"
    else:
        inv = ("__CPROVER_assigns(i, running_min)\n"
               "__CPROVER_loop_invariant(vp_rb <= i && i <= vp_re)\n"
               "__CPROVER_loop_invariant(vp_init.exists ==> (running_min.exists && running_min.weight <= vp_init.weight))\n"
               "__CPROVER_loop_invariant((g0 >= vp_rb && g0 < i && FB[g0]) ==> (running_min.exists && running_min.weight <= DB[g0] + WSE[g0]))\n"
               "__CPROVER_decreases(vp_re - i)")
        cand = "FB[g0]"; candw = "DB[g0] + WSE[g0]"
        tables = "__CPROVER_requires(DB[g0] > 0 && DB[g0] < WBOUND && WSE[g0] > 0 && WSE[g0] < WBOUND)"
    if not bounded:
        body = X.splice_loop_contracts(body, {0: inv}, log)
    fn = r"""
size_t VERT[MAXN + 1];                  /* the vertex list handed to the tasks */
size_t VEC[MAXS + 1];                   /* signed_edges_as_vector: position -> signed edge (identity by K8a) */
unsigned long HPE[MAXS + 1];            /* hidden_edges_per_edge */
cycle_t vp_init;
cycle_t body(size_t vp_rb, size_t vp_re, cycle_t running_min, size_t g0)
__CPROVER_requires(vp_s >= 1 && vp_s <= MAXS && vp_n >= 1 && vp_n <= MAXN)
__CPROVER_requires(vp_rb < vp_re && vp_re <= %(LIMIT)s && g0 >= vp_rb && g0 < vp_re)     /* TBB: a non-empty sub-range of the reduction range */
__CPROVER_requires(running_min.exists <= 1 && (running_min.exists ==> (running_min.weight > 0 && running_min.weight < 2 * WBOUND)))
__CPROVER_requires(vp_init.exists == running_min.exists && vp_init.weight == running_min.weight)
%(TABLES)s
__CPROVER_assigns()
/* accumulating fold: never worse than what it was given ... */
__CPROVER_ensures(vp_init.exists ==> (__CPROVER_return_value.exists && __CPROVER_return_value.weight <= vp_init.weight))
/* ... and at least as good as every candidate of its sub-range (g0 arbitrary) */
__CPROVER_ensures(%(CAND)s ==> (__CPROVER_return_value.exists && __CPROVER_return_value.weight <= %(CANDW)s))
{%(BODY)s}
size_t vp_in_rb, vp_in_re, vp_in_g0; W vp_in_init_w; bool vp_in_init_e;
void h_body(void) {
  size_t rb, re, g0; cycle_t init;
  __CPROVER_assume(vp_s >= 1 && vp_s <= MAXS && vp_n >= 1 && vp_n <= MAXN);
  for (size_t i = 0; i <= MAXS; i++) __CPROVER_assume(DB[i] > 0 && DB[i] < WBOUND && WSE[i] > 0 && WSE[i] < WBOUND && FB[i] <= 1
                                                       && VEC[i] == i && HPE[i] == SUFFIX(i, vp_s));       /* K8a: chain construction */
  for (size_t i = 0; i <= MAXN; i++) __CPROVER_assume(DA[i] > 0 && DA[i] < WBOUND && FA[i] <= 1 && VERT[i] < vp_n);
  vp_init = init;
  vp_in_rb = rb; vp_in_re = re; vp_in_g0 = g0; vp_in_init_w = init.weight; vp_in_init_e = init.exists;
  cycle_t r = body(rb, re, init, g0); (void) r;
  __CPROVER_assert(0, "VP_REACH end of harness");
}
""" % dict(LIMIT="vp_n" if mode == "all" else "vp_s", TABLES=tables, CAND=cand, CANDW=candw, BODY=body)
    name = "K8_body_%s" % site + ("_bounded" if bounded else "")
    spec = dict(unit=name, site="K8_body_" + site, lang="c", source=rel + " (parallel_reduce body, %s)" % site,
                text=PRELUDE % dict(MAXN="4" if bounded else "64", MAXS="4" if bounded else "63") + fn, entry="h_body", enforce="body",
                replace=["search"], rewrites=log, timeout=600, dropped=["lambda header/captures; the parallel_reduce call (TBB contract)"],
                assumptions=["K9 contract of bidirectional_signed_dijkstra; K8a (chain tables) for the hidden-chain bodies; integer weights < 2^40; <= 63 signed edges"],
                trusted=["cbmc 6.11 + DFCC, SAT back end"])
    if bounded:
        spec.update(mode="bounded", bound="range <= 4, unwound", unwind=7, functions={"reduce body [%s]" % site: "bounded(range<=4)"})
    else:
        spec.update(mode="proof", bound="unbounded in the sub-range (table caps n<=64, s<=63)", loop_contracts=True, unwind=66,
                    fallback=lambda: _signed_body(site, rel, which, total, mode, True),
                    functions={"reduce body [%s]" % site: "proved against K9"})
    return spec


def _chain_unit(bounded):
    """K8a: construction of signed_edges_as_vector / hidden_edges_per_edge in OddCycleFinder::find_less_than_vertices."""
    log = []
    rel = "include/parmcb/parmcb_sva_signed_tbb.hpp"
    text = X.src(rel)
    blk = X.span(text, r"std::map<Edge, std::set<Edge>> hidden_edges_per_edge;", r"return tbb::parallel_reduce", "hidden chain construction", include_end=False)
    blk = X.rewrite(blk, [
        (r"std::map<Edge, std::set<Edge>> hidden_edges_per_edge;", "", 1, "container-api", "std::map<Edge,std::set<Edge>> -> table HPE of masks (global)"),
        (r"std::vector<Edge> signed_edges_as_vector;", "size_t vec_len = 0;", 1, "container-api", "std::vector -> array VEC + length"),
        (r"std::set<Edge> tmp_signed_edges = signed_edges;", "unsigned long tmp_signed_edges = ALLMASK(vp_s);", 1, "container-api", "copy of the set of signed edges"),
        (r"!tmp_signed_edges\.empty\(\)", "tmp_signed_edges != 0", 1, "container-api", "std::set::empty"),
        (r"auto bit = tmp_signed_edges\.begin\(\);", "size_t bit = (size_t) __builtin_ctzl(tmp_signed_edges);", 1, "container-api", "begin() = smallest element"),
        (r"hidden_edges_per_edge\.insert\(std::make_pair\(\*bit, tmp_signed_edges\)\);", "HPE[bit] = tmp_signed_edges;", 1, "container-api", "map insert (key not present)"),
        (r"signed_edges_as_vector\.push_back\(\*bit\);", "VEC[vec_len++] = bit;", 1, "container-api", "push_back"),
        (r"tmp_signed_edges\.erase\(bit\);", "tmp_signed_edges &= ~(1UL << bit);", 1, "container-api", "erase(iterator)"),
    ], log)
    inv = ("__CPROVER_assigns(tmp_signed_edges, vec_len, __CPROVER_object_whole(VEC), __CPROVER_object_whole(HPE))\n"
           "__CPROVER_loop_invariant(vec_len <= vp_s && tmp_signed_edges == SUFFIX(vec_len, vp_s))\n"
           "__CPROVER_loop_invariant(g0 < vec_len ==> (VEC[g0] == g0 && HPE[g0] == SUFFIX(g0, vp_s)))\n"
           "__CPROVER_decreases(vp_s - vec_len)")
    if not bounded:
        blk = X.splice_loop_contracts(blk, {0: inv}, log)
    fn = r"""
size_t VEC[MAXS + 1]; unsigned long HPE[MAXS + 1]; size_t vp_len;
void chain(size_t g0)
__CPROVER_requires(vp_s >= 1 && vp_s <= MAXS && g0 < vp_s)
__CPROVER_assigns(vp_len, __CPROVER_object_whole(VEC), __CPROVER_object_whole(HPE))
/* K8a: position i of the vector is the i-th signed edge in set order and its hidden set is the suffix from i on */
__CPROVER_ensures(vp_len == vp_s && VEC[g0] == g0 && HPE[g0] == SUFFIX(g0, vp_s))
{
  %s
  vp_len = vec_len;
}
size_t vp_in_s, vp_in_g0;
void h_chain(void) { size_t g0; vp_in_s = vp_s; vp_in_g0 = g0; chain(g0); __CPROVER_assert(0, "VP_REACH end"); }
""" % blk
    name = "K8a_chain_signed_tbb" + ("_bounded" if bounded else "")
    spec = dict(unit=name, site="K8a_chain_signed_tbb", lang="c", source=rel + " (find_less_than_vertices: chain construction)",
                text=PRELUDE % dict(MAXN="4", MAXS="4" if bounded else "63") + fn, entry="h_chain", enforce="chain", rewrites=log, timeout=300,
                dropped=["the parallel_reduce that follows (K8 body unit)"],
                assumptions=["std::set / std::map / std::vector bound to masks and tables over positions in set order"],
                trusted=["cbmc 6.11 + DFCC, SAT back end"])
    if bounded:
        spec.update(mode="bounded", bound="s<=4, unwound", unwind=7, functions={"hidden-chain construction (tbb)": "bounded(s<=4)"})
    else:
        spec.update(mode="proof", bound="unbounded in the number of signed edges (<= 63, mask)", loop_contracts=True,
                    fallback=lambda: _chain_unit(True), functions={"hidden-chain construction (tbb)": "proved"})
    return spec


def _lookup_body(bounded):
    """tree lookup body (sptrees.hpp): candidate_cycle_builder replaced by its contract K11."""
    log = []
    rel = "include/parmcb/sptrees.hpp"
    body, R, rng = _body_lambda(rel, 0, 1, "sptrees lookup")
    body = X.canon(body, [(r"auto (\w+) = candidate_cycle_builder\(", ["cc"])], log)
    body = X.rewrite(body, [
        (r"\b%s\.begin\(\)" % R, "vp_rb", 1, "container-api", ""),
        (r"\b%s\.end\(\)" % R, "vp_re", 1, "container-api", ""),
        (r"std::get<([012])>\((running_min|cc)\)", r"GET\1(\2)", (3, 20), "overload-resolution", "tuple fields"),
        (r"\bcompare\(", "VP_LESS(", 1, "overload-resolution", "std::less"),
        (r"std::size_t", "size_t", 1, "type-binding", ""),
        (r"auto c = cycles\[i\];", "size_t c = i;", 1, "container-api", "candidate = its position in the sorted list"),
        (r"auto cc = candidate_cycle_builder\(trees, c, edges,\s*", "cycle_t cc = build(c, ", 1, "overload-resolution", "callee -> contract K11"),
    ], log)
    inv = ("__CPROVER_assigns(i, running_min)\n"
           "__CPROVER_loop_invariant(vp_rb <= i && i <= vp_re)\n"
           "__CPROVER_loop_invariant(vp_init.exists ==> (running_min.exists && running_min.weight <= vp_init.weight))\n"
           "__CPROVER_loop_invariant((g0 >= vp_rb && g0 < i && FC[g0]) ==> (running_min.exists && running_min.weight <= DC[g0]))\n"
           "__CPROVER_decreases(vp_re - i)")
    if not bounded:
        body = X.splice_loop_contracts(body, {0: inv}, log)
    fn = r"""
#define MAXC %s
size_t vp_nc; bool FC[MAXC + 1]; W DC[MAXC + 1];       /* ghost: candidate i is an odd simple cycle (FC) of weight DC */
/* K11: CandidateCycleBuilder::operator() with a weight limit: found iff the candidate is odd+valid and weighs <= limit */
cycle_t build(size_t c, bool use_limit, W limit)
__CPROVER_requires(c < vp_nc)
__CPROVER_assigns()
__CPROVER_ensures(__CPROVER_return_value.exists == (FC[c] && (!use_limit || DC[c] <= limit)))
__CPROVER_ensures(__CPROVER_return_value.exists ==> __CPROVER_return_value.weight == DC[c])
;
cycle_t vp_init;
cycle_t body(size_t vp_rb, size_t vp_re, cycle_t running_min, size_t g0)
__CPROVER_requires(vp_nc <= MAXC && vp_rb < vp_re && vp_re <= vp_nc && g0 >= vp_rb && g0 < vp_re)
__CPROVER_requires(running_min.exists <= 1 && (running_min.exists ==> running_min.weight > 0))
__CPROVER_requires(vp_init.exists == running_min.exists && vp_init.weight == running_min.weight)
__CPROVER_requires(DC[g0] > 0 && DC[g0] < WBOUND)
__CPROVER_assigns()
__CPROVER_ensures(vp_init.exists ==> (__CPROVER_return_value.exists && __CPROVER_return_value.weight <= vp_init.weight))
__CPROVER_ensures(FC[g0] ==> (__CPROVER_return_value.exists && __CPROVER_return_value.weight <= DC[g0]))
{%s}
size_t vp_in_rb, vp_in_re, vp_in_g0;
void h_body(void) {
  size_t rb, re, g0; cycle_t init;
  for (size_t i = 0; i <= MAXC; i++) __CPROVER_assume(DC[i] > 0 && DC[i] < WBOUND && FC[i] <= 1);
  vp_init = init; vp_in_rb = rb; vp_in_re = re; vp_in_g0 = g0;
  cycle_t r = body(rb, re, init, g0); (void) r;
  __CPROVER_assert(0, "VP_REACH end of harness");
}
""" % ("4" if bounded else "64", body)
    name = "K8_body_sptrees_lookup" + ("_bounded" if bounded else "")
    spec = dict(unit=name, site="K8_body_sptrees_lookup", lang="c", source=rel + " (ShortestOddCycleLookup TBB reduce body)",
                text=PRELUDE % dict(MAXN="4", MAXS="4") + fn, entry="h_body", enforce="body", replace=["build"], rewrites=log, timeout=600,
                dropped=["lambda header/captures"], assumptions=["K11 contract of CandidateCycleBuilder::operator() (limit clause: found iff weight <= limit)"],
                trusted=["cbmc 6.11 + DFCC, SAT back end"])
    if bounded:
        spec.update(mode="bounded", bound="range <= 4, unwound", unwind=7, functions={"reduce body [tree lookup]": "bounded(range<=4)"})
    else:
        spec.update(mode="proof", bound="unbounded in the sub-range (table cap 64 candidates)", loop_contracts=True, unwind=66,
                    fallback=lambda: _lookup_body(True), functions={"reduce body [tree lookup]": "proved against K11"})
    return spec


def _lookup_seq(bounded):
    """sequential tree lookup (sptrees.hpp compute_shortest_odd_cycle, non-TBB): first valid candidate of the SORTED list."""
    log = []
    rel = "include/parmcb/sptrees.hpp"
    text = X.src(rel)
    fn_body = X.body_after(text, (r"compute_shortest_odd_cycle\(const std::set<Edge> &edges,\s*typename std::enable_if<!is_tbb_enabled>::type\* = 0\)\s*", 0, 1),
                           "sequential compute_shortest_odd_cycle")
    i = fn_body.find("std::tuple<std::set<Edge>, WeightType, bool> min;")
    if i < 0:
        raise Undecided("extraction out of date: declaration of min in the sequential lookup")
    region = fn_body[i:]
    region = X.canon(region, [(r"std::tuple<std::set<Edge>, WeightType, bool> (\w+) = candidate_cycle_builder\(", ["cc"])], log)
    region = X.rewrite(region, [
        (r"std::tuple<std::set<Edge>, WeightType, bool> min;", "cycle_t min = { 0UL, 0, 0 };", 1, "type-binding", "value-initialised tuple"),
        (r"for \(CandidateCycle<Graph, WeightMap> c : cycles\)", "for (size_t c = 0; c < vp_nc; c++)", 1, "container-api", "range-for over the candidate list = positions"),
        (r"std::tuple<std::set<Edge>, WeightType, bool> cc = candidate_cycle_builder\(trees, c, edges,\s*", "cycle_t cc = build(c, ", 1, "overload-resolution", "callee -> contract K11"),
        (r"std::get<([012])>\((min|cc)\)", r"GET\1(\2)", (6, 20), "overload-resolution", "tuple fields"),
    ], log)
    inv = ("__CPROVER_assigns(c, min)\n"
           "__CPROVER_loop_invariant(c <= vp_nc)\n"
           "__CPROVER_loop_invariant(sorted_cycles ==> !min.exists)\n"
           "__CPROVER_loop_invariant((g0 < c && FC[g0]) ==> (min.exists && min.weight <= DC[g0]))\n"
           "__CPROVER_decreases(vp_nc - c)")
    if not bounded:
        region = X.splice_loop_contracts(region, {0: inv}, log)
    fn = r"""
#define MAXC %s
size_t vp_nc; bool FC[MAXC + 1]; W DC[MAXC + 1]; bool sorted_cycles;
cycle_t build(size_t c, bool use_limit, W limit)
__CPROVER_requires(c < vp_nc)
__CPROVER_assigns()
__CPROVER_ensures(__CPROVER_return_value.exists == (FC[c] && (!use_limit || DC[c] <= limit)))
__CPROVER_ensures(__CPROVER_return_value.exists ==> __CPROVER_return_value.weight == DC[c])
;
cycle_t lookup(size_t g0)
__CPROVER_requires(vp_nc <= MAXC && g0 < vp_nc && sorted_cycles <= 1)
__CPROVER_assigns()
/* K11: a minimum-weight odd member of the collection (with the sorted list: the first one) */
__CPROVER_ensures(FC[g0] ==> (__CPROVER_return_value.exists && __CPROVER_return_value.weight <= DC[g0]))
{%s}
size_t vp_in_nc, vp_in_g0;
void h_lookup(void) {
  size_t g0;
  __CPROVER_assume(vp_nc <= MAXC);
  for (size_t i = 0; i <= MAXC; i++) __CPROVER_assume(DC[i] > 0 && DC[i] < WBOUND && FC[i] <= 1);
  /* the caller sorts the candidates by weight before it sets sorted_cycles (parmcb_sva_trees.hpp) */
  for (size_t i = 0; i < MAXC; i++) __CPROVER_assume(!sorted_cycles || i + 1 >= vp_nc || DC[i] <= DC[i + 1]);
  vp_in_nc = vp_nc; vp_in_g0 = g0;
  cycle_t r = lookup(g0); (void) r;
  __CPROVER_assert(0, "VP_REACH end of harness");
}
""" % ("4" if bounded else "24", region)
    name = "K11_lookup_seq" + ("_bounded" if bounded else "")
    spec = dict(unit=name, site="K11_lookup_seq", lang="c", source=rel + " (sequential ShortestOddCycleLookup loop)",
                text=PRELUDE % dict(MAXN="4", MAXS="4") + fn, entry="h_lookup", enforce="lookup", replace=["build"], rewrites=log, timeout=900,
                dropped=["the update_parities loop before the search (contract K11-parity, bounded only)"],
                assumptions=["K11 contract of CandidateCycleBuilder::operator(); the candidate list is sorted by weight when sorted_cycles is set (done by the caller with std::sort)"],
                trusted=["cbmc 6.11 + DFCC, SAT back end"])
    if bounded:
        spec.update(mode="bounded", bound="<= 4 candidates, unwound", unwind=7, functions={"tree lookup (sequential)": "bounded(<=4 candidates)"})
    else:
        spec.update(mode="proof", bound="loop closed by its contract; <= 24 candidates only because sortedness of the ghost table is stated by an unwound harness loop",
                    loop_contracts=True, unwind=26, fallback=lambda: _lookup_seq(True), functions={"tree lookup (sequential)": "proved(<=24 candidates) against K11"})
    return spec


def units(tier):
    G = X.guarded
    T = "include/parmcb/parmcb_sva_signed_tbb.hpp"
    M = "include/parmcb/mpi/parmcb_sva_signed.hpp"
    return [G("K8_body_signed_tbb_all", _signed_body, "signed_tbb_all", T, 0, 2, "all", False),
            G("K8_body_signed_tbb_hidden", _signed_body, "signed_tbb_hidden", T, 1, 2, "hidden", False),
            G("K8_body_mpi_hidden", _signed_body, "mpi_hidden", M, 0, 2, "hidden", False),
            G("K8_body_mpi_all", _signed_body, "mpi_all", M, 1, 2, "all", False),
            G("K8a_chain_signed_tbb", _chain_unit, False),
            G("K8_body_sptrees_lookup", _lookup_body, False),
            G("K11_lookup_seq", _lookup_seq, False)]
