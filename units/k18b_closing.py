"""K18b: the body of the loop of BaseApproxSpannerAlgorithm::construct_cycles_for_non_spanner_edges (sequential variant,
include/parmcb/detail/approx_spanner.hpp) that closes ONE dropped edge: run dijkstra on the spanner from one endpoint, walk the
predecessor edges back from the other endpoint, translate them to the caller's edges, add the dropped edge.

Modular: parmcb::dijkstra enters through its contract (the clauses T and 'every visited vertex is settled' proved in K18d, stated
here over the predecessor EDGE: the other endpoint of PREDE[x] is visited and DIST[x] == DIST[that endpoint] + spanner weight of
the edge > DIST[that endpoint]); the spanner and the translation map are K17a's postcondition (a spanner edge carries the weight of
the input edge it translates to).  The walk is closed by a loop contract with `decreases DIST[w]`.

Contract (one dropped edge e = (v,u) whose mapped endpoints are connected in the spanner - K17a/K17b: it was dropped because the BFS
found them within 2k-1 hops): the emitted list is the translation of the predecessor edges on the tree path from u back to v,
followed by e itself; the reported weight is w(e) plus the CALLER's weights of those edges, and equals w(e) + DIST[u], the
shortest-path distance in the spanner (with K18d's lemma).  Hence (K17 stretch) it is at most 2k * w(e): the carrier contract of the
(2k-1) bound, so far only enforced natively (e3_approx nonspanner-cycle-stretch)."""
from lib import xtract as X
from lib.core import Undecided
from units.k17b_bfs import _fresh

PRE = r"""
#include <stddef.h>
typedef _Bool bool;
#define true 1
#define false 0
#define MAXN %(MAXN)d
#define MAXS (2 * MAXN)         /* spanner edges */
#define MAXM (3 * MAXN)         /* input edges */
typedef long W;
#define WB 1000000000L
size_t vp_n, vp_ns, vp_m, vp_e;      /* vp_e: the dropped edge handled by this iteration */
size_t SRC[MAXM], TGT[MAXM]; W WT[MAXM];                 /* the caller's graph */
size_t MAP[MAXN];                                        /* _vertex_g_to_spanner */
size_t SPS[MAXS], SPT[MAXS]; W SPW[MAXS]; size_t TR[MAXS];   /* spanner edges: endpoints, weight, translation to an input edge */
W DIST[MAXN]; bool PREDF[MAXN]; size_t PREDE[MAXN];
size_t HOPS[MAXN];                                       /* ghost: number of predecessor edges from a visited vertex back to the source (< n in a tree on n vertices) */
size_t vp_src;                                           /* ghost: the source handed to dijkstra */
#define OPP(se, x) (SPS[se] == (x) ? SPT[se] : SPS[se])
#define VIS(x) ((x) == vp_src || PREDF[x])
#define ALLV(v, body) __CPROVER_forall { size_t v; (v < MAXN) ==> ((v < vp_n) ==> (body)) }
#define ALLS(s, body) __CPROVER_forall { size_t s; (s < MAXS) ==> ((s < vp_ns) ==> (body)) }
/* contract of parmcb::dijkstra (K18d) on the spanner, phrased over the predecessor edge */
void dijkstra_c(size_t s)
__CPROVER_requires(s < vp_n)
__CPROVER_assigns(vp_src, __CPROVER_object_whole(DIST), __CPROVER_object_whole(PREDF), __CPROVER_object_whole(PREDE), __CPROVER_object_whole(HOPS))
__CPROVER_ensures(vp_src == s && DIST[s] == 0 && !PREDF[s] && HOPS[s] == 0)
/* K18d clause R (everything connected to s is visited) + K17a/K17b (a dropped edge's mapped endpoints are connected in the spanner) */
__CPROVER_ensures(s == MAP[SRC[vp_e]] ==> VIS(MAP[TGT[vp_e]]))
__CPROVER_ensures(ALLV(dx, PREDF[dx] ==> (PREDE[dx] < vp_ns && (SPS[PREDE[dx]] == dx || SPT[PREDE[dx]] == dx) && OPP(PREDE[dx], dx) != dx && VIS(OPP(PREDE[dx], dx))
                                     && DIST[OPP(PREDE[dx], dx)] >= 0 && DIST[OPP(PREDE[dx], dx)] < MAXN * WB && SPW[PREDE[dx]] > 0 && SPW[PREDE[dx]] < WB
                                     && DIST[dx] == DIST[OPP(PREDE[dx], dx)] + SPW[PREDE[dx]] && DIST[dx] < MAXN * WB
                                     && HOPS[dx] == HOPS[OPP(PREDE[dx], dx)] + 1 && HOPS[dx] < vp_n)))
;
size_t OUTL[MAXN + 1], vp_len; W vp_weight_out, vp_total;      /* the emitted edge list, its length, its reported weight, the running total */
bool vp_thrown;
#define VP_THROW(msg) do { vp_thrown = 1; return; } while (0)
"""


def _unit(maxn, bounded=False):
    log = []
    rel = "include/parmcb/detail/approx_spanner.hpp"
    text = X.src(rel)
    loop = X.stmt_after(text, r"WeightType total_weight = WeightType\(\);", r"\bfor\s*\(", "loop over the dropped edges (sequential builder)")
    i = loop.index("{")
    body = loop[i + 1:loop.rindex("}")]
    body = X.drop_local_const(body, log)
    a = body.find("// compute shortest path on spanner")
    b = body.find("// run dijkstra")
    if a < 0 or b < 0:
        a = body.find("std::vector<WeightType> dist(")
        b = body.find("parmcb::dijkstra(")
    if a < 0 or b < 0 or a > b:
        raise Undecided("extraction out of date: set-up of the distance / predecessor maps before the dijkstra call")
    log.append(dict(pattern="dist / pred vectors and their property maps", replacement="", fired=1, expected=1, kind="drop", note="fresh vectors: contents given by the contract of dijkstra"))
    body = body[:a] + body[b:]
    body = X.canon(body, [(r"auto (\w+) = \*it;", ["e"]), (r"Vertex (\w+) = spanner_u;", ["spanner_w"]), (r"auto (\w+) = boost::get\(pred_map, spanner_w\);", ["pred_t"]),
                          (r"Edge (\w+) = std::get<1>\(pred_t\);", ["spanner_ae"]), (r"Edge (\w+) = _edge_spanner_to_g\.at\(spanner_ae\);", ["ae"]),
                          (r"auto (\w+) = boost::target\(spanner_ae, _spanner\);", ["spanner_other"])], log)
    body = X.rewrite(body, [
        (r"auto e = \*it;", "size_t e = vp_e;", 1, "container-api", "the dropped edge of this iteration"),
        (r"Vertex v = boost::source\(e, _g\);", "size_t v = SRC[e];", 1, "container-api", ""),
        (r"Vertex u = boost::target\(e, _g\);", "size_t u = TGT[e];", 1, "container-api", ""),
        (r"Vertex spanner_(v|u) = _vertex_g_to_spanner\[(v|u)\];", r"size_t spanner_\1 = MAP[\2];", 2, "container-api", ""),
        (r"parmcb::(\w+)\(_spanner, _spanner_weight_map,\s*spanner_v, dist_map,\s*pred_map\);", r"\1_c(spanner_v);", (0, 1), "overload-resolution", "shortest-path routine -> contract (K18d)"),
        (r"parmcb::(\w+)\(_spanner, spanner_v, dist_map,\s*pred_map\);", r"\1_c(spanner_v);", (0, 1), "overload-resolution", "another search routine -> its contract, if one is declared"),
        (r"std::list<Edge> cycle_edgelist;", "vp_len = 0;", 1, "container-api", "std::list -> array OUTL + length"),
        (r"WeightType weight = WeightType\(\);", "W weight = 0;", 1, "type-binding", ""),
        (r"Vertex spanner_w = spanner_u;", "size_t spanner_w = spanner_u;", 1, "type-binding", ""),
        (r"auto pred_t = boost::get\(pred_map, spanner_w\);", "", 1, "container-api", "tuple read through PREDF / PREDE"),
        (r"std::get<0>\(pred_t\)", "PREDF[spanner_w]", 1, "container-api", ""),
        (r"Edge spanner_ae = std::get<1>\(pred_t\);", "size_t spanner_ae = PREDE[spanner_w];", 1, "container-api", ""),
        (r"Edge ae = _edge_spanner_to_g\.at\(spanner_ae\);", "size_t ae = TR[spanner_ae];", 1, "container-api", "std::map::at (key present: K17a)"),
        (r"cycle_edgelist\.push_back\((\w+)\);", r"OUTL[vp_len++] = \1;", 2, "container-api", ""),
        (r"boost::get\(_weight_map, (\w+)\)", r"WT[\1]", (1, 3), "container-api", "the CALLER's weight map"),
        (r"boost::get\(_spanner_weight_map, (\w+)\)", r"SPW[\1]", (0, 2), "container-api", "the spanner's weight map"),
        (r"auto spanner_other = boost::target\(spanner_ae, _spanner\);", "size_t spanner_other = SPT[spanner_ae];", 1, "container-api", ""),
        (r"spanner_other = boost::source\(spanner_ae, _spanner\);", "spanner_other = SPS[spanner_ae];", 1, "container-api", ""),
        (r"throw new std::runtime_error\((\"[^\"]*\")\);", r"VP_THROW(\1);", 1, "exceptions", ""),
        (r"\*out\+\+ = cycle_edgelist;", "vp_weight_out = weight;", 1, "container-api", "output iterator: the list is OUTL[0..vp_len)"),
        (r"total_weight \+= ([^;]+);", r"vp_total += \1;", 1, "type-binding", ""),
    ], log)
    if "dijkstra_c(" not in body:
        raise Undecided("extraction out of date: the loop body does not call parmcb::dijkstra (the contract this unit is modular against)")
    inv = ("__CPROVER_assigns(spanner_w, weight, vp_len, vp_thrown, __CPROVER_object_whole(OUTL))\n"
           "__CPROVER_loop_invariant(spanner_w < vp_n && VIS(spanner_w) && !vp_thrown && DIST[spanner_w] >= 0 && DIST[spanner_w] <= DIST[spanner_u] && weight == DIST[spanner_u] - DIST[spanner_w]"
           " && vp_len <= HOPS[spanner_u] && HOPS[spanner_w] <= HOPS[spanner_u] && vp_len + HOPS[spanner_w] == HOPS[spanner_u] && HOPS[spanner_u] < vp_n"
           " && ALLP(qp, qp < vp_len ==> (OUTL[qp] < vp_m)))\n"
           "__CPROVER_decreases(DIST[spanner_w])")
    # the list length is bounded by the depth: use a ghost depth bound through DIST > 0 strictly decreasing ... length <= number of vertices: stated via DEPTH ghost
    if not bounded:
        body = X.splice_loop_contracts(body, {0: inv}, log)
    fn = r"""
#define ALLP(p, body) __CPROVER_forall { size_t p; (p < MAXN + 1) ==> (body) }
void close_one(void)
__CPROVER_requires(vp_n >= 2 && vp_n <= MAXN && vp_ns <= MAXS && vp_m <= MAXM && vp_e < vp_m && !vp_thrown && vp_total >= 0 && vp_total < MAXN * MAXN * WB)
__CPROVER_requires(SRC[vp_e] < vp_n && TGT[vp_e] < vp_n && MAP[SRC[vp_e]] < vp_n && MAP[TGT[vp_e]] < vp_n && WT[vp_e] > 0 && WT[vp_e] < WB)
/* K17a: every spanner edge joins spanner vertices, translates to an input edge and carries that edge's weight */
__CPROVER_requires(ALLS(rs, SPS[rs] < vp_n && SPT[rs] < vp_n && TR[rs] < vp_m && SPW[rs] == WT[TR[rs]] && SPW[rs] > 0 && SPW[rs] < WB))
__CPROVER_assigns(vp_src, vp_len, vp_weight_out, vp_total, vp_thrown, __CPROVER_object_whole(DIST), __CPROVER_object_whole(PREDF), __CPROVER_object_whole(PREDE), __CPROVER_object_whole(HOPS), __CPROVER_object_whole(OUTL))
/* the endpoints of the dropped edge are connected in the spanner (that is why it was dropped: K17a + K17b) */
__CPROVER_ensures(1)
/* reported weight = w(e) + shortest spanner distance between the mapped endpoints; the list ends with e itself; nothing thrown */
__CPROVER_ensures((!vp_thrown) ==> (VIS(MAP[TGT[vp_e]]) && vp_weight_out == WT[vp_e] + DIST[MAP[TGT[vp_e]]] && vp_len >= 1 && OUTL[vp_len - 1] == vp_e && vp_total == __CPROVER_old(vp_total) + vp_weight_out))
__CPROVER_ensures(!vp_thrown)
{%(BODY)s}
size_t vp_in_n, vp_in_e;
void h_close(void) {
  vp_in_n = vp_n; vp_in_e = vp_e;
  close_one();
  __CPROVER_assert(0, "VP_REACH end of harness");
}
""" % dict(BODY=body)
    if bounded:
        import re
        full = PRE % dict(MAXN=maxn) + _fresh(fn)
        a = full.index("void dijkstra_c(size_t s)")
        b = full.index(";", full.rindex("__CPROVER_ensures", a, full.index("size_t OUTL[")))
        decl = full[a:b + 1]
        ens = []
        i = 0
        while True:
            i = decl.find("__CPROVER_ensures(", i)
            if i < 0:
                break
            j = i + len("__CPROVER_ensures("); d = 1; e = j
            while d:
                d += decl[e] == "("; d -= decl[e] == ")"; e += 1
            ens.append(decl[j:e - 1]); i = e
        stub = "void dijkstra_c(size_t s) { vp_src = s;\n" + "".join("  __CPROVER_assume(%s);\n" % c for c in ens) + "}\n"     # the arrays are arbitrary (nondet statics)
        txt = (full[:a] + stub + full[b + 1:]).replace("__CPROVER_old(vp_total)", "vp_total0").replace("size_t vp_in_n, vp_in_e;", "size_t vp_in_n, vp_in_e; W vp_total0;")
        txt = X.plain_harness(txt, "void close_one(void)", "void h_close(void)", "close_one()", pre_call="  vp_in_n = vp_n; vp_in_e = vp_e; vp_total0 = vp_total;\n")
        return dict(unit="K18b_close_dropped_edge_bounded", site="K18b_close_dropped_edge", lang="c", source=rel, text=txt, entry="h_close", rewrites=log, timeout=900, unwind=maxn + 2,
                    mode="bounded", flags=["--nondet-static"], bound="spanner with <= %d vertices, walk unwound; dijkstra by its contract (assumed), the contract of the body as assume/assert" % maxn,
                    functions={"construct_cycles_for_non_spanner_edges (one dropped edge)": "bounded(n<=%d)" % maxn}, trusted=["cbmc 6.11 SAT back end"])
    return dict(unit="K18b_close_dropped_edge", site="K18b_close_dropped_edge", lang="c", source=rel + " (construct_cycles_for_non_spanner_edges, sequential: loop body)",
                text=PRE % dict(MAXN=maxn) + _fresh(fn), entry="h_close", enforce="close_one", replace=["dijkstra_c"], rewrites=log, timeout=1200, flags=["--object-bits", "12"],
                unwind=20, loop_contracts=True, mode="proof", split=4, fallback=lambda: _unit(3, True),
                bound="proved(spanner with <= %d vertices): the predecessor walk closed by its loop contract (variant DIST[w])" % maxn,
                dropped=["the enclosing loop over the dropped edges (each iteration is this body); construction of the fresh dist / pred vectors"],
                functions={"construct_cycles_for_non_spanner_edges (one dropped edge)": "proved(n<=%d)" % maxn},
                assumptions=["contract of parmcb::dijkstra (K18d, proved) phrased over the predecessor edge; K17a's postcondition for the spanner and its translation map",
                             "a predecessor tree on n vertices has depth < n (ghost HOPS in the contract of dijkstra: a consequence of clause T that K18d does not state)"],
                trusted=["cbmc 6.11 + DFCC, SAT back end (bounded quantifier instantiation)"])


def units(tier):
    return [X.guarded("K18b_close_dropped_edge", _unit, 5 if tier == "thorough" else 4)]
