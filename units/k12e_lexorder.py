"""K12e: detail::LexDistanceCompare::operator() (include/parmcb/detail/lex_dijkstra.hpp) COMPLETE - including the set-difference
tail that K12's prefix unit abstracts - as a loop-free E1 unit, and the order laws as lemmas over the extracted function.

Binding: the label's std::set<std::size_t> of vertex indices (< 64) is a bit mask; `std::set_difference(a, b, inserter(x))` is
`x = a & ~b` (contract of std::set_difference on sorted ranges), `x.empty()` is `x == 0`, `*x.begin()` is the lowest set bit
(contract of std::set iteration order).

Proved over the FULL domain (every distance, every edge count, every pair / triple of 64-bit vertex sets):
  contract  less(a,b) is decided by the distance, then the edge count, then: a proper subset is smaller; otherwise the set
            whose smallest non-common element is smaller
  lemmas    irreflexive, asymmetric and total for all labels; on labels with vertex sets of EQUAL SIZE (paths with the same number
            of edges) also transitive - the strict total order lex_dijkstra's heap and tie-breaking need.
(Transitivity does not hold across sets of different sizes; the code never compares such labels with equal edge counts, because
the vertex set of a simple path with k edges has k+1 elements.)"""
from lib import xtract as X
from lib.core import Undecided


def _fn(log):
    rel = "include/parmcb/detail/lex_dijkstra.hpp"
    text = X.src(rel)
    body = X.body_after(text, r"struct LexDistanceCompare \{.*?bool operator\(\)\(const LexDistance<Graph, DistanceMap> &a, const LexDistance<Graph, DistanceMap> &b\)\s*",
                        "LexDistanceCompare::operator()")
    body = X.drop_local_const(body, log)
    body = X.canon(body, [(r"std::set<std::size_t> (\w+);\s*std::set_difference\(a\.", ["non_common_a"]), (r"std::set<std::size_t> (\w+);\s*std::set_difference\(b\.", ["non_common_b"])], log)
    body = X.rewrite(body, [
        (r"std::set<std::size_t> non_common_a;\s*std::set_difference\(a\.vertex_indices\.begin\(\), a\.vertex_indices\.end\(\),\s*b\.vertex_indices\.begin\(\), b\.vertex_indices\.end\(\),\s*std::inserter\(non_common_a, non_common_a\.end\(\)\)\);",
         "unsigned long non_common_a = a.vset & ~b.vset;", 1, "container-api", "std::set_difference(a, b) into an empty set = a \\ b"),
        (r"std::set<std::size_t> non_common_b;\s*std::set_difference\(b\.vertex_indices\.begin\(\), b\.vertex_indices\.end\(\),\s*a\.vertex_indices\.begin\(\), a\.vertex_indices\.end\(\),\s*std::inserter\(non_common_b, non_common_b\.end\(\)\)\);",
         "unsigned long non_common_b = b.vset & ~a.vset;", 1, "container-api", "b \\ a"),
        (r"!non_common_(a|b)\.empty\(\)", r"(non_common_\1 != 0)", (2, 6), "container-api", "std::set::empty"),
        (r"non_common_(a|b)\.empty\(\)", r"(non_common_\1 == 0)", (2, 6), "container-api", ""),
        (r"auto (\w+) = \*non_common_(a|b)\.begin\(\);", r"unsigned \1 = (unsigned) __builtin_ctzl(non_common_\2);", (0, 2), "container-api", "*begin() of a non-empty std::set = its smallest element"),
        (r"auto (\w+) = \*non_common_(a|b)\.rbegin\(\);", r"unsigned \1 = 63u - (unsigned) __builtin_clzl(non_common_\2);", (0, 2), "container-api", "*rbegin() = its largest element"),
        (r"return true;", "return 1;", (3, 8), "type-binding", ""),
        (r"return false;", "return 0;", (3, 8), "type-binding", ""),
    ], log)
    return body


PRE = r"""
#include <stddef.h>
typedef _Bool bool;
typedef %(D)s D;
typedef struct { D distance; size_t edge_count; unsigned long vset; } lex_t;
#define LOW(x) ((x) & (~(x) + 1UL))           /* lowest set bit */
/* specification of the tail on vertex sets: a proper subset is smaller; otherwise the smaller smallest-non-common element wins */
#define TAIL(a, b) ((((a) & ~(b)) == 0 && ((b) & ~(a)) != 0) || ((((a) & ~(b)) != 0 && ((b) & ~(a)) != 0) && LOW((a) & ~(b)) < LOW((b) & ~(a))))
bool lexcmp(const lex_t a, const lex_t b)
__CPROVER_requires(a.distance == a.distance && b.distance == b.distance)
__CPROVER_assigns()
__CPROVER_ensures(__CPROVER_return_value == (a.distance < b.distance || (a.distance == b.distance && (a.edge_count < b.edge_count || (a.edge_count == b.edge_count && TAIL(a.vset, b.vset))))))
{%(BODY)s}
"""

CONTRACT_H = r"""
lex_t vp_in_a, vp_in_b;
void h_cmp(void) { lex_t a, b; vp_in_a = a; vp_in_b = b; bool r = lexcmp(a, b); (void) r; __CPROVER_assert(0, "VP_REACH end"); }
"""

LEMMA_H = r"""
#define POP(x) __builtin_popcountl(x)
void h_laws(void) {
  lex_t a, b, c;
  __CPROVER_assume(a.distance == a.distance && b.distance == b.distance && c.distance == c.distance);
  bool ab = lexcmp(a, b), ba = lexcmp(b, a), bc = lexcmp(b, c), ac = lexcmp(a, c), aa = lexcmp(a, a);
  __CPROVER_assert(!aa, "lemma.irreflexive");
  __CPROVER_assert(!(ab && ba), "lemma.asymmetric");
  bool same = a.distance == b.distance && a.edge_count == b.edge_count && a.vset == b.vset;
  __CPROVER_assert(same || ab || ba, "lemma.total: two different labels are ordered");
  if (POP(a.vset) == POP(b.vset) && POP(b.vset) == POP(c.vset)) __CPROVER_assert(!(ab && bc) || ac, "lemma.transitive on labels with vertex sets of equal size");
  __CPROVER_assert(0, "VP_REACH end of lemma harness");
}
"""


def units(tier):
    out = []
    for D, dname in (("double", "double"), ("long", "long")):
        def mk_contract(D=D, dname=dname):
            log = []
            body = _fn(log)
            return dict(unit="K12e_lexcompare_full_" + dname, lang="c", source="include/parmcb/detail/lex_dijkstra.hpp LexDistanceCompare::operator()", rewrites=log,
                        text=PRE % dict(D=D, BODY=body) + CONTRACT_H, entry="h_cmp", enforce="lexcmp", mode="proof", timeout=900,
                        bound="loop-free, full domain: every pair of labels (distance not NaN), vertex sets = all 64-bit masks",
                        dropped=["template header, struct wrapper"], functions={"LexDistanceCompare::operator() [%s]" % dname: "proved"},
                        assumptions=["std::set<size_t> of indices < 64 bound to a bit mask; std::set_difference / begin() / empty() by their contracts"],
                        trusted=["cbmc 6.11 + DFCC, SAT back end"])

        def mk_lemma(D=D, dname=dname):
            log = []
            body = _fn(log)
            return dict(unit="K12e_lexorder_laws_" + dname, lang="c", source="(lemmas over the contract of LexDistanceCompare)", rewrites=log,
                        text=PRE % dict(D=D, BODY=body) + LEMMA_H, entry="h_laws", replace=["lexcmp"], mode="proof", timeout=1800,
                        bound="loop-free, full domain: every triple of labels; totality / transitivity for vertex sets of equal size",
                        functions={"strict total order laws of LexDistanceCompare [%s]" % dname: "proved"},
                        trusted=["cbmc 6.11 + DFCC, SAT back end"])
        out.append(X.guarded("K12e_lexcompare_full_" + dname, mk_contract))
        out.append(X.guarded("K12e_lexorder_laws_" + dname, mk_lemma))
    return out
