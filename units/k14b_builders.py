"""K14b: detail::HortonCyclesBuilder::operator() and detail::FVSCyclesBuilder::operator() (include/parmcb/detail/cycles.hpp) as E1 units
with loop contracts (invariants quantified over bounded ranges).

Binding: std::vector<SPTree> trees is the pair of arrays T_ID / T_ROOT + count (the SPTree constructor stores its id and source;
what the tree contains is K12); greedy_fvs's output is the array FVS[0..nf) (its contract is K13); tree.create_candidate_cycles()
is a contract function (K14a) that yields for tree t a list of TCN[t] candidates, named (t,k); `cycles.insert(cycles.end(), first,
last)` is the contract of std::vector::insert at the end: the old contents stay, the new range follows in order.

Contract: one tree per vertex (Horton) resp. per feedback vertex (FVS), in that order, tree i has id i; the candidate list is
exactly the concatenation over the trees, in tree order, of each tree's candidates in their order - nothing dropped, nothing
added, nothing duplicated.  (With K14a this is 'the FVS collection is the sub-collection of Horton's that belongs to the
feedback vertices', the nestedness clause of C14.)"""
from lib import xtract as X
from lib.core import Undecided
from units.k17b_bfs import _fresh

PRE = r"""
#include <stddef.h>
typedef _Bool bool;
#define MAXT %(MAXT)d
#define MAXK %(MAXK)d
#define MAXC (MAXT * MAXK)
size_t vp_n, vp_nf;
size_t FVS[MAXT];                                  /* output of greedy_fvs (K13) */
size_t T_ID[MAXT], T_ROOT[MAXT], vp_nt;            /* std::vector<SPTree> trees */
size_t TCN[MAXT];                                  /* number of candidates tree t yields (K14a) */
size_t CYC_T[MAXC], CYC_K[MAXC], vp_nc;            /* std::vector<CandidateCycle> cycles: candidate k of tree t */
size_t PREFIX[MAXT + 1];                           /* ghost: PREFIX[t] = TCN[0] + ... + TCN[t-1] */
#define ALLT(t, body) __CPROVER_forall { size_t t; (t < MAXT) ==> (body) }
#define ALLC(c, body) __CPROVER_forall { size_t c; (c < MAXC) ==> (body) }
/* trees.emplace_back(trees.size(), g, index map, weights, v): SPTree constructor stores id and source */
void trees_emplace(size_t id, size_t root)
__CPROVER_requires(vp_nt < MAXT)
__CPROVER_assigns(vp_nt, T_ID[vp_nt], T_ROOT[vp_nt])
__CPROVER_ensures(vp_nt == __CPROVER_old(vp_nt) + 1 && T_ID[__CPROVER_old(vp_nt)] == id && T_ROOT[__CPROVER_old(vp_nt)] == root)
;
/* tree_cycles = tree.create_candidate_cycles(); cycles.insert(cycles.end(), tree_cycles.begin(), tree_cycles.end()); */
void append_tree_cycles(size_t t)
__CPROVER_requires(t < MAXT && TCN[t] <= MAXK && vp_nc + TCN[t] <= MAXC)
/* frame: only the appended range is written - the old contents of the vector stay */
__CPROVER_assigns(vp_nc, __CPROVER_object_upto(&CYC_T[vp_nc], TCN[t] * sizeof(size_t)), __CPROVER_object_upto(&CYC_K[vp_nc], TCN[t] * sizeof(size_t)))
__CPROVER_ensures(vp_nc == __CPROVER_old(vp_nc) + TCN[t])
__CPROVER_ensures(ALLC(ac, (ac >= __CPROVER_old(vp_nc) && ac < vp_nc) ==> (CYC_T[ac] == t && CYC_K[ac] == ac - __CPROVER_old(vp_nc))))
;
"""


def _unit(which, maxt, maxk):
    log = []
    rel = "include/parmcb/detail/cycles.hpp"
    text = X.src(rel)
    body = X.body_after(text, r"struct %s \{\s*void operator\(\)\(const Graph &g, const WeightMap &weight_map,\s*std::vector<parmcb::SPTree<Graph, WeightMap>> &trees,\s*std::vector<CandidateCycle<Graph, WeightMap>> &cycles\)\s*" % which,
                        which + "::operator()")
    rules = [
        (r"typedef typename [^;]*;", "", (1, 2), "drop", "typedefs"),
        (r"trees\.emplace_back\(trees\.size\(\), g, boost::get\(boost::vertex_index, g\), weight_map, v\);", "trees_emplace(vp_nt, v);", 1, "container-api",
         "emplace_back(trees.size(), ..., v): a tree with id = current size and source v"),
        (r"for \(auto &tree : trees\)", "for (size_t tree = 0; tree < vp_nt; tree++)", 1, "container-api", "range-for over the trees = their positions"),
        (r"std::vector<CandidateCycle<Graph, WeightMap>> tree_cycles = tree\.create_candidate_cycles\(\);\s*cycles\.insert\(cycles\.end\(\), tree_cycles\.begin\(\), tree_cycles\.end\(\)\);",
         "append_tree_cycles(tree);", 1, "container-api", "the tree's candidates (K14a) appended at the end of the list"),
    ]
    if which == "HortonCyclesBuilder":
        rules += [
            (r"VertexIt vi, viend;", "size_t vi, viend;", 1, "container-api", ""),
            (r"boost::tie\(vi, viend\) = boost::vertices\(g\)", "vi = 0, viend = vp_n", 1, "container-api", ""),
            (r"auto v = \*vi;", "size_t v = vi;", 1, "container-api", ""),
        ]
        nroots, root = "vp_n", "qt"
        inv0 = ("__CPROVER_assigns(vi, vp_nt, __CPROVER_object_whole(T_ID), __CPROVER_object_whole(T_ROOT))\n"
                "__CPROVER_loop_invariant(vi <= vp_n && viend == vp_n && vp_nt == vi && ALLT(qt, qt < vp_nt ==> (T_ID[qt] == qt && T_ROOT[qt] == qt)))\n__CPROVER_decreases(vp_n - vi)")
    else:
        rules += [
            (r"std::vector<Vertex> feedback_vertex_set;\s*parmcb::greedy_fvs\(g, std::back_inserter\(feedback_vertex_set\)\);", "", 1, "container-api",
             "greedy_fvs (K13) has filled FVS[0..vp_nf)"),
            (r"for \(auto v : feedback_vertex_set\)", "for (size_t fi = 0; fi < vp_nf; fi++)", 1, "container-api", "range-for over the feedback vertices"),
            (r"trees_emplace\(vp_nt, v\);", "trees_emplace(vp_nt, FVS[fi]);", 1, "container-api", "the loop variable v is FVS[fi]"),
        ]
        nroots, root = "vp_nf", "FVS[qt]"
        inv0 = ("__CPROVER_assigns(fi, vp_nt, __CPROVER_object_whole(T_ID), __CPROVER_object_whole(T_ROOT))\n"
                "__CPROVER_loop_invariant(fi <= vp_nf && vp_nt == fi && ALLT(qt, qt < vp_nt ==> (T_ID[qt] == qt && T_ROOT[qt] == FVS[qt])))\n__CPROVER_decreases(vp_nf - fi)")
    body = X.rewrite(body, rules, log)
    inv1 = ("__CPROVER_assigns(tree, vp_nc, __CPROVER_object_whole(CYC_T), __CPROVER_object_whole(CYC_K))\n"
            "__CPROVER_loop_invariant(tree <= vp_nt && vp_nc == PREFIX[tree] && ALLC(qc, qc < vp_nc ==> (CYC_T[qc] < tree && CYC_K[qc] < TCN[CYC_T[qc]] && qc == PREFIX[CYC_T[qc]] + CYC_K[qc])))\n"
            "__CPROVER_decreases(vp_nt - tree)")
    body = X.splice_loop_contracts(body, {0: inv0, 1: inv1}, log)
    fn = r"""
void build(void)
__CPROVER_requires(%(NROOTS)s <= MAXT && vp_nt == 0 && vp_nc == 0 && PREFIX[0] == 0)
__CPROVER_requires(ALLT(rt, TCN[rt] <= MAXK && PREFIX[rt + 1] == PREFIX[rt] + TCN[rt]))
__CPROVER_assigns(vp_nt, vp_nc, __CPROVER_object_whole(T_ID), __CPROVER_object_whole(T_ROOT), __CPROVER_object_whole(CYC_T), __CPROVER_object_whole(CYC_K))
/* one tree per root, in order, tree i has id i */
__CPROVER_ensures(vp_nt == %(NROOTS)s && ALLT(qt, qt < vp_nt ==> (T_ID[qt] == qt && T_ROOT[qt] == %(ROOT)s)))
/* the candidate list is the concatenation of the trees' candidate lists: position PREFIX[t] + k holds candidate k of tree t */
__CPROVER_ensures(vp_nc == PREFIX[vp_nt] && ALLC(pc, pc < vp_nc ==> (CYC_T[pc] < vp_nt && CYC_K[pc] < TCN[CYC_T[pc]] && pc == PREFIX[CYC_T[pc]] + CYC_K[pc])))
{%(BODY)s}
size_t vp_in_nroots;
void h_build(void) {
  vp_in_nroots = %(NROOTS)s;
  build();
  __CPROVER_assert(0, "VP_REACH end of harness");
}
""" % dict(NROOTS=nroots, ROOT=root, BODY=body)
    return dict(unit="K14b_" + which, site="K14b_" + which, lang="c", source=rel + " (%s::operator())" % which, text=PRE % dict(MAXT=maxt, MAXK=maxk) + _fresh(fn), entry="h_build",
                enforce="build", replace=["trees_emplace", "append_tree_cycles"], rewrites=log, timeout=900, flags=["--object-bits", "12"], unwind=16, loop_contracts=True, mode="proof", split=4,
                bound="proved(<= %d trees, <= %d candidates per tree): both loops closed by loop contracts with invariants quantified over the bounded ranges" % (maxt, maxk),
                dropped=["struct wrapper; typedefs"], functions={which + "::operator()": "proved(<=%d trees)" % maxt},
                assumptions=["contracts of std::vector::emplace_back / insert(end, range), of the SPTree constructor (stores id and source; contents: K12) and of create_candidate_cycles (K14a)"
                             + ("; greedy_fvs by its contract (K13)" if which == "FVSCyclesBuilder" else "")],
                trusted=["cbmc 6.11 + DFCC, SAT back end (bounded quantifier instantiation)"])


def units(tier):
    big = tier == "thorough"
    return [X.guarded("K14b_HortonCyclesBuilder", _unit, "HortonCyclesBuilder", 6 if big else 4, 4 if big else 3),
            X.guarded("K14b_FVSCyclesBuilder", _unit, "FVSCyclesBuilder", 6 if big else 4, 4 if big else 3)]
