"""K12b: SPTree::compute_first_in_path (include/parmcb/sptrees.hpp), bounded CBMC check of the extracted text.
Binding as in K11-parity: tree nodes are vertex ids, children() is CHILD[v][0..NCHILD[v]), std::stack<SPSubtree<..,Vertex>> is
two arrays + stack pointer, node->vertex() is the id.  Contract: FIRST[root] = root, and for every other tree node v
FIRST[v] is the child of the root whose subtree contains v (ghost table ANC1 defined from the parent pointers by the
harness).  Bounded: trees with at most MAXN nodes, all loops unwound."""
from lib import xtract as X


def _unit(maxn):
    log = []
    rel = "include/parmcb/sptrees.hpp"
    text = X.src(rel)
    body = X.body_after(text, r"void compute_first_in_path\(\)\s*", "SPTree::compute_first_in_path")
    body = X.drop_local_const(body, log)
    body = X.canon(body, [(r"SPSubtree<Graph, WeightMap, Vertex> (\w+) = stack\.top\(\);", ["r"]), (r"for \(auto (\w+) : r\.root->children\(\)\)", ["c"])], log)
    body = X.rewrite(body, [
        (r"std::stack<SPSubtree<Graph, WeightMap, Vertex>> stack;", "size_t sp = 0;", 1, "container-api", "std::stack -> arrays SINFO/SROOT + stack pointer"),
        (r"stack\.emplace\(_source, _root\);", "SINFO[sp] = vp_source; SROOT[sp] = vp_root; sp++;", 1, "container-api", "push (source, root)"),
        (r"!stack\.empty\(\)", "sp != 0", 1, "container-api", ""),
        (r"SPSubtree<Graph, WeightMap, Vertex> r = stack\.top\(\);\s*stack\.pop\(\);", "sp--; size_t r_info = SINFO[sp]; size_t r_root = SROOT[sp];", 1, "container-api", "top + pop"),
        (r"r\.root == _root", "r_root == vp_root", (1, 2), "container-api", ""),
        (r"auto v = r\.root->vertex\(\);", "size_t v = r_root;", (1, 3), "container-api", "node->vertex() is the node's id (K12a)"),
        (r"auto vindex = _index_map\[v\];", "size_t vindex = v;", (1, 3), "container-api", ""),
        (r"_first_in_path\[vindex\] = ([^;]+);", lambda m: "FIRST[vindex] = %s;" % m.group(1).replace("r.info", "r_info"), (1, 3), "container-api", ""),
        (r"for \(auto c : r\.root->children\(\)\)", "for (size_t ci = 0; ci < NCHILD[r_root]; ci++)", (1, 3), "container-api", "range-for over the children list"),
        (r"stack\.emplace\(\s*SPSubtree<Graph, WeightMap, Vertex> \{\s*static_cast<Vertex>\(([^{};]*?)\),\s*c \}\);",
         lambda m: "{ size_t c = CHILD[r_root][ci]; __CPROVER_assert(sp < 2 * MAXN, \"VP_BOUND stack capacity\"); SINFO[sp] = (size_t)(%s); SROOT[sp] = c; sp++; }"
         % m.group(1).replace("r.info", "r_info").replace("c->vertex()", "c").replace("r.root->vertex()", "r_root"), (1, 3), "container-api", "push (label, child); c->vertex() is c"),
    ], log)
    fn = r"""
#include <stddef.h>
typedef _Bool bool;
#define true 1
#define false 0
#define MAXN %d
size_t vp_n, vp_root, vp_source;
size_t NCHILD[MAXN + 1], CHILD[MAXN + 1][MAXN + 1], PARENT[MAXN + 1], DEPTH[MAXN + 1], ANC1[MAXN + 1], FIRST[MAXN + 1];
bool INTREE[MAXN + 1];
size_t SINFO[2 * MAXN + 1], SROOT[2 * MAXN + 1];
void compute_first_in_path(void) {%s}
size_t vp_in_n, vp_in_root;
void h_first(void) {
  __CPROVER_assume(vp_n >= 1 && vp_n <= MAXN && vp_root < vp_n && vp_source == vp_root);
  /* an arbitrary rooted tree on a subset of the vertices (parent pointers with decreasing depth, children lists = inverse of the parent
     relation); ANC1[v] = the ancestor of v at depth 1 (v itself for children of the root), the root for the root */
  for (size_t v = 0; v < MAXN; v++) if (v < vp_n) {
    __CPROVER_assume(NCHILD[v] <= MAXN && INTREE[v] <= 1);
    if (v == vp_root) { __CPROVER_assume(INTREE[v] && DEPTH[v] == 0 && ANC1[v] == v); }
    else if (INTREE[v]) {
      size_t p = PARENT[v];
      __CPROVER_assume(p < vp_n && INTREE[p] && DEPTH[v] == DEPTH[p] + 1 && DEPTH[v] < MAXN && ANC1[v] == (p == vp_root ? v : ANC1[p]));
      bool listed = 0; for (size_t i = 0; i < MAXN; i++) if (i < NCHILD[p] && CHILD[p][i] == v) listed = 1;
      __CPROVER_assume(listed);
    }
    for (size_t i = 0; i < MAXN; i++) if (i < NCHILD[v]) {
      size_t c = CHILD[v][i];
      __CPROVER_assume(c < vp_n && c != vp_root && INTREE[c] && PARENT[c] == v && INTREE[v]);
      for (size_t j = 0; j < MAXN; j++) if (j < i) __CPROVER_assume(CHILD[v][j] != c);
    }
  }
  vp_in_n = vp_n; vp_in_root = vp_root;
  compute_first_in_path();
  for (size_t v = 0; v < MAXN; v++) if (v < vp_n && INTREE[v])
    __CPROVER_assert(FIRST[v] == ANC1[v], "K12b: first(v) is the child of the root whose subtree holds v (the root itself for the root)");
  __CPROVER_assert(0, "VP_REACH end of harness");
}
""" % (maxn, body)
    return dict(unit="K12b_first_in_path", lang="c", source=rel + " (SPTree::compute_first_in_path)", text=fn, entry="h_first", mode="bounded",
                unwind=2 * maxn + 2, timeout=900, flags=["--nondet-static"], bound="trees with <= %d nodes, all loops unwound" % maxn, rewrites=log,
                dropped=["class wrapper"], functions={"SPTree::compute_first_in_path": "bounded(n<=%d)" % maxn},
                assumptions=["the node/children structure is a rooted tree with node->vertex() == id (K12a); shared_ptr / std::stack / children vector bound to tables"],
                trusted=["cbmc 6.11 SAT back end"])


def units(tier):
    return [X.guarded("K12b_first_in_path", _unit, 6 if tier == "thorough" else 5)]
