"""K10 (sequential): the shortest-odd-cycle phase of mcb_sva_signed - the whole
`if (signed_edges.size() >= num_vertices(g)) {...} else {...}` statement of
include/parmcb/parmcb_sva_signed.hpp - verified MODULARLY against the contract K9 of
bidirectional_signed_dijkstra (--replace-call-with-contract).

Binding (container API -> assumed contract): a signed edge is its POSITION 0..s-1 in the iteration
order of std::set<Edge> signed_edges; a std::set of signed edges is a bit mask over positions
(begin() = lowest set bit, erase(begin()) clears it, copy = mask copy); vertices are 0..n-1.  The true
answers of the search are ghost arrays (FA/DA per start vertex, FB/DB per signed edge), so the phase
postcondition is stated for an arbitrary ghost index - no quantifier.
What the caller owes the callee at every call (checked as callee precondition): in hidden-edge mode
the hidden set is exactly the suffix {se..s-1} of the chain and the endpoints are those of its first
element."""
import re
from lib import xtract as X

PRELUDE = r"""
#include <stddef.h>
typedef _Bool bool;
#define true 1
#define false 0
typedef long W;                                  /* exact-domain weights: integers */
#define W_MAX 9223372036854775807L
#define WBOUND 1099511627776L                    /* 2^40: sums of two weights cannot overflow */
typedef struct { unsigned long edges; W weight; bool exists; } cycle_t;
#define GET0(c) ((c).edges)
#define GET1(c) ((c).weight)
#define GET2(c) ((c).exists)
#define VP_LESS(a, b) ((a) < (b))
#define ALLMASK(s) ((1UL << (s)) - 1UL)
#define SUFFIX(i, s) (ALLMASK(s) & ~((1UL << (i)) - 1UL))
#define MAXS %(MAXS)s
#define MAXN %(MAXN)s
size_t vp_s, vp_n;                               /* |signed_edges|, |V| */
size_t SRC[MAXS + 1], TGT[MAXS + 1];             /* endpoints of the signed edges by position */
W WSE[MAXS + 1];                                 /* their weights */
bool FB[MAXS + 1]; W DB[MAXS + 1];               /* ghost: true answer of the hidden-chain search for position i */
bool FA[MAXN + 1]; W DA[MAXN + 1];               /* ghost: true answer of the v+ -> v- search for vertex v */
#define assert(c) __CPROVER_assert((c), "repository assert")

/* K9: contract of bidirectional_signed_dijkstra as used by this caller */
cycle_t search(unsigned long hidden, bool use_hidden, size_t sv, bool s_pos, size_t tv, bool t_pos, bool use_limit, W limit)
/* all-vertices mode: odd closed walk from v+ to v-, nothing hidden */
__CPROVER_requires(!use_hidden ==> (hidden == 0 && sv == tv && sv < vp_n && s_pos && !t_pos))
/* hidden-chain mode: hidden is exactly the suffix starting at its first element se, endpoints are those of se */
__CPROVER_requires(use_hidden ==> (hidden != 0 && hidden == SUFFIX((size_t)__builtin_ctzl(hidden), vp_s)
                                   && sv == SRC[__builtin_ctzl(hidden)] && tv == TGT[__builtin_ctzl(hidden)] && s_pos && t_pos))
__CPROVER_assigns()
__CPROVER_ensures(!use_hidden ==> (__CPROVER_return_value.exists == (FA[sv] && (!use_limit || DA[sv] < limit))))
__CPROVER_ensures((!use_hidden && __CPROVER_return_value.exists) ==> __CPROVER_return_value.weight == DA[sv])
__CPROVER_ensures(use_hidden ==> (__CPROVER_return_value.exists == (FB[__builtin_ctzl(hidden)] && (!use_limit || DB[__builtin_ctzl(hidden)] < limit))))
__CPROVER_ensures((use_hidden && __CPROVER_return_value.exists) ==> (__CPROVER_return_value.weight == DB[__builtin_ctzl(hidden)] && (__CPROVER_return_value.edges & hidden) == 0))
;
"""


def _unit(bounded):
    log = []
    rel = "include/parmcb/parmcb_sva_signed.hpp"
    text = X.src(rel)
    stmt = X.stmt_after(text, r"convert_edges\(support\[k\], std::inserter\(signed_edges, signed_edges\.end\(\)\), forest_index\);",
                        r"\bif\s*\(", "phase if/else of mcb_sva_signed")
    # stmt_after returns `if (...) {...}`; append the else block that follows it
    at = text.index(stmt) + len(stmt)
    m = re.match(r"\s*else\s*", text[at:])
    if not m:
        from lib.core import Undecided
        raise Undecided("extraction out of date: else branch of the phase not found")
    i = text.index("{", at)
    j = X._match_close(text, i, "{", "}")
    stmt = stmt + text[at:j + 1]
    stmt = X.rewrite(stmt, [
        (r"signed_edges\.size\(\)", "vp_s", 1, "container-api", "std::set::size"),
        (r"boost::num_vertices\(g\)", "vp_n", 1, "container-api", "num_vertices"),
        (r"VertexIt vi, viend;", "size_t vi, viend;", 1, "container-api", "vertex iterator = ordinal"),
        (r"boost::tie\(vi, viend\) = boost::vertices\(g\)", "vi = 0, viend = vp_n", 1, "container-api", "vertices(g) = 0..n"),
        (r"auto v = \*vi;", "size_t v = vi;", 1, "container-api", ""),
        (r"auto res = bidirectional_signed_dijkstra\(g, weight_map, signed_edges, std::set<Edge> \{ \},\s*", "cycle_t res = search(0UL, ", 1,
         "overload-resolution", "callee -> its contract K9; empty hidden set = empty mask"),
        (r"auto res = bidirectional_signed_dijkstra\(g, weight_map, signed_edges, hidden_edges, ", "cycle_t res = search(hidden_edges, ", 1,
         "overload-resolution", "callee -> its contract K9"),
        (r"std::get<([012])>\((best|res)\)", r"GET\1(\2)", (12, 24), "overload-resolution", "tuple fields"),
        (r"\bcompare\(", "VP_LESS(", (2, 8), "overload-resolution", "compare is std::less<WeightType>"),
        (r"std::set<Edge> hidden_edges;", "unsigned long hidden_edges = 0;", 1, "container-api", "std::set of signed edges = mask"),
        (r"std::copy\(signed_edges\.begin\(\), signed_edges\.end\(\), std::inserter\(hidden_edges, hidden_edges\.begin\(\)\)\);",
         "hidden_edges = ALLMASK(vp_s);", 1, "container-api", "copy of the whole set"),
        (r"for \(auto sei = signed_edges\.begin\(\); sei != signed_edges\.end\(\); sei\+\+\)", "for (size_t sei = 0; sei != vp_s; ++sei)", 1,
         "container-api", "set iteration = positions 0..s"),
        (r"auto se = \*sei;", "size_t se = sei;", 1, "container-api", ""),
        (r"auto se_v = boost::source\(se, g\);", "size_t se_v = SRC[se];", 1, "container-api", ""),
        (r"auto se_u = boost::target\(se, g\);", "size_t se_u = TGT[se];", 1, "container-api", ""),
        (r"hidden_edges\.erase\(hidden_edges\.begin\(\)\);", "hidden_edges = hidden_edges & (hidden_edges - 1UL);", 1, "container-api",
         "erase(begin()) removes the smallest element"),
        (r"GET0\(res\)\.find\(se\) == GET0\(res\)\.end\(\)", "(((GET0(res)) >> se) & 1UL) == 0", 1, "container-api", "set membership"),
        (r"boost::get\(weight_map, se\)", "WSE[se]", (1, 3), "container-api", "weight of the signed edge"),
        (r"GET0\(res\)\.insert\(se\);", "GET0(res) |= (1UL << se);", 1, "container-api", "set insert"),
    ], log)
    invA = ("__CPROVER_assigns(vi, best)\n"
            "__CPROVER_loop_invariant(vi <= vp_n && viend == vp_n)\n"
            "__CPROVER_loop_invariant((v0 < vi && FA[v0]) ==> (best.exists && best.weight <= DA[v0]))\n"
            "__CPROVER_decreases(vp_n - vi)")
    invB = ("__CPROVER_assigns(sei, best, hidden_edges)\n"
            "__CPROVER_loop_invariant(sei <= vp_s && hidden_edges == SUFFIX(sei, vp_s))\n"
            "__CPROVER_loop_invariant((g0 < sei && FB[g0]) ==> (best.exists && best.weight <= DB[g0] + WSE[g0]))\n"
            "__CPROVER_decreases(vp_s - sei)")
    if not bounded:
        stmt = X.splice_loop_contracts(stmt, {0: invA, 1: invB}, log)
    fn = r"""
cycle_t best;
void phase(size_t v0, size_t g0)
__CPROVER_requires(vp_s >= 1 && vp_s <= %(SCAP)s && vp_n >= 1 && vp_n <= MAXN && v0 < vp_n && g0 < vp_s)
__CPROVER_requires(best.exists == 0 && best.weight == W_MAX)          /* the initialisation just above the statement */
/* exact domain: positive bounded integer weights (all positions; arrays are global ghosts) */
__CPROVER_requires(DA[v0] > 0 && DA[v0] < WBOUND && DB[g0] > 0 && DB[g0] < WBOUND && WSE[g0] > 0 && WSE[g0] < WBOUND)
__CPROVER_assigns(best)
/* K10: the phase returns a candidate at least as good as EVERY search it is responsible for */
__CPROVER_ensures((vp_s >= vp_n && FA[v0]) ==> (best.exists && best.weight <= DA[v0]))
__CPROVER_ensures((vp_s < vp_n && FB[g0]) ==> (best.exists && best.weight <= DB[g0] + WSE[g0]))
{
  %(STMT)s
}
size_t vp_in_s, vp_in_n, vp_in_v0, vp_in_g0;
void h_phase(void) {
  size_t v0, g0;
  /* every weight in the ghost tables is a positive bounded integer */
  for (size_t i = 0; i <= MAXS; i++) __CPROVER_assume(DB[i] > 0 && DB[i] < WBOUND && WSE[i] > 0 && WSE[i] < WBOUND && FB[i] <= 1);
  for (size_t i = 0; i <= MAXN; i++) __CPROVER_assume(DA[i] > 0 && DA[i] < WBOUND && FA[i] <= 1);
  vp_in_s = vp_s; vp_in_n = vp_n; vp_in_v0 = v0; vp_in_g0 = g0;
  phase(v0, g0);
  __CPROVER_assert(0, "VP_REACH end of harness");
}
""" % dict(STMT=stmt, SCAP="MAXS")
    name = "K10_phase_signed_seq" + ("_bounded" if bounded else "")
    spec = dict(unit=name, site="K10_phase_signed_seq", lang="c", source=rel + " (shortest-odd-cycle phase, both branches)",
                text=PRELUDE % dict(MAXN="4" if bounded else "64", MAXS="4" if bounded else "63") + fn, entry="h_phase", enforce="phase", replace=["search"],
                rewrites=log, timeout=600, dropped=["timers; the final assert after the statement (needs existence of an odd cycle)"],
                assumptions=["K9 contract of bidirectional_signed_dijkstra (bounded stand-in e3_search)",
                             "std::set<Edge> bound to a mask over positions in its own iteration order (<= 63 signed edges); integer weights < 2^40"],
                trusted=["cbmc 6.11 + DFCC, SAT back end"])
    if bounded:
        spec.update(mode="bounded", bound="s<=4, n<=4, unwound", unwind=7, functions={"mcb_sva_signed: odd-cycle phase": "bounded(s,n<=4)"})
    else:
        spec.update(mode="proof", bound="unbounded in the number of vertices (n<=64 table cap) and signed edges (s<=63 mask cap)", loop_contracts=True,
                    unwind=66, fallback=lambda: _unit(True), functions={"mcb_sva_signed: odd-cycle phase (both branches)": "proved against K9"})
    return spec


def units(tier):
    return [X.guarded("K10_phase_signed_seq", _unit, False)]
