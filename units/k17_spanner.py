"""K17a / K18a: loops of include/parmcb/detail/approx_spanner.hpp under contract (E1).

K17a  the edge loop of BaseApproxSpannerAlgorithm::construct_spanner, modular against the contract of
      is_bfs_reachable (arbitrary answer; the caller owes it the hop bound 2k-1 and distinct endpoints):
      every input edge (in sorted order) is either RETAINED - appended to the spanner with the mapped
      endpoints, the input edge's weight, and a translation entry back to it - or DROPPED, never both,
      and nothing else is added (|retained| + |dropped| = m).
K18a  the translation loop of BaseApproxSpannerAlgorithm::run: every edge handed to the caller for a
      spanner cycle is the translation of a spanner edge (a caller's edge) and the accumulated weight is
      the sum of the CALLER's weights of exactly those edges.
Binding: edges are ordinals; sorted_edges is the array SORTED of ordinals; the spanner is three arrays
(SPS, SPT, SPW) + count; std::map / std::vector / std::list are arrays + counts.  Ghost writes record, per
sorted position, what happened to the edge."""
import re
from lib import xtract as X
from lib.core import Undecided

PRE = r"""
#include <stddef.h>
typedef _Bool bool;
#define true 1
#define false 0
#define MAXM %(MAXM)s
typedef long W;
int vp_thrown;
#define VP_THROW(msg) do { vp_thrown = 1; return; } while (0)
size_t vp_m, vp_n, vp_k;
size_t SORTED[MAXM + 1];               /* sorted_edges: position -> input edge ordinal */
size_t SRC[MAXM + 1], TGT[MAXM + 1];   /* endpoints of the input edges */
W WT[MAXM + 1];                        /* the caller's weight map */
size_t MAP[MAXM + 2];                  /* _vertex_g_to_spanner */
size_t SPS[MAXM + 1], SPT[MAXM + 1]; W SPW[MAXM + 1]; size_t vp_ns;      /* the spanner's edges */
size_t TR[MAXM + 1];                   /* _edge_spanner_to_g */
size_t DROP[MAXM + 1]; size_t vp_nd;   /* _non_spanner_edges */
int GST[MAXM + 1]; size_t GIDX[MAXM + 1];   /* ghost: fate of the edge at each sorted position */
_Bool GRV[MAXM + 1]; size_t GNS[MAXM + 1], GQS[MAXM + 1], GQT[MAXM + 1];   /* ghost: answer of is_bfs_reachable at that position, on how many spanner edges, for which endpoints */
"""


def _construct(bounded, cap=12):
    log = []
    rel = "include/parmcb/detail/approx_spanner.hpp"
    text = X.src(rel)
    text = X.body_after(text, r"\bvoid construct_spanner\(\)\s*", "construct_spanner")
    text = X.inline_temps(X.canon(text, [(r"EdgeVectorIt (\w+), (\w+);", ["ei", "ei_end"])], log), log)
    loop = X.stmt_after(text, r"EdgeVectorIt ei, ei_end;", r"\bfor\s*\(", "edge loop of construct_spanner")
    loop = X.rewrite(loop, [
        (r"ei = sorted_edges\.begin\(\), ei_end = sorted_edges\.end\(\)", "ei = 0, ei_end = vp_m", 1, "container-api", "vector iterators = positions"),
        (r"ei != sorted_edges\.end\(\)", "ei != vp_m", 1, "container-api", ""),
        (r"Edge e = \*ei;", "size_t e = SORTED[ei];", 1, "container-api", ""),
        (r"Vertex v = boost::source\(e, _g\);", "size_t v = SRC[e];", 1, "container-api", ""),
        (r"Vertex u = boost::target\(e, _g\);", "size_t u = TGT[e];", 1, "container-api", ""),
        (r"Vertex spanner_v = _vertex_g_to_spanner\[v\];", "size_t spanner_v = MAP[v];", 1, "container-api", ""),
        (r"Vertex spanner_u = _vertex_g_to_spanner\[u\];", "size_t spanner_u = MAP[u];", 1, "container-api", ""),
        (r"throw std::runtime_error\((\"[^\"]*\")\);", r"VP_THROW(\1);", 1, "exceptions", ""),
        (r"parmcb::is_bfs_reachable\(_spanner, ", "reach(", 1, "overload-resolution", "callee -> its contract"),
        (r"\b_k\b", "vp_k", 1, "type-binding", ""),
        (r"Edge spanner_e = std::get<0>\(\s*boost::add_edge\(spanner_v, spanner_u, _spanner\)\);",
         "size_t spanner_e = vp_ns; SPS[vp_ns] = spanner_v; SPT[vp_ns] = spanner_u; vp_ns++; GRV[ei] = vp_last_reach; GNS[ei] = vp_last_ns; GQS[ei] = vp_last_s; GQT[ei] = vp_last_t;", 1, "container-api",
         "boost::add_edge on the spanner = append (source,target), descriptor = ordinal"),
        (r"boost::get\(_weight_map, (\w+)\)", r"WT[\1]", (0, 3), "container-api", "the caller's weight map"),
        (r"boost::put\(boost::edge_weight, _spanner, (\w+), ([^;]*)\);", r"SPW[\1] = \2;", (0, 1), "container-api",
         "edge_weight property of the spanner edge"),
        (r"_edge_spanner_to_g\[spanner_e\] = e;", "TR[spanner_e] = e; GST[ei] = 1; GIDX[ei] = spanner_e;", 1, "ghost", "map insert + ghost: position ei retained as spanner edge"),
        (r"_non_spanner_edges\.push_back\(e\);", "DROP[vp_nd] = e; GST[ei] = 2; GIDX[ei] = vp_nd; vp_nd++; GRV[ei] = vp_last_reach; GNS[ei] = vp_last_ns; GQS[ei] = vp_last_s; GQT[ei] = vp_last_t;", 1, "ghost", "push_back + ghost: position ei dropped"),
    ], log)
    inv = ("__CPROVER_assigns(ei, ei_end, vp_ns, vp_nd, vp_thrown, __CPROVER_object_whole(SPS), __CPROVER_object_whole(SPT), __CPROVER_object_whole(SPW), "
           "__CPROVER_object_whole(TR), __CPROVER_object_whole(DROP), __CPROVER_object_whole(GST), __CPROVER_object_whole(GIDX), __CPROVER_object_whole(GRV), __CPROVER_object_whole(GNS), __CPROVER_object_whole(GQS), __CPROVER_object_whole(GQT), vp_last_reach, vp_last_ns, vp_last_s, vp_last_t)\n"
           "__CPROVER_loop_invariant(ei <= vp_m && vp_ns <= ei && vp_nd <= ei && vp_ns + vp_nd == ei && !vp_thrown)\n"
           "__CPROVER_loop_invariant(p0 < ei ==> ((GST[p0] == 1 && GIDX[p0] < vp_ns && TR[GIDX[p0]] == SORTED[p0] && SPS[GIDX[p0]] == MAP[SRC[SORTED[p0]]] "
           "&& SPT[GIDX[p0]] == MAP[TGT[SORTED[p0]]] && SPW[GIDX[p0]] == WT[SORTED[p0]]) || (GST[p0] == 2 && GIDX[p0] < vp_nd && DROP[GIDX[p0]] == SORTED[p0])))\n"
           "__CPROVER_loop_invariant(p0 < ei ==> (((GST[p0] == 2) == (GRV[p0] == 1)) && GQS[p0] == MAP[SRC[SORTED[p0]]] && GQT[p0] == MAP[TGT[SORTED[p0]]] && GNS[p0] <= vp_ns && (GST[p0] == 1 ==> GNS[p0] == GIDX[p0])))\n"
           "__CPROVER_decreases(vp_m - ei)")
    if not bounded:
        loop = X.splice_loop_contracts(loop, {0: inv}, log)
    fn = r"""
/* contract of is_bfs_reachable as used here: any answer; the caller owes it distinct endpoints and the hop bound 2k-1 */
bool vp_last_reach; size_t vp_last_ns, vp_last_s, vp_last_t;      /* ghost: the last question put to is_bfs_reachable and its answer */
bool reach(size_t s, size_t t, size_t max_hops)
__CPROVER_requires(s != t && max_hops == 2 * vp_k - 1)
__CPROVER_assigns(vp_last_reach, vp_last_ns, vp_last_s, vp_last_t)
__CPROVER_ensures(__CPROVER_return_value <= 1 && vp_last_reach == __CPROVER_return_value && vp_last_ns == vp_ns && vp_last_s == s && vp_last_t == t)
;
void construct(size_t p0)
__CPROVER_requires(vp_m <= MAXM && p0 < vp_m && vp_ns == 0 && vp_nd == 0 && vp_thrown == 0 && vp_k >= 1 && vp_k <= 1000000)
/* simple input graph and an injective vertex map (established by the vertex loop just above) */
__CPROVER_requires(SORTED[p0] < vp_m && SRC[SORTED[p0]] <= MAXM && TGT[SORTED[p0]] <= MAXM)
__CPROVER_assigns(vp_ns, vp_nd, vp_thrown, __CPROVER_object_whole(SPS), __CPROVER_object_whole(SPT), __CPROVER_object_whole(SPW),
                  __CPROVER_object_whole(TR), __CPROVER_object_whole(DROP), __CPROVER_object_whole(GST), __CPROVER_object_whole(GIDX), __CPROVER_object_whole(GRV), __CPROVER_object_whole(GNS), __CPROVER_object_whole(GQS), __CPROVER_object_whole(GQT), vp_last_reach, vp_last_ns, vp_last_s, vp_last_t)
/* retained and dropped edges partition the edge set */
__CPROVER_ensures(!vp_thrown ==> vp_ns + vp_nd == vp_m)
/* a retained edge is in the spanner with the mapped endpoints, the INPUT edge's weight and a translation back to it */
__CPROVER_ensures(!vp_thrown ==> (GST[p0] == 1 || GST[p0] == 2))
__CPROVER_ensures((!vp_thrown && GST[p0] == 1) ==> (GIDX[p0] < vp_ns && TR[GIDX[p0]] == SORTED[p0] && SPS[GIDX[p0]] == MAP[SRC[SORTED[p0]]]
                                                    && SPT[GIDX[p0]] == MAP[TGT[SORTED[p0]]] && SPW[GIDX[p0]] == WT[SORTED[p0]]))
__CPROVER_ensures((!vp_thrown && GST[p0] == 2) ==> (GIDX[p0] < vp_nd && DROP[GIDX[p0]] == SORTED[p0]))
/* the decision: the edge at position p0 is dropped IFF is_bfs_reachable answered true when asked for its mapped endpoints on the spanner built from the earlier positions */
__CPROVER_ensures(!vp_thrown ==> (((GST[p0] == 2) == (GRV[p0] == 1)) && GQS[p0] == MAP[SRC[SORTED[p0]]] && GQT[p0] == MAP[TGT[SORTED[p0]]] && GNS[p0] <= vp_ns && (GST[p0] == 1 ==> GNS[p0] == GIDX[p0])))
{
  size_t ei, ei_end;
  %s
}
size_t vp_in_m, vp_in_p0, vp_in_k;
void h_construct(void) {
  size_t p0;
  __CPROVER_assume(vp_m <= MAXM);
  for (size_t i = 0; i <= MAXM; i++) __CPROVER_assume(SORTED[i] < vp_m && SRC[i] <= MAXM && TGT[i] <= MAXM && (i >= vp_m || MAP[SRC[i]] != MAP[TGT[i]]));
  vp_in_m = vp_m; vp_in_p0 = p0; vp_in_k = vp_k;
  construct(p0);
  __CPROVER_assert(0, "VP_REACH end of harness");
}
""" % loop
    name = "K17a_construct_spanner" + ("_bounded" if bounded else "")
    spec = dict(unit=name, site="K17a_construct_spanner", lang="c", source=rel + " (edge loop of construct_spanner)",
                text=PRE % dict(MAXM="4" if bounded else str(cap)) + fn, entry="h_construct", enforce="construct", replace=["reach"], rewrites=log, timeout=900, split=16,
                dropped=["sorting and the vertex loop above (std::sort contract / vertex bijection are preconditions); logging"],
                assumptions=["is_bfs_reachable is represented by an arbitrary boolean answer whose value decides the edge's fate (proved: dropped <=> answered true, asked for the mapped endpoints with hop bound 2k-1 on the spanner built so far); what the answer means is K17b; stretch and girth follow informally (DESIGN 10.8) and are enforced bounded (e3_approx[spanner])",
                             "Boost add_edge / property put / std::map / std::vector bound to arrays as stated in the rewrite log"],
                trusted=["cbmc 6.11 + DFCC, SAT back end"])
    if bounded:
        spec.update(mode="bounded", bound="m<=4, unwound", unwind=7, functions={"construct_spanner edge loop": "bounded(m<=4)"})
    else:
        spec.update(mode="proof", bound="loop closed by its contract; m <= %d only because" % cap + " simple-graph facts about the ghost tables are stated by an unwound harness loop",
                    loop_contracts=True, unwind=max(cap + 3, 26), fallback=lambda: _construct(True), functions={"construct_spanner edge loop": "proved(m<=%d): partition" % cap + ", translation, endpoints, weights; hop bound 2k-1 owed to is_bfs_reachable"})
    return spec


def _translate(bounded, mc=3, ml=4):
    """K18a: translation loop in run()."""
    log = []
    rel = "include/parmcb/detail/approx_spanner.hpp"
    text = X.src(rel)
    loop = X.stmt_after(text, r"exact_mcb_algo\(\s*_spanner,\s*spanner_weight_map,\s*std::back_inserter\(spanner_cycles\)\);", r"\bfor\s*\(",
                        "translation loop of run()")
    loop = X.rewrite(loop, [
        (r"for \(const auto &spanner_cycle : spanner_cycles\)", "for (size_t cyc = 0; cyc < vp_nc; cyc++)", 1, "container-api", "range-for over the list of cycles"),
        (r"std::list<Edge> cycle_edgelist;", "size_t vp_len = 0;", 1, "container-api", "std::list -> row OUT[cyc][..] + length"),
        (r"for \(const auto &spanner_e : spanner_cycle\)", "for (size_t pos = 0; pos < CLEN[cyc]; pos++)", 1, "container-api", "range-for over the edges of one cycle"),
        (r"(?:const )?Edge e = _edge_spanner_to_g\.at\(spanner_e\);", "size_t spanner_e = CYC[cyc][pos]; size_t e = TR[spanner_e];", 1, "container-api", "std::map::at (key present: K17a)"),
        (r"cycle_edgelist\.push_back\(e\);", "OUT[cyc][vp_len++] = e;", 1, "container-api", ""),
        (r"boost::get\(_weight_map, (\w+)\)", r"WT[\1]", (0, 3), "container-api", "the CALLER's weight map"),
        (r"boost::get\(spanner_weight_map, (\w+)\)", r"SPW[\1]", (0, 3), "container-api", "the spanner's weight map"),
        (r"\b_weight \+=", "vp_weight +=", 1, "type-binding", "member _weight"),
        (r"\*out\+\+ = cycle_edgelist;", "OLEN[vp_emitted++] = vp_len;", 1, "container-api", "output iterator"),
    ], log)
    inv_outer = ("__CPROVER_assigns(cyc, vp_weight, vp_emitted, __CPROVER_object_whole(OUT), __CPROVER_object_whole(OLEN))\n"
                 "__CPROVER_loop_invariant(cyc <= vp_nc && vp_emitted == cyc && vp_weight == vp_w0 + SUMS[cyc])\n"
                 "__CPROVER_loop_invariant((c0 < cyc && q0 < CLEN[c0]) ==> (OLEN[c0] == CLEN[c0] && OUT[c0][q0] == TR[CYC[c0][q0]]))\n"
                 "__CPROVER_decreases(vp_nc - cyc)")
    inv_inner = ("__CPROVER_assigns(pos, vp_len, vp_weight, __CPROVER_object_whole(OUT))\n"
                 "__CPROVER_loop_invariant(pos <= CLEN[cyc] && vp_len == pos && vp_weight == vp_w0 + SUMS[cyc] + PART[cyc][pos])\n"
                 "__CPROVER_loop_invariant((c0 < cyc && q0 < CLEN[c0]) ==> OUT[c0][q0] == TR[CYC[c0][q0]])\n"
                 "__CPROVER_loop_invariant((c0 == cyc && q0 < pos) ==> OUT[c0][q0] == TR[CYC[c0][q0]])\n"
                 "__CPROVER_decreases(CLEN[cyc] - pos)")
    if not bounded:
        loop = X.splice_loop_contracts(loop, {0: inv_outer, 1: inv_inner}, log)
    fn = r"""
#define MAXC %(MAXC)s
#define MAXL %(MAXL)s
size_t vp_nc; size_t CLEN[MAXC + 1]; size_t CYC[MAXC + 1][MAXL + 1];     /* spanner_cycles: the exact phase's output (spanner edge ordinals) */
size_t OUT[MAXC + 1][MAXL + 1]; size_t OLEN[MAXC + 1]; size_t vp_emitted;  /* what the caller receives */
W vp_weight, vp_w0;
W PART[MAXC + 1][MAXL + 2];            /* ghost: caller weight of the first j edges of cycle c */
W SUMS[MAXC + 2];                      /* ghost: caller weight of the first c cycles */
void translate(size_t c0, size_t q0)
__CPROVER_requires(vp_nc <= MAXC && c0 < vp_nc && q0 < CLEN[c0] && vp_emitted == 0 && vp_weight == vp_w0)
__CPROVER_assigns(vp_weight, vp_emitted, __CPROVER_object_whole(OUT), __CPROVER_object_whole(OLEN))
/* one output cycle per spanner cycle, edge for edge the translation (a CALLER's edge, K17a) */
__CPROVER_ensures(vp_emitted == vp_nc && OLEN[c0] == CLEN[c0] && OUT[c0][q0] == TR[CYC[c0][q0]])
/* the weight added is the sum of the CALLER's weights over exactly the emitted edges */
__CPROVER_ensures(vp_weight == vp_w0 + SUMS[vp_nc])
{
  %(LOOP)s
}
void h_translate(void) {
  size_t c0, q0;
  __CPROVER_assume(vp_nc <= MAXC && vp_w0 >= 0 && vp_w0 < 1000000000000L);
  SUMS[0] = 0;
  for (size_t c = 0; c <= MAXC; c++) {
    __CPROVER_assume(CLEN[c] <= MAXL);
    PART[c][0] = 0;
    for (size_t j = 0; j < MAXL + 1; j++) {
      __CPROVER_assume(CYC[c][j] <= MAXM && TR[CYC[c][j]] <= MAXM && WT[TR[CYC[c][j]]] > 0 && WT[TR[CYC[c][j]]] < 1000000000L);
      PART[c][j + 1] = PART[c][j] + WT[TR[CYC[c][j]]];       /* definition of the ghost partial sums */
    }
    SUMS[c + 1] = SUMS[c] + PART[c][CLEN[c]];
  }
  translate(c0, q0);
  __CPROVER_assert(0, "VP_REACH end of harness");
}
""" % dict(MAXC="3" if bounded else str(mc), MAXL="3" if bounded else str(ml), LOOP=loop)
    name = "K18a_translate_cycles" + ("_bounded" if bounded else "")
    spec = dict(unit=name, site="K18a_translate_cycles", lang="c", source=rel + " (run(): translation of the exact phase's cycles)",
                text=PRE % dict(MAXM="8") + fn, entry="h_translate", enforce="translate", rewrites=log, timeout=900,
                dropped=["the exact algorithm call (its contract K16 is bounded only) and the non-spanner builder that follows"],
                assumptions=["every spanner edge has a translation entry (K17a); the exact phase emits spanner edges only (K16)"],
                trusted=["cbmc 6.11 + DFCC, SAT back end"])
    if bounded:
        spec.update(mode="bounded", bound="<=3 cycles of <=3 edges, unwound", unwind=6, functions={"run(): translation loop": "bounded(3x3)"})
    else:
        spec.update(mode="proof", bound="both loops closed by their contracts; small tables (quick 3x4, thorough 4x5) only because the ghost partial sums are defined by unwound harness loops",
                    loop_contracts=True, unwind=ml + 4, fallback=lambda: _translate(True),
                    functions={"run(): translation loop": "proved(<=3 cycles x <=4 edges): caller's edges, caller's weights"})
    return spec


def _k0():
    """K18c: run() rejects k < 1 before anything is computed or emitted (loop-free: all k)."""
    log = []
    rel = "include/parmcb/detail/approx_spanner.hpp"
    text = X.src(rel)
    body = X.body_after(text, r"WeightType run\(CycleOutputIterator out\)\s*", "BaseApproxSpannerAlgorithm::run")
    i = body.find("ExactAlgorithm exact_mcb_algo;")
    if i < 0:
        raise Undecided("extraction out of date: start of the algorithm phase in run()")
    prefix = body[:i]
    prefix = X.rewrite(prefix, [
        (r"throw std::runtime_error\(\s*(\"[^\"]*\")\);", r"VP_THROWV(\1);", (0, 3), "exceptions", "throw -> ghost flag + return"),
        (r"\b_k\b", "vp_k", (0, 3), "type-binding", "member _k (std::size_t)"),
        (r"#ifdef PARMCB_INVARIANTS_CHECK\s*check_edge_length_preconditions\(\);\s*#endif", "", (0, 1), "drop", "weight sanity check (no output)"),
        (r"EdgeWeightMapType spanner_weight_map = get\(boost::edge_weight,\s*_spanner\);", "", (0, 1), "drop", "property map handle"),
        (r"std::list<std::list<Edge>> spanner_cycles;", "", (0, 1), "drop", "declaration of the (still empty) list of spanner cycles"),
    ], log)
    fn = r"""
#include <stddef.h>
size_t vp_k; int vp_thrown, vp_phase_started;
#define VP_THROWV(msg) do { vp_thrown = 1; return 0; } while (0)
long run_prefix(void)
__CPROVER_requires(vp_thrown == 0 && vp_phase_started == 0)
__CPROVER_assigns(vp_thrown, vp_phase_started)
/* k = 0 is rejected with an exception before the exact phase or any emission starts; k >= 1 is accepted */
__CPROVER_ensures(vp_k == 0 ==> (vp_thrown && !vp_phase_started))
__CPROVER_ensures(vp_k >= 1 ==> (!vp_thrown && vp_phase_started))
{
%s
  vp_phase_started = 1;        /* from here on the exact phase runs and cycles are written to `out` */
  return 0;
}
size_t vp_in_k;
void h_k0(void) { vp_in_k = vp_k; long r = run_prefix(); (void) r; __CPROVER_assert(0, "VP_REACH end"); }
""" % prefix
    return dict(unit="K18c_run_rejects_k0", lang="c", source=rel + " (run(): parameter check)", text=fn, entry="h_k0", enforce="run_prefix",
                mode="proof", timeout=600, bound="every k (size_t)", rewrites=log, dropped=["everything after the parameter check"],
                functions={"BaseApproxSpannerAlgorithm::run: k=0 rejected before any emission": "proved"},
                assumptions=["the constructor (construct_spanner) emits nothing - it has no access to the output iterator"], trusted=["cbmc 6.11 + DFCC"])


def _sort_cmp():
    """K17c: the order construct_spanner scans the edges in.  The statement that sorts `sorted_edges` must be std::sort / std::stable_sort
    over the whole vector with a comparator lambda; the lambda's body is extracted (`_weight_map[e]` -> the edge's weight) and proved,
    for all pairs of non-NaN doubles, to be exactly `w(e1) < w(e2)`.  With the contract of std::sort (the result is a permutation ordered
    w.r.t. the comparator) this discharges the precondition of K17a that the edges are scanned by non-decreasing weight."""
    import re
    log = []
    rel = "include/parmcb/detail/approx_spanner.hpp"
    text = X.src(rel)
    m = re.search(r"std::(?:stable_)?sort\(sorted_edges\.begin\(\), sorted_edges\.end\(\),\s*\[&\]\s*\(const Edge &(\w+), const Edge &(\w+)\)\s*\{", text)
    if not m or len(re.findall(r"std::(?:stable_)?sort\(sorted_edges\.begin\(\)", text)) != 1:
        raise Undecided("extraction out of date: construct_spanner does not sort sorted_edges with std::sort / std::stable_sort and a comparator lambda")
    e1, e2 = m.groups()
    body = X.body_after(text, re.escape(m.group(0)[:-1]), "sort comparator of construct_spanner")
    log.append(dict(pattern="std::sort(sorted_edges..., [&](const Edge &%s, const Edge &%s) {BODY})" % (e1, e2), replacement="BODY", fired=1, expected=1, kind="extract", note="comparator lambda body"))
    body = X.drop_local_const(body, log)
    body = X.rewrite(body, [
        (r"_weight_map\[%s\]" % re.escape(e1), "vp_w1", (1, 4), "container-api", "weight of the first edge"),
        (r"_weight_map\[%s\]" % re.escape(e2), "vp_w2", (1, 4), "container-api", "weight of the second edge"),
        (r"boost::get\(_weight_map, %s\)" % re.escape(e1), "vp_w1", (0, 4), "container-api", ""),
        (r"boost::get\(_weight_map, %s\)" % re.escape(e2), "vp_w2", (0, 4), "container-api", ""),
        (r"std::numeric_limits<WeightType>::epsilon\(\)", "2.220446049250313e-16", (0, 4), "type-binding", "WeightType = double"),
        (r"\bWeightType\b", "double", (0, 8), "type-binding", ""),
        (r"\bauto\b", "double", (0, 8), "type-binding", "locals of the comparator hold weights"),
    ], log)
    fn = r"""
#include <stdbool.h>
bool cmp(double vp_w1, double vp_w2)
__CPROVER_requires(vp_w1 == vp_w1 && vp_w2 == vp_w2)
__CPROVER_assigns()
/* the scan order is the order of the weights themselves: no tolerance, no secondary key that could override a strict difference */
__CPROVER_ensures(__CPROVER_return_value == (vp_w1 < vp_w2))
{%(BODY)s}
double vp_in_w1, vp_in_w2;
void h_cmp(void) { double x1, x2; vp_in_w1 = x1; vp_in_w2 = x2; bool r = cmp(x1, x2); (void) r; __CPROVER_assert(0, "VP_REACH end"); }
""" % dict(BODY=body)
    return dict(unit="K17c_sort_comparator", site="K17c_sort_comparator", lang="c", source=rel + " (construct_spanner: comparator of the edge sort)", rewrites=log,
                text=fn, entry="h_cmp", enforce="cmp", mode="proof", timeout=600,
                bound="loop-free, full domain: every pair of non-NaN doubles",
                dropped=["the std::sort call itself (by its contract: permutation ordered w.r.t. the comparator)"],
                functions={"construct_spanner: edge order comparator": "proved"},
                assumptions=["contract of std::sort / std::stable_sort; WeightType = double"],
                trusted=["cbmc 6.11 + DFCC, SAT back end"])


def units(tier):
    big = tier == "thorough"
    return [X.guarded("K17a_construct_spanner", _construct, False, 32 if big else 12),
            X.guarded("K18a_translate_cycles", _translate, False, 4 if big else 3, 5 if big else 4),
            X.guarded("K18c_run_rejects_k0", _k0),
            X.guarded("K17c_sort_comparator", _sort_cmp)]
