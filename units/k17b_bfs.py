"""K17b: parmcb::is_bfs_reachable (include/parmcb/detail/bfs.hpp) as an E1 unit; both loops (queue, out-edges)
closed by loop contracts with QUANTIFIED invariants over the bounded vertex / queue-position range (the SAT back end
of cbmc 6.11 instantiates `__CPROVER_forall` over a constant range; a log line `ignoring forall` would make the unit
UNDECIDED).  Degrees, multi-edges and self-loops are unbounded: the graph is seen through accessor contracts that are
functional at one ghost adjacency slot (x0,j0) -> y0.

Binding: vertices are ordinals; dist / pred vectors and their property maps are the arrays DIST / PREDF (visited flag)
/ PREDE; std::queue is the array Q with head / tail; closed_plus enters through its contract K12 (proved there).
Ghost state: QPOS (queue position of a vertex), PU (the vertex from which it was discovered), the level bookkeeping
dcur / split (positions head..split-1 hold level dcur, split..tail-1 level dcur+1), vp_exp (how many queue
positions were fully expanded when the function returned).

Contract (all for arbitrary ghosts; VIS(v) = v is the source or has a predecessor flag):
  T   every visited vertex other than s was discovered from a visited vertex PU adjacent to it that sits earlier in the
      queue, and DIST[v] == DIST[PU[v]] + 1; DIST[s] == 0            (=> a path of DIST[v] edges from s, informal lemma)
  R1  returns true  =>  VIS(t) and DIST[t] <= max_hops                (with T: a path of at most max_hops edges exists)
  R0  returns false =>  every visited vertex with DIST <= max_hops was fully expanded and is not t, and
      (closure) an expanded x0 has every neighbour y0 visited with DIST[y0] <= DIST[x0] + 1
                                                                        (=> no path of at most max_hops edges, lemma)
Lemma for R0 (informal, DESIGN 10.8): along a path s=v0..vk=t with k <= max_hops, induction gives VIS(vi) and
DIST[vi] <= i, so each vi is expanded and differs from t - contradiction at i = k."""
from lib import xtract as X
from lib.core import Undecided

PRE = r"""
#include <stddef.h>
typedef _Bool bool;
#define true 1
#define false 0
#define MAXN %(MAXN)s
#define INF ((size_t) -1)
size_t vp_n, vp_s, vp_t, vp_maxhops;
size_t x0, j0, y0, d_x0;                      /* ghost adjacency slot: out-edge slot j0 of x0 leads to y0 */
bool ADJM[MAXN][MAXN];                        /* ghost: adjacency relation (only ever read at recorded pairs) */
/* contracts of boost::out_edges / boost::target for an undirected adjacency_list, functional at the ghost slot */
size_t out_degree(size_t u)
__CPROVER_requires(u < vp_n)
__CPROVER_assigns()
__CPROVER_ensures(u == x0 ==> __CPROVER_return_value == d_x0)
;
size_t out_target(size_t u, size_t j)
__CPROVER_requires(u < vp_n)
__CPROVER_assigns()
__CPROVER_ensures(__CPROVER_return_value < vp_n && ADJM[u][__CPROVER_return_value])
__CPROVER_ensures((u == x0 && j == j0) ==> __CPROVER_return_value == y0)
;
size_t out_edge(size_t u, size_t j)
__CPROVER_requires(u < vp_n)
__CPROVER_assigns()
__CPROVER_ensures(1)
;
/* K12 (proved in unit K12_closed_plus_size_t) */
size_t closed_plus(size_t a, size_t b)
__CPROVER_requires((a != INF && b != INF) ==> a <= INF - b)
__CPROVER_assigns()
__CPROVER_ensures((a == INF || b == INF) ==> __CPROVER_return_value == INF)
__CPROVER_ensures((a != INF && b != INF) ==> __CPROVER_return_value == a + b)
;
size_t DIST[MAXN]; bool PREDF[MAXN]; size_t PREDE[MAXN];
size_t Q[MAXN], head, tail;
size_t QPOS[MAXN], PU[MAXN], dcur, split, vp_exp;
#define VIS(v) ((v) == vp_s || PREDF[v])
#define ALLV(v, body) __CPROVER_forall { size_t v; (v < MAXN) ==> ((v < vp_n) ==> (body)) }
#define ALLP(p, body) __CPROVER_forall { size_t p; (p < MAXN) ==> (body) }
"""

# facts that hold at the head of the queue loop and (with the stated adjustments) inside the scan loop
QUEUE = ("head <= tail && tail <= vp_n && head <= split && split <= tail && dcur <= vp_maxhops + 1 && (split < tail ==> dcur <= vp_maxhops)"
         " && ALLP(p, p < tail ==> (Q[p] < vp_n && VIS(Q[p]) && QPOS[Q[p]] == p))"
         " && ALLV(v, VIS(v) ==> (QPOS[v] < tail && Q[QPOS[v]] == v))"
         " && ALLP(p, (p < tail && p < head) ==> DIST[Q[p]] <= dcur)"
         " && ALLP(p, (head <= p && p < split) ==> DIST[Q[p]] == dcur)"
         " && ALLP(p, (split <= p && p < tail) ==> DIST[Q[p]] == dcur + 1)")
TREE = ("DIST[vp_s] == 0 && !PREDF[vp_s]"
        " && ALLV(v, PREDF[v] ==> (PU[v] < vp_n && VIS(PU[v]) && ADJM[PU[v]][v] && QPOS[PU[v]] < QPOS[v] && DIST[v] == DIST[PU[v]] + 1))")


_counter = [0]


def _next():
    _counter[0] += 1
    return _counter[0]


def _popped(bound):
    return "ALLV(v, (VIS(v) && QPOS[v] < %s) ==> (DIST[v] <= vp_maxhops && v != vp_t))" % bound


def _closure(done):
    return "((VIS(x0) && (%s)) ==> (y0 == vp_s || y0 == x0 || (VIS(y0) && DIST[y0] <= DIST[x0] + 1)))" % done


PRE_BOUNDED = r"""
#include <stddef.h>
typedef _Bool bool;
#define true 1
#define false 0
#define MAXN 3
#define MAXE 3
#define MAXD (2 * MAXE)
#define INF ((size_t) -1)
size_t vp_n, vp_s, vp_t, vp_maxhops;
size_t DEG[MAXN], ADJ[MAXN][MAXD], AE[MAXN][MAXD];
size_t vp_in_ne, vp_in_ea[MAXE], vp_in_eb[MAXE];      /* the undirected multigraph (self-loops allowed) as an edge list in insertion order */
size_t out_degree(size_t u) { return DEG[u]; }
size_t out_target(size_t u, size_t j) { return ADJ[u][j]; }
size_t out_edge(size_t u, size_t j) { return AE[u][j]; }
size_t closed_plus(size_t a, size_t b) { if (a == INF) return INF; if (b == INF) return INF; return a + b; }
size_t DIST[MAXN]; bool PREDF[MAXN]; size_t PREDE[MAXN];
size_t Q[MAXN + 1], head, tail;
size_t QPOS[MAXN], PU[MAXN], dcur, split, vp_exp;
"""


def _replay(vals, failed):
    import re
    from lib import native
    def num(k):
        return int(re.sub(r"\D", "", vals.get(k, "0")) or 0)
    ne = num("vp_in_ne")
    ev = []
    for i in range(ne):
        a = [v for k, v in vals.items() if re.match(r"vp_in_ea\[%d\w*\]$" % i, k)]
        b = [v for k, v in vals.items() if re.match(r"vp_in_eb\[%d\w*\]$" % i, k)]
        ev += [re.sub(r"\D", "", a[0]) if a else "0", re.sub(r"\D", "", b[0]) if b else "0"]
    return native.replay_run("e3_bfs", ["--replay", num("vp_in_n"), num("vp_in_s"), num("vp_in_t"), num("vp_in_maxhops"), ",".join(ev) or "-"], dict(libs=()))


def _bounded_unit(body, log, rel):
    """plain CBMC, all loops unwound, executable models of the dependencies, and a DIRECT spec: the harness computes the
    set of vertices within i hops (i = 0..n-1) and compares the answer with membership of t in the max_hops-th set."""
    fn = r"""
bool reach(void) {%s}
size_t vp_in_n, vp_in_s, vp_in_t, vp_in_maxhops;
void h_reach(void) {
  __CPROVER_assume(vp_n >= 1 && vp_n <= MAXN && vp_s < vp_n && vp_t < vp_n && vp_maxhops <= MAXN + 1);
  for (size_t v = 0; v < MAXN; v++) { PREDF[v] = 0; DEG[v] = 0; }
  { size_t ne; __CPROVER_assume(ne <= MAXE); vp_in_ne = ne; }
  /* boost::add_edge on an undirected vecS graph appends the edge to the out-edge lists of both endpoints (once for a self-loop... twice in fact: both directions) */
  for (size_t i = 0; i < MAXE; i++) if (i < vp_in_ne) {
    size_t a = vp_in_ea[i], b = vp_in_eb[i];
    __CPROVER_assume(a < vp_n && b < vp_n);
    ADJ[a][DEG[a]] = b; AE[a][DEG[a]] = i; DEG[a]++;
    ADJ[b][DEG[b]] = a; AE[b][DEG[b]] = i; DEG[b]++;
  }
  head = 0; tail = 0;
  vp_in_n = vp_n; vp_in_s = vp_s; vp_in_t = vp_t; vp_in_maxhops = vp_maxhops;
  /* spec: R = vertices within `hops` hops of s */
  bool R[MAXN]; for (size_t v = 0; v < MAXN; v++) R[v] = (v == vp_s);
  for (size_t hops = 0; hops < MAXN; hops++) if (hops < vp_maxhops) {
    bool N[MAXN]; for (size_t v = 0; v < MAXN; v++) N[v] = R[v];
    for (size_t v = 0; v < MAXN; v++) if (v < vp_n && R[v]) for (size_t j = 0; j < MAXD; j++) if (j < DEG[v]) N[ADJ[v][j]] = 1;
    for (size_t v = 0; v < MAXN; v++) R[v] = N[v];
  }
  bool expected = R[vp_t];
  bool r = reach();
  __CPROVER_assert(r == expected, "K17b.spec: the answer is true iff t is within max_hops hops of s");
  __CPROVER_assert(0, "VP_REACH end of harness");
}
""" % body
    return dict(unit="K17b_is_bfs_reachable_bounded", site="K17b_is_bfs_reachable", lang="c", source=rel + " (parmcb::is_bfs_reachable)",
                text=PRE_BOUNDED + fn, entry="h_reach", rewrites=log, timeout=900, unwind=8, mode="bounded", flags=["--nondet-static"],
                bound="every undirected multigraph with n <= 3 vertices and <= 3 edges (parallel edges and self-loops included), max_hops <= 4, all loops unwound; direct specification computed by the harness",
                replay=_replay,
                functions={"is_bfs_reachable": "bounded(n<=3)"}, trusted=["cbmc 6.11 SAT back end"])


def _fresh(text, _k=None):
    """cbmc wants a distinct bound-variable name per quantifier inside one function: ALLV(v, ...) -> ALLV(v_17, ...);
    nested quantifier macros (ALLx / EXx) are renamed recursively."""
    import re
    k = _k if _k is not None else [0]
    out, i = "", 0
    pat = re.compile(r"\b((?:ALL|EX)[A-Z0-9]+)\((\w+), ")
    while True:
        m = pat.search(text, i)
        if not m:
            return out + text[i:]
        ls = text.rfind("\n", 0, m.start()) + 1
        if text[ls:m.start()].lstrip().startswith("#define"):      # a macro definition, not a use
            out += text[i:m.end()]
            i = m.end()
            continue
        j = m.end()
        depth, e = 1, j
        while depth:
            c = text[e]
            depth += c == "("
            depth -= c == ")"
            e += 1
        k[0] += 1
        name = "%s_%d" % (m.group(2), k[0])
        inner = _fresh(text[j:e - 1], k)
        inner = re.sub(r"\b%s\b" % m.group(2), name, inner)
        out += text[i:m.start()] + "%s(%s, %s)" % (m.group(1), name, inner)
        i = e


def _unit(bounded, maxn):
    log = []
    _counter[0] = 0
    rel = "include/parmcb/detail/bfs.hpp"
    text = X.src(rel)
    body = X.body_after(text, r"bool is_bfs_reachable\(const Graph &g,.*?std::size_t max_hops\)\s*", "is_bfs_reachable")
    i = body.find("VertexQueue queue;")
    if i < 0:
        raise Undecided("extraction out of date: declaration of the queue in is_bfs_reachable")
    log.append(dict(pattern="declarations before `VertexQueue queue;`", replacement="", fired=1, expected=1, kind="drop",
                    note="typedefs, the dist / pred vectors (dist: unspecified contents - every read follows a write; pred: every flag false) and their property maps, the closed_plus object"))
    body = body[i:]
    body = X.drop_local_const(body, log)
    body = X.canon(body, [(r"Vertex (\w+) = queue\.front\(\);", ["u"]), (r"size_t (\w+) = boost::get\(dist_map, u\);", ["d_u"]),
                          (r"auto (\w+) = boost::out_edges\(u, g\);", ["eiRange"]), (r"for \(auto (\w+) = eiRange\.first;", ["ei"]),
                          (r"auto (\w+) = \*ei;", ["e"]), (r"auto (\w+) = boost::target\(e, g\);", ["w"]),
                          (r"std::size_t (\w+) = combine\(", ["c"]), (r"bool (\w+) = std::get<0>\(boost::get\(pred_map, w\)\);", ["visited_w"])], log)
    body = X.rewrite(body, [
        (r"VertexQueue queue;", "", 1, "container-api", "std::queue -> array Q + head/tail (empty on entry)"),
        (r"boost::put\(dist_map, s, size_t\(\)\);", "DIST[vp_s] = 0;", 1, "container-api", ""),
        (r"boost::put\(pred_map, s, std::make_tuple\(false, Edge\(\)\)\);", "PREDF[vp_s] = 0;", 1, "container-api", ""),
        (r"queue\.push\(s\);", "Q[tail] = vp_s; QPOS[vp_s] = tail; tail++; dcur = 0; split = tail;", 1, "ghost", "push + ghost: level 0 = {s}"),
        (r"!queue\.empty\(\)", "head != tail", 1, "container-api", ""),
        (r"Vertex u = queue\.front\(\);", "if (head == split) { dcur = dcur + 1; split = tail; } size_t u = Q[head];", 1, "ghost",
         "front() + ghost: the next level starts when the current one is used up"),
        (r"queue\.pop\(\);", "head++;", 1, "container-api", ""),
        (r"size_t d_u = boost::get\(dist_map, u\);", "size_t d_u = DIST[u];", 1, "container-api", ""),
        (r"\bmax_hops\b", "vp_maxhops", (1, 3), "type-binding", "parameter max_hops"),
        (r"return false;", "{ vp_exp = head - 1; return 0; }", (1, 4), "ghost", "return + ghost: number of fully expanded queue positions (the vertex just popped is not)"),
        (r"return true;", "{ vp_exp = head - 1; return 1; }", (1, 3), "ghost", ""),
        (r"auto eiRange = boost::out_edges\(u, g\);", "size_t eiRange_second = out_degree(u);", 1, "container-api", "out_edges(u,g) = slots 0..out_degree(u)"),
        (r"for \(auto ei = eiRange\.first; ei != eiRange\.second; ei\+\+\)", "for (size_t ei = 0; ei != eiRange_second; ei++)", 1, "container-api", ""),
        (r"auto e = \*ei;", "size_t e = out_edge(u, ei);", 1, "container-api", ""),
        (r"auto w = boost::target\(e, g\);", "size_t w = out_target(u, ei);", 1, "container-api", "far endpoint of the out-edge at this slot"),
        (r"w = boost::source\(e, g\);", "w = u;", 1, "container-api", "source of an out-edge of u is u (contract of boost::out_edges)"),
        (r"std::size_t c = combine\(d_u, 1\);", "const size_t c = closed_plus(d_u, 1);", 1, "overload-resolution", "closed_plus<size_t>::operator() -> its contract K12"),
        (r"bool visited_w = std::get<0>\(boost::get\(pred_map, w\)\);", "bool visited_w = PREDF[w];", 1, "container-api", ""),
        (r"boost::put\(dist_map, w, c\);", "DIST[w] = c;", 1, "container-api", ""),
        (r"boost::put\(pred_map, w, std::make_tuple\(true, e\)\);", "PREDF[w] = 1; PREDE[w] = e; PU[w] = u;", 1, "ghost", "pred entry + ghost: discovered from u"),
        (r"queue\.push\(w\);", "Q[tail] = w; QPOS[w] = tail; tail++;", 1, "ghost", "push + ghost queue position"),
    ], log)
    body = X.rewrite(body, [(r"\bs\b", "vp_s", (1, 3), "type-binding", "parameter s"), (r"\bt\b", "vp_t", (1, 3), "type-binding", "parameter t")], log)
    k = body.rfind("{ vp_exp = head - 1; return 0; }")
    tailtxt = body[k + len("{ vp_exp = head - 1; return 0; }"):]
    if k < 0 or "while" in tailtxt or "for (" in tailtxt:
        raise Undecided("extraction out of date: the function does not end with a return after its loops")
    body = body[:k] + "{ vp_exp = head; return 0; }" + tailtxt      # the final return: every queue position was expanded
    if bounded:
        return _bounded_unit(body, log, rel)
    assigns = ("head, tail, dcur, split, __CPROVER_object_whole(DIST), __CPROVER_object_whole(PREDF), __CPROVER_object_whole(PREDE), "
               "__CPROVER_object_whole(Q), __CPROVER_object_whole(QPOS), __CPROVER_object_whole(PU)")
    inv_bfs = ("__CPROVER_assigns(%s)\n__CPROVER_loop_invariant(%s && %s && %s && %s)\n__CPROVER_decreases(vp_n - head)" % (
        assigns, QUEUE, TREE, _popped("head"), _closure("QPOS[x0] < head")))
    inv_scan = ("__CPROVER_assigns(ei, %s)\n__CPROVER_loop_invariant(ei <= eiRange_second && u < vp_n && head >= 1 && Q[head - 1] == u && head <= split && DIST[u] == d_u && d_u == dcur && d_u <= vp_maxhops && u != vp_t && %s && %s && %s && %s)\n"
                "__CPROVER_decreases(eiRange_second - ei)" % (
        assigns.replace("head, ", "").replace("dcur, split, ", ""), QUEUE, TREE, _popped("head"),
        _closure("QPOS[x0] + 1 < head || (QPOS[x0] + 1 == head && ei > j0)")))
    if not bounded:
        body = X.splice_loop_contracts(body, {0: inv_bfs, 1: inv_scan}, log)
    fn = r"""
bool reach(void)
__CPROVER_requires(vp_n >= 1 && vp_n <= MAXN && vp_s < vp_n && vp_t < vp_n && vp_maxhops < INF - 1 && head == 0 && tail == 0)
__CPROVER_requires(x0 < vp_n && y0 < vp_n && j0 < d_x0)
__CPROVER_requires(ALLV(v, !PREDF[v]))                                   /* freshly constructed pred vector: no vertex visited */
__CPROVER_assigns(head, tail, dcur, split, vp_exp, __CPROVER_object_whole(DIST), __CPROVER_object_whole(PREDF), __CPROVER_object_whole(PREDE),
                  __CPROVER_object_whole(Q), __CPROVER_object_whole(QPOS), __CPROVER_object_whole(PU))
/* T: the visited vertices form a tree of discovery edges with exact levels */
__CPROVER_ensures(DIST[vp_s] == 0 && !PREDF[vp_s])
__CPROVER_ensures(ALLV(v, PREDF[v] ==> (PU[v] < vp_n && VIS(PU[v]) && ADJM[PU[v]][v] && QPOS[PU[v]] < QPOS[v] && DIST[v] == DIST[PU[v]] + 1)))
/* R1 */
__CPROVER_ensures(__CPROVER_return_value ==> (VIS(vp_t) && DIST[vp_t] <= vp_maxhops))
/* R0 */
__CPROVER_ensures(!__CPROVER_return_value ==> ALLV(v, (VIS(v) && DIST[v] <= vp_maxhops) ==> (QPOS[v] < vp_exp && v != vp_t)))
__CPROVER_ensures(!__CPROVER_return_value ==> ((VIS(x0) && QPOS[x0] < vp_exp) ==> (y0 == vp_s || y0 == x0 || (VIS(y0) && DIST[y0] <= DIST[x0] + 1))))
{%s}
size_t vp_in_n, vp_in_s, vp_in_t, vp_in_maxhops;
void h_reach(void) {
  vp_in_n = vp_n; vp_in_s = vp_s; vp_in_t = vp_t; vp_in_maxhops = vp_maxhops;
  bool r = reach();
  __CPROVER_assert(0, "VP_REACH end of harness");
}
""" % body
    spec = dict(unit="K17b_is_bfs_reachable", site="K17b_is_bfs_reachable", lang="c", source=rel + " (parmcb::is_bfs_reachable)",
                text=PRE % dict(MAXN=str(maxn)) + _fresh(fn), entry="h_reach", enforce="reach",
                replace=["out_degree", "out_target", "out_edge", "closed_plus"], rewrites=log, timeout=2400, split=16,
                flags=["--object-bits", "12"], unwind=24, loop_contracts=True, mode="proof", fallback=lambda: _unit(True, 3),
                bound="proved(n<=%d): both loops closed by loop contracts with invariants quantified over the vertex / queue-position range; degrees, multi-edges, self-loops unbounded" % maxn,
                dropped=["template header; typedefs; construction of the dist / pred vectors and their property maps (contents as stated in the precondition)"],
                functions={"is_bfs_reachable": "proved(n<=%d)" % maxn},
                assumptions=["contracts of std::queue (FIFO array), boost::out_edges / boost::target (a fixed adjacency structure; source of an out-edge of u is u), closed_plus (K12, proved)",
                             "max_hops < SIZE_MAX - 1 (the caller passes 2k-1 with k >= 1, K17a / K18c)",
                             "informal lemmas (DESIGN 10.8): T gives a path of DIST[v] edges; R0 excludes every path of at most max_hops edges"],
                trusted=["cbmc 6.11 + DFCC, SAT back end (bounded quantifier instantiation)"])
    return spec


def units(tier):
    _counter[0] = 0
    return [X.guarded("K17b_is_bfs_reachable", _unit, False, 6 if tier == "thorough" else 4)]
