"""K23: the slice computation (stride / istart / iend / guarded for-header) at the three MPI work-splitting
sites, extracted from the sources on every run into a generated header that a native driver runs
exhaustively (bounded: every total <= T, every P <= 64, every rank).  CBMC cannot finish the
ceil((double)total / P) arithmetic (probe, DESIGN 1), so this contract has no deductive part."""
import re, os
from lib import xtract as X
from lib.core import WORK, ensure_dir, write, sha, Undecided

SITES = [
    ("signed_hidden", "include/parmcb/mpi/parmcb_sva_signed.hpp", 0, 2),
    ("signed_all_vertices", "include/parmcb/mpi/parmcb_sva_signed.hpp", 1, 2),
    ("trees_candidates", "include/parmcb/mpi/parmcb_sva_trees.hpp", 0, 1),
]


def _site(name, rel, idx, total):
    text = X.src(rel)
    ms = list(re.finditer(r"std::size_t stride\s*=", text))
    if len(ms) != total:
        raise Undecided("extraction out of date: %d stride computations in %s (expected %d)" % (len(ms), rel, total))
    at = ms[idx].start()
    mf = re.compile(r"for\s*\(\s*std::size_t i = istart;").search(text, at)
    if not mf:
        raise Undecided("extraction out of date: slice loop after stride in " + rel)
    i = text.index("(", mf.start())
    j = X._match_close(text, i, "(", ")")
    header = text[mf.start():j + 1]
    # region: from up to 3 lines before the stride statement (a preceding `total =`) to the loop header
    lo = at
    for _ in range(3):
        lo = text.rfind("\n", 0, lo)
    region = text[lo:mf.start()]
    keep = re.findall(r"std::size_t (?:total|stride|istart|iend)\s*=[^;]*;", region)
    names = [re.match(r"std::size_t (\w+)", k).group(1) for k in keep]
    if sorted(set(names)) != ["iend", "istart", "stride", "total"] or len(names) != 4:
        raise Undecided("extraction out of date: slice variables at %s: %s" % (name, names))
    body = "\n    ".join(keep)
    log = []
    body = X.rewrite(body + "\n    " + header, [
        (r"(?:signed_edges_as_vector|allVertices|all_candidate_cycles)\.size\(\)", "TOTAL", (1, 2), "container-api", "amount of work"),
        (r"world\.size\(\)", "P", 1, "container-api", "communicator size"),
        (r"world\.rank\(\)", "R", (0, 1), "container-api", "rank"),
        (r"\bp \* stride", "R * stride", (0, 1), "container-api", "root computes the slice of rank p"),
    ], log)
    fn = "static void slice_%s(std::size_t TOTAL, int P, int R, std::vector<int> &owned) {\n    %s {\n        owned[i]++;\n    }\n}\n" % (name, body)
    return fn, log, keep + [header]


def generate():
    """returns (include dir, hash, rewrite logs, extracted statements)"""
    fns, logs, stmts = [], [], {}
    for name, rel, idx, total in SITES:
        fn, log, st = _site(name, rel, idx, total)
        fns.append(fn); logs += log; stmts[name] = st
    txt = "// GENERATED from /repo on every run by units/k23_slices.py - do not edit\n#include <cmath>\n#include <vector>\n#include <cstddef>\n" + "\n".join(fns)
    txt += "\n#define VP_SLICE_SITES {" + ", ".join('{"%s", slice_%s}' % (n, n) for n, _, _, _ in SITES) + "}\n"
    d = ensure_dir(os.path.join(WORK, "gen-" + sha(txt)[:12]))      # keyed by content: concurrent runs on different trees do not share it
    p = os.path.join(d, "vp_slices_gen.hpp")
    if not os.path.exists(p) or open(p).read() != txt:
        write(p, txt)
    return d, sha(txt), logs, stmts
