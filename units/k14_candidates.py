"""K14a: SPTree::create_candidate_cycles(begin, end) (include/parmcb/sptrees.hpp) as an E1 unit.
Binding: vertices and edges are ordinals; the tree is given by tables HASNODE / HASPRED / PRED / NW
(node weight) / FIRST (first vertex on the root path); std::shared_ptr<SPNode> is the vertex id of the node
(or NONE); std::set<Edge> tree_edges is a boolean table; the returned vector is three arrays + count.
Ghost writes record for every edge whether / where it was emitted.
Contract (for an arbitrary ghost edge e0 of the given range): e0 yields a candidate IFF it is not a tree
edge, both endpoints have tree nodes and their root paths start with different vertices; the candidate
carries this tree's id, the edge, and the weight w(e0) + d(root,src) + d(root,tgt)."""
from lib import xtract as X
from lib.core import Undecided

PRE = r"""
#include <stddef.h>
typedef _Bool bool;
#define true 1
#define false 0
#define MAXN %(MAXN)s
#define MAXM %(MAXM)s
#define NONE ((size_t) -1)
typedef long W;
size_t vp_n, vp_m, vp_id;
bool HASNODE[MAXN + 1], HASPRED[MAXN + 1]; size_t PRED[MAXN + 1]; W NW[MAXN + 1]; size_t FIRST[MAXN + 1];
size_t SRC[MAXM + 1], TGT[MAXM + 1]; W WT[MAXM + 1];
bool TE[MAXM + 1];                                   /* std::set<Edge> tree_edges */
size_t CT[MAXM + 1], CE[MAXM + 1]; W CW[MAXM + 1]; size_t vp_nc;      /* the returned vector<CandidateCycle> */
int EMIT[MAXM + 1]; size_t EIDX[MAXM + 1];           /* ghost: was edge e emitted, and where */
static size_t node(size_t v) { return HASNODE[v] ? v : NONE; }        /* SPTree::node: tree node of v or null */
"""


def _unit(bounded, capn=6, capm=10):
    log = []
    rel = "include/parmcb/sptrees.hpp"
    text = X.src(rel)
    body = X.body_after(text, r"std::vector<CandidateCycle<Graph, WeightMap>> create_candidate_cycles\(EdgeIterator begin,\s*EdgeIterator end\) const\s*",
                        "SPTree::create_candidate_cycles(begin,end)")
    body = X.rewrite(body, [
        (r"std::set<Edge> tree_edges;", "", 1, "container-api", "std::set<Edge> -> boolean table TE (all false on entry)"),
        (r"VertexIt vi, viend;", "size_t vi, viend;", 1, "container-api", ""),
        (r"boost::tie\(vi, viend\) = boost::vertices\(_g\)", "vi = 0, viend = vp_n", 1, "container-api", ""),
        (r"auto v = \*vi;", "size_t v = vi;", 1, "container-api", ""),
        (r"auto vindex = _index_map\[v\];", "size_t vindex = v;", 1, "container-api", "vertex index map (identity for vecS)"),
        (r"std::shared_ptr<SPNode<Graph, WeightMap>> n = _tree_node_map\[vindex\];", "size_t n = node(vindex);", 1, "container-api", "shared_ptr<SPNode> -> vertex id or NONE"),
        (r"n != nullptr && n->has_pred\(\)", "n != NONE && HASPRED[n]", 1, "container-api", ""),
        (r"tree_edges\.insert\(n->pred\(\)\);", "TE[PRED[n]] = 1;", 1, "container-api", "set insert"),
        (r"std::vector<CandidateCycle<Graph, WeightMap>> cycles;", "", 1, "container-api", "vector -> arrays CT/CE/CW + vp_nc (0 on entry)"),
        (r"for \(EdgeIterator it = begin; it != end; it\+\+\)", "for (size_t it = vp_eb; it != vp_ee; it++)", 1, "container-api", "edge range = ordinals"),
        (r"Edge e = \*it;", "size_t e = it;", 1, "container-api", ""),
        (r"tree_edges\.find\(e\) != tree_edges\.end\(\)", "TE[e]", 1, "container-api", "set membership"),
        (r"std::shared_ptr<SPNode<Graph, WeightMap>> (v|u) = node\(boost::(source|target)\(e, _g\)\);",
         lambda m: "size_t %s = node(%s[e]);" % (m.group(1), "SRC" if m.group(2) == "source" else "TGT"), 2, "container-api", "node lookup of an endpoint"),
        (r"\b(v|u) == nullptr", r"\1 == NONE", (2, 4), "container-api", ""),
        (r"!(v|u)->has_pred\(\)", r"!HASPRED[\1]", (0, 2), "container-api", ""),
        (r"_first_in_path\[_index_map\[(v|u)->vertex\(\)\]\]", r"FIRST[\1]", 2, "container-api", "node(v)->vertex() == v (K12)"),
        (r"WeightType cycle_weight =", "W cycle_weight =", 1, "type-binding", ""),
        (r"boost::get\(_weight_map, e\)", "WT[e]", 1, "container-api", ""),
        (r"\b(v|u)->weight\(\)", r"NW[\1]", 2, "container-api", "node weight = distance from the root"),
        (r"cycles\.emplace_back\(_id, e, cycle_weight\);", "CT[vp_nc] = vp_id; CE[vp_nc] = e; CW[vp_nc] = cycle_weight; EMIT[e] = 1; EIDX[e] = vp_nc; vp_nc++;", 1,
         "ghost", "emplace_back + ghost: edge e emitted at position vp_nc"),
        (r"return cycles;", "return;", 1, "type-binding", ""),
    ], log)
    inv1 = ("__CPROVER_assigns(vi, __CPROVER_object_whole(TE))\n"
            "__CPROVER_loop_invariant(vi <= vp_n && viend == vp_n)\n"
            "__CPROVER_loop_invariant((v0 < vi && HASNODE[v0] && HASPRED[v0]) ==> TE[PRED[v0]])\n"
            "__CPROVER_loop_invariant(TE[e0] ==> vp_is_tree_edge)\n"
            "__CPROVER_decreases(vp_n - vi)")
    inv2 = ("__CPROVER_assigns(it, vp_nc, __CPROVER_object_whole(CT), __CPROVER_object_whole(CE), __CPROVER_object_whole(CW), __CPROVER_object_whole(EMIT), __CPROVER_object_whole(EIDX))\n"
            "__CPROVER_loop_invariant(vp_eb <= it && it <= vp_ee && vp_nc <= it - vp_eb)\n"
            "__CPROVER_loop_invariant((e0 >= it || e0 < vp_eb) ==> EMIT[e0] == 0)\n"
            "__CPROVER_loop_invariant((e0 >= vp_eb && e0 < it) ==> (EMIT[e0] == VP_SHOULD(e0)))\n"
            "__CPROVER_loop_invariant((e0 >= vp_eb && e0 < it && EMIT[e0]) ==> (EIDX[e0] < vp_nc && CE[EIDX[e0]] == e0 && CT[EIDX[e0]] == vp_id && CW[EIDX[e0]] == WT[e0] + NW[SRC[e0]] + NW[TGT[e0]]))\n"
            "__CPROVER_decreases(vp_ee - it)")
    if not bounded:
        body = X.splice_loop_contracts(body, {0: inv1, 1: inv2}, log)
    fn = r"""
size_t vp_eb, vp_ee; bool vp_is_tree_edge;
/* e is a tree edge iff some tree node has it as predecessor edge; for the ghost edge e0 this truth value is the ghost vp_is_tree_edge */
#define VP_SHOULD(e) (!TE[e] && HASNODE[SRC[e]] && HASNODE[TGT[e]] && FIRST[SRC[e]] != FIRST[TGT[e]])
void candidates(size_t v0, size_t e0)
__CPROVER_requires(vp_n <= MAXN && vp_m <= MAXM && vp_eb <= vp_ee && vp_ee <= vp_m && v0 < vp_n && e0 < vp_m && vp_nc == 0)
__CPROVER_requires(SRC[e0] < vp_n && TGT[e0] < vp_n && EMIT[e0] == 0 && TE[e0] == 0)
__CPROVER_assigns(vp_nc, __CPROVER_object_whole(TE), __CPROVER_object_whole(CT), __CPROVER_object_whole(CE), __CPROVER_object_whole(CW),
                  __CPROVER_object_whole(EMIT), __CPROVER_object_whole(EIDX))
/* tree_edges = exactly the predecessor edges of the tree nodes */
__CPROVER_ensures((HASNODE[v0] && HASPRED[v0]) ==> TE[PRED[v0]])
__CPROVER_ensures(TE[e0] ==> vp_is_tree_edge)
/* a candidate for e0 iff non-tree edge, both endpoints in the tree, root paths start differently */
__CPROVER_ensures((e0 >= vp_eb && e0 < vp_ee) ==> (EMIT[e0] == VP_SHOULD(e0)))
__CPROVER_ensures((e0 < vp_eb || e0 >= vp_ee) ==> EMIT[e0] == 0)
/* and it records this tree, the edge, and w(e) + d(root,src) + d(root,tgt) */
__CPROVER_ensures(EMIT[e0] ==> (EIDX[e0] < vp_nc && CE[EIDX[e0]] == e0 && CT[EIDX[e0]] == vp_id && CW[EIDX[e0]] == WT[e0] + NW[SRC[e0]] + NW[TGT[e0]]))
{%s}
void h_cand(void) {
  size_t v0, e0;
  __CPROVER_assume(vp_n <= MAXN && vp_m <= MAXM && e0 < vp_m);
  /* tables: endpoints and predecessor edges in range, weights bounded, nothing emitted / no tree edge recorded yet */
  for (size_t i = 0; i <= MAXM; i++) __CPROVER_assume(SRC[i] < vp_n && TGT[i] < vp_n && WT[i] > 0 && WT[i] < 1000000000L && EMIT[i] == 0 && TE[i] == 0);
  vp_is_tree_edge = 0;
  for (size_t v = 0; v <= MAXN; v++) {
    __CPROVER_assume(PRED[v] < vp_m && NW[v] >= 0 && NW[v] < 1000000000L && FIRST[v] < vp_n && HASNODE[v] <= 1 && HASPRED[v] <= 1);
    if (v < vp_n && HASNODE[v] && HASPRED[v] && PRED[v] == e0) vp_is_tree_edge = 1;     /* definition of the ghost */
  }
  candidates(v0, e0);
  __CPROVER_assert(0, "VP_REACH end of harness");
}
""" % body
    name = "K14a_create_candidate_cycles" + ("_bounded" if bounded else "")
    spec = dict(unit=name, site="K14a_create_candidate_cycles", lang="c", source=rel + " (SPTree::create_candidate_cycles)",
                text=PRE % dict(MAXN="3" if bounded else str(capn), MAXM="4" if bounded else str(capm)) + fn, entry="h_cand", enforce="candidates",
                rewrites=log, timeout=900, dropped=["template header; const qualifier"],
                assumptions=["K12: node(v)->vertex() == v, node weight = distance from the root, FIRST = first vertex of the root path (bounded stand-in e3_components[C12])",
                             "std::set / std::vector / shared_ptr bound to tables as stated in the rewrite log; integer weights < 10^9"],
                trusted=["cbmc 6.11 + DFCC, SAT back end"])
    if bounded:
        spec.update(mode="bounded", bound="n<=3, m<=4, unwound", unwind=7, functions={"SPTree::create_candidate_cycles": "bounded(n<=3,m<=4)"})
    else:
        spec.update(mode="proof", bound="both loops closed by their contracts; table caps n<=%d, m<=%d (ghost definitions by unwound harness loops)" % (capn, capm),
                    loop_contracts=True, unwind=max(capn, capm) + 3, fallback=lambda: _unit(True),
                    functions={"SPTree::create_candidate_cycles": "proved(n<=%d,m<=%d)" % (capn, capm)})
    return spec


def units(tier):
    big = tier == "thorough"
    return [X.guarded("K14a_create_candidate_cycles", _unit, False, 8 if big else 4, 14 if big else 7)]
