"""K12c / K12d: parmcb::lex_dijkstra and detail::LexDistanceCombine::operator() (include/parmcb/detail/lex_dijkstra.hpp).

K12c has the loop structure of K18d (dijkstra); the keys are LexDistance labels.  Their ORDER enters through the contract of
LexDistanceCompare as far as it is proved (K12: a smaller distance decides, a larger distance decides the other way; equal
distances: any answer), their EXTENSION by an edge through the contract of LexDistanceCombine, which K12d proves on the
extracted body (loop-free).  The heap keyed by the labels is a set whose top() is minimal in that order - hence has minimal
distance - with the precondition that a member whose key changed was update()d.

Contract of lex_dijkstra (ghost slot (x0,j0) -> y0 along an edge of weight w0, VIS(v) = source or predecessor flag):
  T  every visited v != s has a settled visited discoverer adjacent to it with LEX[v].distance == LEX[PU[v]].distance + PW[v],
     PW[v] > 0; LEX[s].distance == 0; the distance map handed back agrees with the label: DMAP[v] == LEX[v].distance
  R  on return every visited vertex is settled and a settled x0 has each neighbour y0 visited with distance at most
     LEX[x0].distance + w0
  H  update() only for heap members; no stale key at top/pop/push
=> (lemma of DESIGN 10.10) the distance map holds the shortest-path distances and the predecessor edges form a shortest-path tree
(C12, first clause).  Which of several shortest paths is chosen - the tie-breaking that C12's consistency clauses are about -
is NOT covered by this unit (bounded stand-in e3_components[C12])."""
from lib import xtract as X
from lib.core import Undecided
from units.k17b_bfs import _fresh

PRE = r"""
#include <stddef.h>
typedef _Bool bool;
#define true 1
#define false 0
#define MAXN %(MAXN)s
typedef long W;
#define INF 9223372036854775807L
#define WB 1000000000L
typedef struct { W distance; size_t edge_count; unsigned long vset; } lex_t;
size_t vp_n, vp_s;
size_t x0, j0, y0, d_x0; W w0;
bool ADJM[MAXN][MAXN];
size_t vp_lastu, vp_lastj;
size_t out_degree(size_t u)
__CPROVER_requires(u < vp_n)
__CPROVER_assigns()
__CPROVER_ensures(u == x0 ==> __CPROVER_return_value == d_x0)
;
size_t out_target(size_t u, size_t j)
__CPROVER_requires(u < vp_n)
__CPROVER_assigns()
__CPROVER_ensures(__CPROVER_return_value < vp_n && ADJM[u][__CPROVER_return_value])
__CPROVER_ensures((u == x0 && j == j0) ==> __CPROVER_return_value == y0)
;
size_t out_edge(size_t u, size_t j)
__CPROVER_requires(u < vp_n)
__CPROVER_assigns(vp_lastu, vp_lastj)
__CPROVER_ensures(vp_lastu == u && vp_lastj == j)
;
W edge_weight(size_t e)
__CPROVER_assigns()
__CPROVER_ensures(__CPROVER_return_value > 0 && __CPROVER_return_value < WB)
__CPROVER_ensures((vp_lastu == x0 && vp_lastj == j0) ==> __CPROVER_return_value == w0)
;
/* contract of LexDistanceCombine::operator() (proved on the extracted body: unit K12d), the weight lookup made explicit */
lex_t lex_combine(lex_t a, W we)
__CPROVER_requires(a.distance >= 0 && we > 0 && we < WB && a.distance <= INF - we)
__CPROVER_assigns()
__CPROVER_ensures(__CPROVER_return_value.distance == a.distance + we && __CPROVER_return_value.edge_count == a.edge_count + 1)
;
/* contract of LexDistanceCompare::operator() as far as proved (K12_lexcompare_prefix): the distance decides first */
bool lex_less(lex_t a, lex_t b)
__CPROVER_assigns()
__CPROVER_ensures((a.distance < b.distance ==> __CPROVER_return_value) && (a.distance > b.distance ==> !__CPROVER_return_value))
;
lex_t LEX[MAXN]; W DMAP[MAXN]; bool PREDF[MAXN]; size_t PREDE[MAXN];
bool INH[MAXN], STALE[MAXN]; size_t hn, vp_top;
#define NOSTALE __CPROVER_forall { size_t hs; (hs < MAXN) ==> ((hs < vp_n && INH[hs]) ==> !STALE[hs]) }
void heap_push(size_t v)
__CPROVER_requires(v < vp_n && !INH[v] && NOSTALE)
__CPROVER_assigns(INH[v], STALE[v], hn)
__CPROVER_ensures(INH[v] && !STALE[v] && hn == __CPROVER_old(hn) + 1)
;
bool heap_empty(void)
__CPROVER_assigns()
__CPROVER_ensures(__CPROVER_return_value == (hn == 0))
__CPROVER_ensures(__CPROVER_return_value ==> __CPROVER_forall { size_t he; (he < MAXN) ==> !INH[he] })
;
/* top() is minimal in the order of LexDistanceCompare; by the proved prefix of that order no member has a smaller distance */
size_t heap_top(void)
__CPROVER_requires(hn > 0 && NOSTALE)
__CPROVER_assigns(vp_top)
__CPROVER_ensures(__CPROVER_return_value < vp_n && INH[__CPROVER_return_value] && vp_top == __CPROVER_return_value)
__CPROVER_ensures(__CPROVER_forall { size_t ht; (ht < MAXN) ==> ((ht < vp_n && INH[ht]) ==> LEX[__CPROVER_return_value].distance <= LEX[ht].distance) })
;
void heap_pop(void)
__CPROVER_requires(hn > 0 && vp_top < vp_n && INH[vp_top] && NOSTALE)
__CPROVER_assigns(INH[vp_top], hn)
__CPROVER_ensures(!INH[vp_top] && hn == __CPROVER_old(hn) - 1)
;
void heap_update(size_t v)
__CPROVER_requires(v < vp_n && INH[v])
__CPROVER_assigns(STALE[v])
__CPROVER_ensures(!STALE[v])
;
bool SETTLED[MAXN]; size_t PU[MAXN]; W PW[MAXN]; W dmax;
#define VIS(v) ((v) == vp_s || PREDF[v])
#define ALLV(v, body) __CPROVER_forall { size_t v; (v < MAXN) ==> ((v < vp_n) ==> (body)) }
"""

SETS = ("dmax >= 0 && dmax <= SUMSET * WB && ALLV(qs, INH[qs] ==> !STALE[qs])"
        " && ALLV(qv, (INH[qv] ==> (VIS(qv) && !SETTLED[qv] && LEX[qv].distance >= dmax)) && (SETTLED[qv] ==> (VIS(qv) && !INH[qv] && LEX[qv].distance <= dmax))"
        " && (VIS(qv) ==> ((INH[qv] || SETTLED[qv]) && LEX[qv].distance >= 0 && LEX[qv].distance <= SUMSET * WB)))")
TREE = ("LEX[vp_s].distance == 0 && !PREDF[vp_s]"
        " && ALLV(qv, PREDF[qv] ==> (PU[qv] < vp_n && VIS(PU[qv]) && ADJM[PU[qv]][qv] && PW[qv] > 0 && PW[qv] < WB && LEX[qv].distance == LEX[PU[qv]].distance + PW[qv]"
        " && SETTLED[PU[qv]] && DMAP[qv] == LEX[qv].distance))")


def _closure(done):
    return "((SETTLED[x0] && (%s)) ==> (y0 == vp_s || y0 == x0 || (VIS(y0) && LEX[y0].distance <= LEX[x0].distance + w0)))" % done


PRE_BOUNDED = r"""
#include <stddef.h>
typedef _Bool bool;
#define true 1
#define false 0
#define MAXN 3
#define MAXE 3
#define MAXD (2 * MAXE)
typedef long W;
#define INF 9223372036854775807L
typedef struct { W distance; size_t edge_count; unsigned long vset; } lex_t;
size_t vp_n, vp_s;
size_t DEG[MAXN], ADJ[MAXN][MAXD], AE[MAXN][MAXD];
size_t vp_in_ne, vp_in_ea[MAXE], vp_in_eb[MAXE]; W vp_in_ew[MAXE];
size_t out_degree(size_t u) { return DEG[u]; }
size_t out_target(size_t u, size_t j) { return ADJ[u][j]; }
size_t out_edge(size_t u, size_t j) { return AE[u][j]; }
W edge_weight(size_t e) { return vp_in_ew[e]; }
lex_t lex_combine(lex_t a, W we) { lex_t r; r.distance = a.distance + we; r.edge_count = a.edge_count + 1; return r; }     /* vertex set: unspecified */
bool lex_less(lex_t a, lex_t b) { bool tie; if (a.distance < b.distance) return 1; if (a.distance > b.distance) return 0; return tie; }  /* ties: any answer */
lex_t LEX[MAXN]; W DMAP[MAXN]; bool PREDF[MAXN]; size_t PREDE[MAXN];
bool INH[MAXN], STALE[MAXN]; size_t hn, vp_top;
void heap_push(size_t v) { INH[v] = 1; STALE[v] = 0; hn++; }
bool heap_empty(void) { return hn == 0; }
size_t heap_top(void) { size_t v; bool stale = 0; __CPROVER_assume(v < vp_n && INH[v]);
  for (size_t x = 0; x < MAXN; x++) if (x < vp_n && INH[x] && STALE[x]) stale = 1;
  __CPROVER_assert(!stale, "K12c.H: top() on a heap whose order was not restored by update() after a member's key changed");
  for (size_t x = 0; x < MAXN; x++) __CPROVER_assume(stale || !(x < vp_n && INH[x]) || LEX[v].distance <= LEX[x].distance); vp_top = v; return v; }
void heap_pop(void) { INH[vp_top] = 0; hn--; }
void heap_update(size_t v) { __CPROVER_assert(v < vp_n && INH[v], "K12c.H: update() on a vertex that is in the heap"); STALE[v] = 0; }
bool SETTLED[MAXN]; size_t PU[MAXN]; W PW[MAXN]; W dmax;
"""


def _bounded_unit(body, log, rel):
    fn = r"""
void lex_dijkstra(void) {%s}
size_t vp_in_n, vp_in_s;
void h_lexd(void) {
  __CPROVER_assume(vp_n >= 1 && vp_n <= MAXN && vp_s < vp_n);
  for (size_t v = 0; v < MAXN; v++) { PREDF[v] = 0; INH[v] = 0; DEG[v] = 0; }
  { size_t ne; __CPROVER_assume(ne <= MAXE); vp_in_ne = ne; }
  for (size_t i = 0; i < MAXE; i++) if (i < vp_in_ne) {
    size_t a = vp_in_ea[i], b = vp_in_eb[i];
    __CPROVER_assume(a < vp_n && b < vp_n && vp_in_ew[i] >= 1 && vp_in_ew[i] <= 4);
    ADJ[a][DEG[a]] = b; AE[a][DEG[a]] = i; DEG[a]++;
    ADJ[b][DEG[b]] = a; AE[b][DEG[b]] = i; DEG[b]++;
  }
  hn = 0; vp_in_n = vp_n; vp_in_s = vp_s;
  W D[MAXN]; for (size_t v = 0; v < MAXN; v++) D[v] = (v == vp_s) ? 0 : INF;
  for (size_t r = 0; r < MAXN; r++) for (size_t i = 0; i < MAXE; i++) if (i < vp_in_ne) {
    size_t a = vp_in_ea[i], b = vp_in_eb[i]; W w = vp_in_ew[i];
    if (D[a] != INF && D[a] + w < D[b]) D[b] = D[a] + w;
    if (D[b] != INF && D[b] + w < D[a]) D[a] = D[b] + w;
  }
  lex_dijkstra();
  for (size_t v = 0; v < MAXN; v++) if (v < vp_n) {
    bool vis = (v == vp_s) || PREDF[v];
    __CPROVER_assert(vis == (D[v] != INF), "K12c.spec: exactly the vertices reachable from s are visited");
    __CPROVER_assert(!vis || v == vp_s || DMAP[v] == D[v], "K12c.spec: the distance handed back is the shortest-path distance");
  }
  __CPROVER_assert(0, "VP_REACH end of harness");
}
""" % body
    return dict(unit="K12c_lex_dijkstra_bounded", site="K12c_lex_dijkstra", lang="c", source=rel + " (parmcb::lex_dijkstra)", text=PRE_BOUNDED + fn, entry="h_lexd",
                rewrites=log, timeout=900, unwind=8, mode="bounded", flags=["--nondet-static"],
                bound="every undirected multigraph with n <= 3 vertices and <= 3 edges of weight 1..4, every admissible heap order and tie answer; loops unwound; Bellman-Ford as the specification",
                functions={"parmcb::lex_dijkstra (distances)": "bounded(n<=3)"}, trusted=["cbmc 6.11 SAT back end"])


def _unit(maxn, bounded=False):
    log = []
    rel = "include/parmcb/detail/lex_dijkstra.hpp"
    text = X.src(rel)
    body = X.body_after(text, r"void lex_dijkstra\(const Graph &g, const WeightMap &weight_map,.*?PredecessorMap &pred_map\)\s*", "lex_dijkstra")
    i = body.find("boost::put(lex_dist_map, s,")
    if i < 0:
        raise Undecided("extraction out of date: initialisation of the source in lex_dijkstra")
    log.append(dict(pattern="declarations before the source is initialised", replacement="", fired=1, expected=1, kind="drop",
                    note="typedefs, index-in-heap map, the label vector and its map, the comparator / combiner objects, construction of the (empty) queue"))
    body = X.drop_local_const(body[i:], log)
    body = X.canon(body, [(r"Vertex (\w+) = queue\.top\(\);", ["u"]), (r"LexDistanceType (\w+) = boost::get\(lex_dist_map, u\);", ["d_u"]),
                          (r"auto (\w+) = boost::out_edges\(u, g\);", ["eiRange"]), (r"for \(auto (\w+) = eiRange\.first;", ["ei"]), (r"auto (\w+) = \*ei;", ["e"]),
                          (r"auto (\w+) = boost::target\(e, g\);", ["w"]), (r"LexDistanceType (\w+) = combine\(", ["c"]),
                          (r"bool (\w+) = std::get<0>\(boost::get\(pred_map, w\)\);", ["visited_w"])], log)
    body = X.rewrite(body, [
        (r"boost::put\(lex_dist_map, s, LexDistanceType\(DistanceType\(\), 0, std::set<std::size_t>\(\{ index_map\[s\] \}\)\)\);",
         "LEX[vp_s] = (lex_t){ 0, 0, 1UL << vp_s };", 1, "container-api", "label of the source: distance 0, no edge, vertex set {s}"),
        (r"boost::put\(pred_map, s, std::make_tuple\(false, Edge\(\)\)\);", "PREDF[vp_s] = 0;", 1, "container-api", ""),
        (r"queue\.push\(s\);", "heap_push(vp_s); dmax = 0;", 1, "ghost", "push + ghost: nothing settled yet"),
        (r"!queue\.empty\(\)", "!heap_empty()", 1, "container-api", ""),
        (r"Vertex u = queue\.top\(\);", "size_t u = heap_top();", 1, "container-api", ""),
        (r"queue\.pop\(\);", "heap_pop(); SETTLED[u] = 1; dmax = LEX[u].distance;", 1, "ghost", "pop + ghost: u is settled"),
        (r"LexDistanceType d_u = boost::get\(lex_dist_map, u\);", "lex_t d_u = LEX[u];", 1, "container-api", ""),
        (r"auto eiRange = boost::out_edges\(u, g\);", "size_t eiRange_second = out_degree(u);", 1, "container-api", ""),
        (r"for \(auto ei = eiRange\.first; ei != eiRange\.second; ei\+\+\)", "for (size_t ei = 0; ei != eiRange_second; ei++)", 1, "container-api", ""),
        (r"auto e = \*ei;", "size_t e = out_edge(u, ei);", 1, "container-api", ""),
        (r"auto w = boost::target\(e, g\);", "size_t w = out_target(u, ei);", 1, "container-api", ""),
        (r"w = boost::source\(e, g\);", "w = u;", 1, "container-api", "source of an out-edge of u is u"),
        (r"\bs\b", "vp_s", (1, 3), "type-binding", "parameter s"),
        (r"LexDistanceType c = combine\(d_u, e\);", "const W vp_we = edge_weight(e); const lex_t c = lex_combine(d_u, vp_we);", 1, "overload-resolution",
         "LexDistanceCombine::operator() -> its contract (K12d); the weight lookup it performs is made explicit"),
        (r"bool visited_w = std::get<0>\(boost::get\(pred_map, w\)\);", "bool visited_w = PREDF[w];", 1, "container-api", ""),
        (r"boost::put\(lex_dist_map, w, c\);", "LEX[w] = c; STALE[w] = INH[w];", (1, 3), "ghost", "label write + ghost: a member's key changed"),
        (r"boost::put\(dist_map, w, c\.distance\);", "DMAP[w] = c.distance;", (1, 3), "container-api", "the distance map handed back to the caller"),
        (r"boost::put\(pred_map, w, std::make_tuple\(true, e\)\);", "PREDF[w] = 1; PREDE[w] = e; PU[w] = u; PW[w] = vp_we;", (1, 3), "ghost", "pred entry + ghost"),
        (r"queue\.push\(w\);", "heap_push(w);", 1, "container-api", ""),
        (r"\bcompare\(", "lex_less(", (0, 2), "overload-resolution", "LexDistanceCompare::operator() -> its contract (K12)"),
        (r"boost::get\(lex_dist_map, w\)", "LEX[w]", (0, 3), "container-api", ""),
        (r"queue\.update\(w\);", "heap_update(w);", (0, 2), "container-api", ""),
    ], log)
    if bounded:
        return _bounded_unit(body, log, rel)
    assigns = ("hn, vp_top, vp_lastu, vp_lastj, dmax, __CPROVER_object_whole(STALE), __CPROVER_object_whole(LEX), __CPROVER_object_whole(DMAP), __CPROVER_object_whole(PREDF), "
               "__CPROVER_object_whole(PREDE), __CPROVER_object_whole(INH), __CPROVER_object_whole(SETTLED), __CPROVER_object_whole(PU), __CPROVER_object_whole(PW)")
    inv_main = ("__CPROVER_assigns(%s)\n__CPROVER_loop_invariant(%s && %s && %s)" % (assigns, SETS, TREE, _closure("1")))
    inv_scan = ("__CPROVER_assigns(ei, %s)\n__CPROVER_loop_invariant(ei <= eiRange_second && u < vp_n && SETTLED[u] && LEX[u].distance == d_u.distance && d_u.distance == dmax && d_u.distance <= (SUMSET - 1) * WB && %s && %s && %s)\n"
                "__CPROVER_decreases(eiRange_second - ei)" % (
        assigns.replace("vp_top, ", "").replace("dmax, ", "").replace("__CPROVER_object_whole(SETTLED), ", ""), SETS, TREE,
        _closure("x0 != u || ei > j0")))
    body = X.splice_loop_contracts(body, {0: inv_main, 1: inv_scan}, log)
    fn = r"""
void lex_dijkstra(void)
__CPROVER_requires(vp_n >= 1 && vp_n <= MAXN && vp_s < vp_n && hn == 0)
__CPROVER_requires(x0 < vp_n && y0 < vp_n && j0 < d_x0 && w0 > 0 && w0 < WB)
__CPROVER_requires(ALLV(ra, !PREDF[ra] && !INH[ra] && !SETTLED[ra]))
__CPROVER_assigns(%(ASSIGNS)s)
/* T */
__CPROVER_ensures(LEX[vp_s].distance == 0 && !PREDF[vp_s])
__CPROVER_ensures(ALLV(pa, PREDF[pa] ==> (PU[pa] < vp_n && VIS(PU[pa]) && ADJM[PU[pa]][pa] && PW[pa] > 0 && LEX[pa].distance == LEX[PU[pa]].distance + PW[pa] && DMAP[pa] == LEX[pa].distance)))
/* R */
__CPROVER_ensures(ALLV(pb, VIS(pb) ==> SETTLED[pb]))
__CPROVER_ensures(SETTLED[x0] ==> (y0 == vp_s || y0 == x0 || (VIS(y0) && LEX[y0].distance <= LEX[x0].distance + w0)))
{%(BODY)s}
size_t vp_in_n, vp_in_s;
void h_lexd(void) {
  vp_in_n = vp_n; vp_in_s = vp_s;
  lex_dijkstra();
  __CPROVER_assert(0, "VP_REACH end of harness");
}
""" % dict(ASSIGNS=assigns, BODY=body)
    sumset = "#define SUMSET ((W) (%s))\n" % " + ".join("((%d < vp_n && SETTLED[%d]) ? 1 : 0)" % (i, i) for i in range(maxn))
    return dict(unit="K12c_lex_dijkstra", site="K12c_lex_dijkstra", lang="c", source=rel + " (parmcb::lex_dijkstra)",
                text=PRE % dict(MAXN=str(maxn)) + sumset + _fresh(fn), entry="h_lexd", enforce="lex_dijkstra",
                replace=[f for f in ("out_degree", "out_target", "out_edge", "edge_weight", "lex_combine", "lex_less", "heap_push", "heap_empty", "heap_top", "heap_pop", "heap_update") if (f + "(") in body],
                rewrites=log, timeout=2400, split=16, flags=["--object-bits", "12"], unwind=28, loop_contracts=True, mode="proof", fallback=lambda: _unit(3, True),
                bound="proved(n<=%d): both loops closed by loop contracts with invariants quantified over the vertex range; degrees, parallel edges, self-loops unbounded; integer weights in (0, 10^9); termination not proved" % maxn,
                dropped=["template header; typedefs; construction of the queue, the label vector and the helper objects"],
                functions={"parmcb::lex_dijkstra (distances and predecessor tree)": "proved(n<=%d), partial correctness" % maxn},
                assumptions=["contracts of boost::d_ary_heap_indirect (set; top minimal in the comparator's order; update needs a member; no stale key), boost::out_edges / target / weight map",
                             "LexDistanceCompare: only its proved prefix (distance decides first, K12) is used; LexDistanceCombine: its contract (K12d)",
                             "positive integer weights below 10^9; informal lemma DESIGN 10.10; the tie-breaking among equally long paths is outside this unit"],
                trusted=["cbmc 6.11 + DFCC, SAT back end (bounded quantifier instantiation)"])


def _combine_unit():
    """K12d: LexDistanceCombine::operator() - loop-free; the label's vertex set is a bit mask."""
    log = []
    rel = "include/parmcb/detail/lex_dijkstra.hpp"
    text = X.src(rel)
    body = X.body_after(text, r"LexDistance<Graph, DistanceMap> operator\(\)\(const LexDistance<Graph, DistanceMap> &a, const Edge &e\)\s*", "LexDistanceCombine::operator()")
    body = X.drop_local_const(body, log)
    body = X.rewrite(body, [
        (r"auto index_target = index_map\[boost::target\(e, g\)\];", "size_t index_target = TGT[e];", 1, "container-api", ""),
        (r"auto index_source = index_map\[boost::source\(e, g\)\];", "size_t index_source = SRC[e];", 1, "container-api", ""),
        (r"WeightType e_weight = boost::get\(weight_map, e\);", "W e_weight = WT[e];", 1, "container-api", ""),
        (r"WeightType sum = combine\(a\.distance, e_weight\);", "W sum = closed_plus(a.distance, e_weight);", 1, "overload-resolution", "closed_plus (K12)"),
        (r"std::set<std::size_t> vertex_indices = a\.vertex_indices;", "unsigned long vertex_indices = a.vset;", 1, "container-api", "std::set<size_t> -> bit mask (indices < 64)"),
        (r"vertex_indices\.insert\((\w+)\);", r"vertex_indices |= 1UL << \1;", 2, "container-api", ""),
        (r"return LexDistance<Graph, DistanceMap>\(sum, a\.edge_count \+ 1, vertex_indices\);", "return (lex_t){ sum, a.edge_count + 1, vertex_indices };", 1, "type-binding", "constructor (member-wise)"),
    ], log)
    fn = r"""
#include <stddef.h>
typedef long W;
#define INF 9223372036854775807L
typedef struct { W distance; size_t edge_count; unsigned long vset; } lex_t;
size_t SRC[8], TGT[8]; W WT[8];
W closed_plus(W a, W b)
__CPROVER_requires(a >= 0 && b >= 0 && ((a != INF && b != INF) ==> a <= INF - b))
__CPROVER_assigns()
__CPROVER_ensures((a == INF || b == INF) ==> __CPROVER_return_value == INF)
__CPROVER_ensures((a != INF && b != INF) ==> __CPROVER_return_value == a + b)
;
lex_t lex_combine(lex_t a, size_t e)
__CPROVER_requires(e < 8 && SRC[e] < 64 && TGT[e] < 64 && a.distance >= 0 && WT[e] > 0 && a.distance != INF && WT[e] != INF && a.distance <= INF - WT[e] && a.edge_count < 1000000)
__CPROVER_assigns()
/* distance + weight, one edge more, both endpoints added to the vertex set */
__CPROVER_ensures(__CPROVER_return_value.distance == a.distance + WT[e] && __CPROVER_return_value.edge_count == a.edge_count + 1)
__CPROVER_ensures(__CPROVER_return_value.vset == (a.vset | (1UL << SRC[e]) | (1UL << TGT[e])))
{%s}
lex_t vp_in_a; size_t vp_in_e;
void h_comb(void) { lex_t a; size_t e; vp_in_a = a; vp_in_e = e; lex_t r = lex_combine(a, e); (void) r; __CPROVER_assert(0, "VP_REACH end"); }
""" % body
    return dict(unit="K12d_lex_combine", site="K12d_lex_combine", lang="c", source=rel + " (LexDistanceCombine::operator())", text=fn, entry="h_comb", enforce="lex_combine",
                replace=["closed_plus"], rewrites=log, timeout=600, mode="proof", bound="loop-free, full domain of the label and the weight (no overflow)",
                dropped=["struct wrapper, template header"], functions={"LexDistanceCombine::operator()": "proved"},
                assumptions=["std::set<size_t> of vertex indices below 64 bound to a bit mask; closed_plus by its contract (K12, proved)"], trusted=["cbmc 6.11 + DFCC, SAT back end"])


def units(tier):
    return [X.guarded("K12c_lex_dijkstra", _unit, 5 if tier == "thorough" else 4), X.guarded("K12d_lex_combine", _combine_unit)]
