"""K11-parity: SPTree::update_parities (include/parmcb/sptrees.hpp), bounded CBMC check of the extracted text.
Binding: tree nodes are vertex ids; children() is a table CHILD[v][0..NCHILD[v]); std::stack<SPSubtree<..,bool>> is two
arrays + stack pointer; node->parity() is PAR[v]; `edges.find(c->pred()) != edges.end()` is a bit of the witness mask.
Contract: after the call PAR[v] = parity of witness edges on the root path of v, for every tree node v (ghost table UPPAR
defined from PRED by the harness).  Bounded: trees with at most MAXN nodes, all loops unwound."""
from lib import xtract as X


def _unit(maxn):
    log = []
    rel = "include/parmcb/sptrees.hpp"
    text = X.src(rel)
    body = X.body_after(text, r"void update_parities\(const std::set<Edge> &edges\)\s*", "SPTree::update_parities")
    body = X.drop_local_const(body, log)
    body = X.canon(body, [(r"SPSubtree<Graph, WeightMap, bool> (\w+) = stack\.top\(\);", ["r"]), (r"for \(auto (\w+) : r\.root->children\(\)\)", ["c"])], log)
    body = X.rewrite(body, [
        (r"std::stack<SPSubtree<Graph, WeightMap, bool>> stack;", "size_t sp = 0;", 1, "container-api", "std::stack -> arrays SINFO/SROOT + stack pointer"),
        (r"stack\.emplace\(false, _root\);", "SINFO[sp] = 0; SROOT[sp] = vp_root; sp++;", 1, "container-api", "push (false, root)"),
        (r"!stack\.empty\(\)", "sp != 0", 1, "container-api", ""),
        (r"SPSubtree<Graph, WeightMap, bool> r = stack\.top\(\);\s*stack\.pop\(\);", "sp--; bool r_info = SINFO[sp]; size_t r_root = SROOT[sp];", 1, "container-api", "top + pop"),
        (r"r\.root->parity\(\) = r\.info;", "PAR[r_root] = r_info;", 1, "container-api", "node parity"),
        (r"for \(auto c : r\.root->children\(\)\)", "for (size_t ci = 0; ci < NCHILD[r_root]; ci++)", 1, "container-api", "range-for over the children list"),
        (r"bool is_signed = edges\.find\(c->pred\(\)\) != edges\.end\(\);", "size_t c = CHILD[r_root][ci]; bool is_signed = (vp_S >> PRED[c]) & 1UL;", 1, "container-api",
         "witness membership of the child's predecessor edge"),
        (r"stack\.emplace\(\s*SPSubtree<Graph, WeightMap, bool> \{\s*static_cast<bool>\(([^{};]*?)\),\s*c \}\);",
         lambda m: "__CPROVER_assert(sp < 2 * MAXN, \"VP_BOUND stack capacity\"); SINFO[sp] = (bool)(%s); SROOT[sp] = c; sp++;" % m.group(1).replace("r.info", "r_info"), 1,
         "container-api", "push (expression, child); r.info -> r_info"),
    ], log)
    fn = r"""
#include <stddef.h>
typedef _Bool bool;
#define true 1
#define false 0
#define MAXN %d
size_t vp_n, vp_root; unsigned long vp_S;
size_t NCHILD[MAXN + 1], CHILD[MAXN + 1][MAXN + 1], PRED[MAXN + 1], PARENT[MAXN + 1], DEPTH[MAXN + 1];
bool PAR[MAXN + 1], UPPAR[MAXN + 1], INTREE[MAXN + 1];
bool SINFO[2 * MAXN + 1]; size_t SROOT[2 * MAXN + 1];
void update_parities(void) {%s}
size_t vp_in_n, vp_in_root; unsigned long vp_in_S;
void h_par(void) {
  __CPROVER_assume(vp_n >= 1 && vp_n <= MAXN && vp_root < vp_n);
  /* an arbitrary rooted tree on a subset of the vertices, given by parent pointers with decreasing depth;
     children lists are exactly the inverse of the parent relation; UPPAR = parity of witness edges on the root path */
  for (size_t v = 0; v < MAXN; v++) if (v < vp_n) {
    __CPROVER_assume(PRED[v] < 63 && NCHILD[v] <= MAXN && INTREE[v] <= 1);
    if (v == vp_root) { __CPROVER_assume(INTREE[v] && DEPTH[v] == 0 && UPPAR[v] == 0); }
    else if (INTREE[v]) {
      size_t p = PARENT[v];
      __CPROVER_assume(p < vp_n && INTREE[p] && DEPTH[v] == DEPTH[p] + 1 && DEPTH[v] < MAXN && UPPAR[v] == (bool)(UPPAR[p] ^ ((vp_S >> PRED[v]) & 1UL)));
      bool listed = 0; for (size_t i = 0; i < MAXN; i++) if (i < NCHILD[p] && CHILD[p][i] == v) listed = 1;
      __CPROVER_assume(listed);
    }
    for (size_t i = 0; i < MAXN; i++) if (i < NCHILD[v]) {
      size_t c = CHILD[v][i];
      __CPROVER_assume(c < vp_n && c != vp_root && INTREE[c] && PARENT[c] == v && INTREE[v]);
      for (size_t j = 0; j < MAXN; j++) if (j < i) __CPROVER_assume(CHILD[v][j] != c);
    }
  }
  vp_in_n = vp_n; vp_in_root = vp_root; vp_in_S = vp_S;
  update_parities();
  for (size_t v = 0; v < MAXN; v++) if (v < vp_n && INTREE[v])
    __CPROVER_assert(PAR[v] == UPPAR[v], "K11-parity: node parity = parity of witness edges on the root path");
  __CPROVER_assert(0, "VP_REACH end of harness");
}
""" % (maxn, body)
    return dict(unit="K11_update_parities", lang="c", source=rel + " (SPTree::update_parities)", text=fn, entry="h_par", mode="bounded",
                unwind=2 * maxn + 2, timeout=900, flags=["--nondet-static"], bound="trees with <= %d nodes, all loops unwound" % maxn, rewrites=log,
                dropped=["class wrapper"], functions={"SPTree::update_parities": "bounded(n<=%d)" % maxn},
                assumptions=["the node/children structure is a rooted tree (K12); shared_ptr / std::stack / children vector bound to tables"],
                trusted=["cbmc 6.11 SAT back end"])


def units(tier):
    return [X.guarded("K11_update_parities", _unit, 6 if tier == "thorough" else 5)]
