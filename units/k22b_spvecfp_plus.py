"""K22b: SpVecFP<P>::operator+ (include/parmcb/spvecfp.hpp) as an E1 unit: the merge loop, the two normalisation loops nested in it and
the two copy loops, all closed by loop contracts; invariants quantified over the bounded entry range.

Binding: `entries` / `v.entries` are arrays of (index, value) pairs with lengths; iterators are positions; `res.entries.push_back`
appends to R.  P is `long`; the prime p is symbolic, 2 <= p < 2^15 (only so that the single `%` of the code stays cheap for the SAT
back end - nothing in the argument uses primality).  VAL_A(k) / VAL_B(k) - the value an operand has at coordinate k, 0 if absent -
are explicit bounded sums over the operand's entries.

Contract (operands canonical: indices strictly increasing, values in 1..p-1): the result is canonical, and for EVERY coordinate k its
value is (VAL_A(k) + VAL_B(k)) mod p - stated over the result's entries: every entry of R carries that value at its index and it is
non-zero, and every coordinate whose sum is non-zero mod p occurs in R."""
from lib import xtract as X
from lib.core import Undecided
from units.k17b_bfs import _fresh


def _replay(vals, failed):
    import re
    from lib import native
    def num(k):
        c = [v for kk, v in vals.items() if re.match(re.escape(k).replace(r"\]", r"\w*\]") + "$", kk)]
        return int(re.sub(r"[^\d-]", "", c[0]) or 0) if c else 0
    def vec(ni, pi, pv):
        n = num(ni)
        return ",".join("%d:%d" % (num("%s[%d]" % (pi, i)), num("%s[%d]" % (pv, i))) for i in range(n)) or "-"
    return native.replay_run("e3_fp", ["--replay-add", num("vp_in_p"), vec("vp_in_na", "vp_in_ai", "vp_in_av"), vec("vp_in_nb", "vp_in_bi", "vp_in_bv")], dict(libs=()))


def _unit(maxlen, bounded=False):
    import re
    log = []
    rel = "include/parmcb/spvecfp.hpp"
    text = X.src(rel)
    body = X.body_after(text, r"SpVecFP<P> operator\+\(const SpVecFP<P> &v\) const\s*", "SpVecFP::operator+")
    body = X.drop_local_const(body, log)
    body = X.rewrite(body, [
        (r"SpVecFP<P> res\(p\);", "", 1, "container-api", "result vector -> arrays RI / RV + length nr (0 on entry)"),
        (r"auto it = entries\.begin\(\), it_e = entries\.end\(\);", "size_t it = 0, it_e = na;", 1, "container-api", "iterators = positions"),
        (r"auto v_it = v\.entries\.begin\(\), v_it_e = v\.entries\.end\(\);", "size_t v_it = 0, v_it_e = nb;", 1, "container-api", ""),
        (r"entry_type entry = \*it;", "", 2, "container-api", "the tuple is read through AI / AV"),
        (r"entry_type v_entry = \*v_it;", "", 2, "container-api", ""),
        (r"std::size_t index = boost::get<0>\(entry\);", "size_t index = AI[it];", 2, "container-api", ""),
        (r"P value = boost::get<1>\(entry\);", "P value = AV[it];", 2, "container-api", ""),
        (r"std::size_t v_index = boost::get<0>\(v_entry\);", "size_t v_index = BI[v_it];", 2, "container-api", ""),
        (r"P v_value = boost::get<1>\(v_entry\);", "P v_value = BV[v_it];", 2, "container-api", ""),
        (r"res\.entries\.push_back\(boost::make_tuple\((\w+), (\w+)\)\);", r"RI[nr] = \1; RV[nr] = \2; nr++;", 5, "container-api", "push_back of an (index, value) pair"),
        (r"return res;", "return;", 1, "type-binding", ""),
    ], log)
    # facts about the part of R built so far: strictly increasing, below the next indices of both operands, correct values
    rfacts = ("nr <= it + v_it && it <= na && v_it <= nb && it_e == na && v_it_e == nb"
              " && ALLR(qr, qr < nr ==> (RV[qr] >= 1 && RV[qr] < p && RV[qr] == MODP(VALA(RI[qr]) + VALB(RI[qr]))"
              " && (qr + 1 < nr ==> RI[qr] < RI[qr + 1]) && (it < na ==> RI[qr] < AI[it]) && (v_it < nb ==> RI[qr] < BI[v_it])))"
              # completeness: every entry of A / B consumed so far is either in R or cancelled
              " && ALLA(qa, qa < it ==> ((MODP(VALA(AI[qa]) + VALB(AI[qa])) == 0) || INR(AI[qa])))"
              " && ALLB(qb, qb < v_it ==> ((MODP(VALA(BI[qb]) + VALB(BI[qb])) == 0) || INR(BI[qb])))"
              # the consumed entries of one operand lie below the next entry of the other
              " && ALLA(qc, (qc < it && v_it < nb) ==> AI[qc] < BI[v_it]) && ALLB(qd, (qd < v_it && it < na) ==> BI[qd] < AI[it])")
    inv_merge = "__CPROVER_assigns(it, v_it, nr, __CPROVER_object_whole(RI), __CPROVER_object_whole(RV))\n__CPROVER_loop_invariant(%s)\n__CPROVER_decreases((na - it) + (nb - v_it))" % rfacts
    inv_neg = "__CPROVER_assigns(v)\n__CPROVER_loop_invariant(vp_v0 > -p && vp_v0 < p && v > -p && v < p && (v == vp_v0 || v == vp_v0 + p))\n__CPROVER_decreases(p - v)"
    inv_pos = "__CPROVER_assigns(v)\n__CPROVER_loop_invariant(vp_v0 > -p && vp_v0 < p && v >= 0 && v < p && (v == vp_v0 || v == vp_v0 + p))\n__CPROVER_decreases(v)"
    inv_ta = "__CPROVER_assigns(it, nr, __CPROVER_object_whole(RI), __CPROVER_object_whole(RV))\n__CPROVER_loop_invariant(%s && (it >= na || v_it >= nb))\n__CPROVER_decreases(na - it)" % rfacts
    inv_tb = "__CPROVER_assigns(v_it, nr, __CPROVER_object_whole(RI), __CPROVER_object_whole(RV))\n__CPROVER_loop_invariant(%s && it >= na)\n__CPROVER_decreases(nb - v_it)" % rfacts
    # loops are recognised by their headers; the two normalisation loops may be absent (the sum of two reduced values needs none)
    want = {"while (it != it_e && v_it != v_it_e)": inv_merge, "while (v < 0)": inv_neg, "while (v >= p)": inv_pos,
            "while (it != it_e)": inv_ta, "while (v_it != v_it_e)": inv_tb}
    ls = X.loops(body)
    heads = [re.sub(r"\s+", " ", body[a:b + 1]) for a, b in ls]
    if all(h in want for h in heads) and len(set(heads)) == len(heads) and all(h in heads for h in list(want)[:1] + list(want)[3:]):
        contracts = {k: want[h] for k, h in enumerate(heads)}
    elif len(ls) == 5:      # headers rewritten: by position (merge loop with its two normalisation loops, then the two copy loops)
        contracts = dict(enumerate([inv_merge, inv_neg, inv_pos, inv_ta, inv_tb]))
    elif len(ls) == 3:
        contracts = dict(enumerate([inv_merge, inv_ta, inv_tb]))
    else:
        raise Undecided("extraction out of date: SpVecFP::operator+ has %d loops with headers %s" % (len(ls), "; ".join(h[:50] for h in heads)))
    # ghost: remember the un-normalised sum for the two normalisation loops
    body = re.sub(r"(P v = [^;]*;)", r"\1 const P vp_v0 = v;", body, count=1)
    if not bounded:
        body = X.splice_loop_contracts(body, contracts, log)
    vala = "(" + " + ".join("((%d < na && AI[%d] == (k)) ? AV[%d] : 0)" % (i, i, i) for i in range(maxlen)) + ")"
    valb = "(" + " + ".join("((%d < nb && BI[%d] == (k)) ? BV[%d] : 0)" % (i, i, i) for i in range(maxlen)) + ")"
    inr = "(" + " || ".join("(%d < nr && RI[%d] == (k))" % (i, i) for i in range(2 * maxlen)) + ")"
    fn = r"""
#include <stddef.h>
#include <stdbool.h>
typedef long P;
#define MAXLEN %(MAXLEN)d
size_t AI[MAXLEN], BI[MAXLEN], RI[2 * MAXLEN], na, nb, nr; P AV[MAXLEN], BV[MAXLEN], RV[2 * MAXLEN]; P p;
#define VALA(k) %(VALA)s
#define VALB(k) %(VALB)s
#define INR(k) %(INR)s
/* (a + b) mod p for a, b in 0..p-1, without a division */
#define MODP(s) ((s) >= p ? (s) - p : (s))
#define ALLR(r, body) __CPROVER_forall { size_t r; (r < 2 * MAXLEN) ==> (body) }
#define ALLA(a, body) __CPROVER_forall { size_t a; (a < MAXLEN) ==> (body) }
#define ALLB(b, body) __CPROVER_forall { size_t b; (b < MAXLEN) ==> (body) }
void plus(void)
__CPROVER_requires(p >= 2 && p < 32768 && na <= MAXLEN && nb <= MAXLEN && nr == 0)
/* operands canonical: indices strictly increasing, values in 1..p-1 */
__CPROVER_requires(ALLA(ra, ra < na ==> (AV[ra] >= 1 && AV[ra] < p && (ra + 1 < na ==> AI[ra] < AI[ra + 1]))))
__CPROVER_requires(ALLB(rb, rb < nb ==> (BV[rb] >= 1 && BV[rb] < p && (rb + 1 < nb ==> BI[rb] < BI[rb + 1]))))
__CPROVER_assigns(nr, __CPROVER_object_whole(RI), __CPROVER_object_whole(RV))
/* result canonical; every entry carries (a+b) mod p at its index, non-zero */
__CPROVER_ensures(nr <= na + nb && ALLR(pr, pr < nr ==> (RV[pr] >= 1 && RV[pr] < p && RV[pr] == MODP(VALA(RI[pr]) + VALB(RI[pr])) && (pr + 1 < nr ==> RI[pr] < RI[pr + 1]))))
/* every coordinate of an operand whose sum does not vanish mod p is in the result */
__CPROVER_ensures(ALLA(pa, pa < na ==> ((MODP(VALA(AI[pa]) + VALB(AI[pa])) == 0) || INR(AI[pa]))) && ALLB(pb, pb < nb ==> ((MODP(VALA(BI[pb]) + VALB(BI[pb])) == 0) || INR(BI[pb]))))
{%(BODY)s}
size_t vp_in_na, vp_in_nb, vp_in_ai[MAXLEN], vp_in_bi[MAXLEN]; P vp_in_p, vp_in_av[MAXLEN], vp_in_bv[MAXLEN];
void h_plus(void) {
  vp_in_na = na; vp_in_nb = nb; vp_in_p = p;
  plus();
  __CPROVER_assert(0, "VP_REACH end of harness");
}
""" % dict(MAXLEN=maxlen, VALA=vala, VALB=valb, INR=inr, BODY=body)
    text = _fresh(fn)
    spec = dict(unit="K22b_spvecfp_plus", site="K22b_spvecfp_plus", lang="c", source=rel + " (SpVecFP::operator+)", entry="h_plus", rewrites=log, timeout=5400,
                dropped=["class wrapper; template header"], replay=_replay,
                assumptions=["std::vector of boost tuples bound to index / value arrays; P = long; p below 2^15 (the argument does not use primality)"],
                trusted=["cbmc 6.11 + DFCC, SAT back end (bounded quantifier instantiation)"])
    if bounded:
        cap = "".join("  vp_in_ai[%d] = AI[%d]; vp_in_av[%d] = AV[%d]; vp_in_bi[%d] = BI[%d]; vp_in_bv[%d] = BV[%d];\n" % ((i,) * 8) for i in range(maxlen))
        text = X.plain_harness(text, "void plus(void)", "void h_plus(void)", "plus()",
                               pre_call="  __CPROVER_assume(p <= 7 && ALLA(ba, AI[ba] < 8) && ALLB(bb, BI[bb] < 8));\n  vp_in_na = na; vp_in_nb = nb; vp_in_p = p;\n" + cap)
        spec.update(unit="K22b_spvecfp_plus_bounded", text=text, mode="bounded", flags=["--nondet-static", "--object-bits", "12"], unwind=2 * maxlen + 2,
                    bound="operands with <= %d entries, indices < 8, p <= 7, loops unwound; the contract as assume / assert" % maxlen,
                    functions={"SpVecFP::operator+": "bounded(len<=%d, p<=7)" % maxlen})
    else:
        spec.update(text=text, enforce="plus", split=16, flags=["--object-bits", "12"], unwind=max(2 * maxlen + 4, 16), loop_contracts=True, mode="proof",
                    fallback=lambda: _unit(2, True),
                    bound="proved(operands with <= %d entries, 2 <= p < 2^15): all loops closed by loop contracts" % maxlen,
                    functions={"SpVecFP::operator+": "proved(len<=%d)" % maxlen})
    return spec


def _replay_scale(vals, failed):
    import re
    from lib import native
    def num(k):
        c = [v for kk, v in vals.items() if re.match(re.escape(k).replace(r"\]", r"\w*\]") + "$", kk)]
        return int(re.sub(r"[^\d-]", "", c[0]) or 0) if c else 0
    n = num("vp_in_na")
    vec = ",".join("%d:%d" % (num("vp_in_ai[%d]" % i), num("vp_in_av[%d]" % i)) for i in range(n)) or "-"
    return native.replay_run("e3_fp", ["--replay-scale", num("vp_in_p"), vec, num("vp_in_a")], dict(libs=()))


def _scale_unit(maxlen, bounded=False):
    """K22c: SpVecFP<P>::operator*(const P &a) - the scaling loop with its two normalisation loops under loop contracts.  Ghost SRC[j] =
    position of the operand entry the j-th result entry was computed from.  Contract (canonical operand, |a| < 2^15, 2 <= p < 2^15): the
    result lists, in order, exactly the operand entries whose product with a does not vanish mod p, each with the product reduced to 1..p-1."""
    import re
    log = []
    rel = "include/parmcb/spvecfp.hpp"
    text = X.src(rel)
    body = X.body_after(text, r"SpVecFP<P> operator\*\(const P &a\) const\s*", "SpVecFP::operator*(scalar)")
    body = X.drop_local_const(body, log)
    body = X.rewrite(body, [
        (r"SpVecFP<P> res\(p\);", "", 1, "container-api", "result vector -> arrays RI / RV + length nr (0 on entry)"),
        (r"auto it = entries\.begin\(\), it_e = entries\.end\(\);", "size_t it = 0, it_e = na;", 1, "container-api", "iterators = positions"),
        (r"entry_type entry = \*it;", "", 1, "container-api", "the tuple is read through AI / AV"),
        (r"std::size_t index = boost::get<0>\(entry\);", "size_t index = AI[it];", 1, "container-api", ""),
        (r"P value = boost::get<1>\(entry\);", "P value = AV[it];", 1, "container-api", ""),
        (r"res\.entries\.push_back\(boost::make_tuple\((\w+), (\w+)\)\);", r"RI[nr] = \1; RV[nr] = \2; SRC[nr] = it; nr++;", 1, "container-api", "push_back of an (index, value) pair; ghost: the operand position it came from"),
        (r"return res;", "return;", 1, "type-binding", ""),
    ], log)
    facts = ("it <= na && it_e == na && nr <= it"
             " && ALLR(qr, qr < nr ==> (SRC[qr] < it && RI[qr] == AI[SRC[qr]] && RV[qr] == PRODN(SRC[qr]) && RV[qr] >= 1 && RV[qr] < p"
             " && (qr + 1 < nr ==> (SRC[qr] < SRC[qr + 1] && RI[qr] < RI[qr + 1]))))"
             " && ALLA(qa, qa < it ==> (PRODN(qa) == 0 || INSRC(qa)))")
    inv_main = "__CPROVER_assigns(it, nr, __CPROVER_object_whole(RI), __CPROVER_object_whole(RV), __CPROVER_object_whole(SRC))\n__CPROVER_loop_invariant(%s)\n__CPROVER_decreases(na - it)" % facts
    inv_neg = "__CPROVER_assigns(v)\n__CPROVER_loop_invariant(vp_v0 > -p && vp_v0 < p && v > -p && v < p && (v == vp_v0 || v == vp_v0 + p))\n__CPROVER_decreases(p - v)"
    inv_pos = "__CPROVER_assigns(v)\n__CPROVER_loop_invariant(vp_v0 > -p && vp_v0 < p && v >= 0 && v < p && (v == vp_v0 || v == vp_v0 + p))\n__CPROVER_decreases(v)"
    ls = X.loops(body)
    heads = [re.sub(r"\s+", " ", body[x:y + 1]) for x, y in ls]
    if len(ls) == 3:
        contracts = {0: inv_main, 1: inv_neg, 2: inv_pos}
    elif len(ls) == 1:
        contracts = {0: inv_main}
    else:
        raise Undecided("extraction out of date: SpVecFP::operator*(scalar) has %d loops with headers %s" % (len(ls), "; ".join(h[:50] for h in heads)))
    if not bounded:
        # the product expression is opaque in the loop proof: PR[i] stands for the code's own `(value * a) % p` of operand entry i.
        # The substitution fires only on exactly that text (any other initialiser of v -> the bounded variant on the real expression).
        pat = r"P v = \(value \* a\) % p;"
        if len(re.findall(pat, body)) != 1:
            return _scale_unit(3, True)
        body = re.sub(pat, '__CPROVER_assert(value == AV[it], "abstraction: value is the operand entry at it"); P v = PR[it];', body)
        log.append(dict(pattern=pat, replacement="P v = PR[it];", fired=1, expected=1, kind="pure-expression-as-table",
                        note="`(value * a) % p` read from the ghost table PR[it] (PR[i] stands for (AV[i] * a) % p, any value in (-p, p)); value == AV[it] asserted at the site"))
    body = re.sub(r"(P v = [^;]*;)", r"\1 const P vp_v0 = v;", body, count=1)
    if not bounded:
        body = X.splice_loop_contracts(body, contracts, log)
    insrc = "(" + " || ".join("(%d < nr && SRC[%d] == (k))" % (i, i) for i in range(maxlen)) + ")"
    fn = r"""
#include <stddef.h>
#include <stdbool.h>
typedef long P;
#define MAXLEN %(MAXLEN)d
size_t AI[MAXLEN], RI[MAXLEN], SRC[MAXLEN], na, nr; P AV[MAXLEN], RV[MAXLEN]; P p, a;
#define INSRC(k) %(INSRC)s
/* the product of operand entry i with the scalar, reduced to 0..p-1 */
#define NORM(x) ((x) < 0 ? (x) + p : (x))
%(PRODDEF)s
#define ALLR(r, body) __CPROVER_forall { size_t r; (r < MAXLEN) ==> (body) }
#define ALLA(r, body) __CPROVER_forall { size_t r; (r < MAXLEN) ==> (body) }
void scale(void)
__CPROVER_requires(p >= 2 && p < 32768 && a > -32768 && a < 32768 && na <= MAXLEN && nr == 0)
%(PRREQ)s/* operand canonical: indices strictly increasing, values in 1..p-1 */
__CPROVER_requires(ALLA(ra, ra < na ==> (AV[ra] >= 1 && AV[ra] < p && (ra + 1 < na ==> AI[ra] < AI[ra + 1]))))
__CPROVER_assigns(nr, __CPROVER_object_whole(RI), __CPROVER_object_whole(RV), __CPROVER_object_whole(SRC))
/* every result entry is an operand entry (in order) with its product reduced to 1..p-1; the result is canonical */
__CPROVER_ensures(nr <= na && ALLR(pr, pr < nr ==> (SRC[pr] < na && RI[pr] == AI[SRC[pr]] && RV[pr] == PRODN(SRC[pr]) && RV[pr] >= 1 && RV[pr] < p
                  && (pr + 1 < nr ==> (SRC[pr] < SRC[pr + 1] && RI[pr] < RI[pr + 1])))))
/* every operand entry whose product does not vanish mod p is in the result */
__CPROVER_ensures(ALLA(pa, pa < na ==> (PRODN(pa) == 0 || INSRC(pa))))
{%(BODY)s}
size_t vp_in_na, vp_in_ai[MAXLEN]; P vp_in_p, vp_in_a, vp_in_av[MAXLEN];
void h_scale(void) {
  vp_in_na = na; vp_in_p = p; vp_in_a = a;
  scale();
  __CPROVER_assert(0, "VP_REACH end of harness");
}
""" % dict(MAXLEN=maxlen, INSRC=insrc, BODY=body,
           PRODDEF="#define PRODN(i) NORM((AV[i] * a) % p)" if bounded else "P PR[MAXLEN];\n#define PRODN(i) NORM(PR[i])",
           PRREQ="" if bounded else "/* the table of products: the C remainder lies strictly between -p and p */\n__CPROVER_requires(ALLA(rm, PR[rm] > -p && PR[rm] < p))\n")
    text = _fresh(fn)
    spec = dict(unit="K22c_spvecfp_scale", site="K22c_spvecfp_scale", lang="c", source=rel + " (SpVecFP::operator*(const P&))", entry="h_scale", rewrites=log, timeout=2400,
                dropped=["class wrapper; template header"], replay=_replay_scale,
                assumptions=["std::vector of boost tuples bound to index / value arrays; P = long; the argument does not use primality",
                             "the expression `(value * a) % p` is opaque in the loop proof (table PR with -p < PR[i] < p); that it does not overflow and has this range "
                             "for |a|, p < 2^15 is discharged by the loop-free unit K22c_expr"],
                trusted=["cbmc 6.11 + DFCC, SAT back end (bounded quantifier instantiation)"])
    if bounded:
        cap = "".join("  vp_in_ai[%d] = AI[%d]; vp_in_av[%d] = AV[%d];\n" % ((i,) * 4) for i in range(maxlen))
        text = X.plain_harness(text, "void scale(void)", "void h_scale(void)", "scale()",
                               pre_call="  __CPROVER_assume(p <= 7 && a >= -15 && a <= 15 && ALLA(ba, AI[ba] < 8));\n  vp_in_na = na; vp_in_p = p; vp_in_a = a;\n" + cap)
        spec.update(unit="K22c_spvecfp_scale_bounded", text=text, mode="bounded", flags=["--nondet-static", "--object-bits", "12"], unwind=maxlen + 2,
                    bound="operand with <= %d entries, indices < 8, p <= 7, |a| <= 15, loops unwound; the contract as assume / assert" % maxlen,
                    functions={"SpVecFP::operator*(scalar)": "bounded(len<=%d, p<=7)" % maxlen})
    else:
        spec.update(text=text, enforce="scale", split=8, flags=["--object-bits", "12"], unwind=max(maxlen + 4, 16), loop_contracts=True, mode="proof",
                    fallback=lambda: _scale_unit(3, True),
                    bound="proved(operand with <= %d entries, |a| < 2^15, 2 <= p < 2^15): all three loops closed by loop contracts" % maxlen,
                    functions={"SpVecFP::operator*(scalar)": "proved(len<=%d)" % maxlen})
    return spec

def _scale_expr_unit():
    """K22c_expr: the two facts about `(value * a) % p` that K22c takes as the precondition on its table PR - loop-free, full domain.
    (1) for 1 <= value < p < 2^15 and |a| < 2^15 the product does not overflow and lies in (-2^30, 2^30); (2) for every x in that range the
    C remainder x % p does not overflow and lies strictly between -p and p.  Stated in two steps over a fresh x: as one expression the
    64-bit multiplier feeding the divider did not finish in 300 s."""
    rel = "include/parmcb/spvecfp.hpp"
    text = r"""
typedef long P;
void h_expr(void) {
  P value, a, p, x2;
  __CPROVER_assume(p >= 2 && p < 32768 && a > -32768 && a < 32768 && value >= 1 && value < p);
  P x = value * a;
  __CPROVER_assert(x > -1073741824L && x < 1073741824L, "product of an entry and the scalar stays below 2^30");
  __CPROVER_assume(x2 > -1073741824L && x2 < 1073741824L);
  P r = x2 % p;
  __CPROVER_assert(r > -p && r < p, "C remainder lies strictly between -p and p");
  __CPROVER_assert(0, "VP_REACH end of harness");
}
"""
    return dict(unit="K22c_expr", site="K22c_expr", lang="c", source=rel + " (the expression `(value * a) % p` of SpVecFP::operator*(const P&))", entry="h_expr",
                text=text, mode="proof", timeout=600, rewrites=[], dropped=["everything but the expression, which K22c matches textually"],
                bound="proved(full domain: 1 <= value < p < 2^15, |a| < 2^15): loop-free",
                functions={"SpVecFP::operator*(scalar) / product expression": "proved(range, no overflow)"},
                assumptions=["P = long; the lemma is about the text `(value * a) % p`, which is the only initialiser of v K22c's substitution accepts"],
                trusted=["cbmc 6.11, SAT back end"])


def units(tier):
    # K22c: registered with the product expression opaque (ghost table PR) - with the expression itself in the specification the
    # obligations did not finish on the SAT back end (2400 s cap, <= 3 entries) - see DESIGN 10.16
    return [X.guarded("K22b_spvecfp_plus", _unit, 3 if tier == "thorough" else 2),
            X.guarded("K22c_spvecfp_scale", _scale_unit, 8 if tier == "thorough" else 4),
            X.guarded("K22c_expr", _scale_expr_unit)]
