"""K15: the two-counter numbering loop of ForestIndex::create_index (include/parmcb/forestindex.hpp).

Binding (container API -> assumed contract): an edge is its ordinal in boost::edges(g) order, so
the edge iterator is a counter 0..m; std::map<Edge,size_t> index and std::vector<Edge>
reverse_index are arrays keyed by ordinal; forest membership `forest.find(e) == forest.end()` is
`!F[e]` for a boolean array F.  K15a (spanning_forest: k components, exactly n-k forest edges) is
the precondition `cnt[m] == n-k` over ghost prefix counts cnt[j+1] = cnt[j] + F[j]; the prefix
counts are defined by an unwound harness loop, which is the only reason for the cap m <= MAXM.
The loop of the code itself is closed by a loop contract with a ghost edge t0 (no quantifier)."""
import re
from lib import xtract as X


def _unit(bounded, maxm):
    log = []
    text = X.src("include/parmcb/forestindex.hpp")
    fn_body = X.body_after(text, r"void create_index\(const Graph &g\)\s*", "ForestIndex::create_index")
    i = fn_body.find("size_type csd")
    if i < 0:
        from lib.core import Undecided
        raise Undecided("extraction out of date: csd declaration in create_index")
    region = fn_body[i:]
    region = X.rewrite(region, [
        (r"\bsize_type\b", "size_t", 3, "type-binding", "ForestIndex::size_type -> size_t"),
        (r"EdgeIt ei, eiend;", "size_t ei, eiend;", 1, "container-api", "edge iterator = ordinal counter"),
        (r"boost::tie\(ei, eiend\) = boost::edges\(g\)", "ei = 0, eiend = m", 1, "container-api", "boost::edges(g) = ordinals 0..m"),
        (r"auto e = \*ei;", "size_t e = ei;", 1, "container-api", "dereferencing the edge iterator yields the ordinal"),
        (r"forest\.find\(e\) (==|!=) forest\.end\(\)", r"(F[e] \1 0)", 1, "container-api", "std::set<Edge> membership -> boolean array (find(e)==end() <=> F[e]==0)"),
        (r"\bindex\[", "index_[", 2, "container-api", "std::map<Edge,size_t> -> array keyed by ordinal ('index' is a libc name)"),
    ], log)
    inv = ("__CPROVER_assigns(ei, low, high, __CPROVER_object_whole(index_), __CPROVER_object_whole(reverse_index))\n"
           "__CPROVER_loop_invariant(ei <= m && eiend == m)\n"
           "__CPROVER_loop_invariant(low == ei - cnt[ei] && high == csd + cnt[ei])\n"
           "__CPROVER_loop_invariant(t0 < ei ==> (index_[t0] == (F[t0] ? csd + cnt[t0] : t0 - cnt[t0]) && index_[t0] < m && reverse_index[index_[t0]] == t0))\n"
           "__CPROVER_decreases(m - ei)")
    if not bounded:
        region = X.splice_loop_contracts(region, {0: inv}, log)
    fn = r"""
#include <stddef.h>
#define MAXM %d
_Bool F[MAXM];                 /* forest membership by edge ordinal */
size_t cnt[MAXM + 1];          /* ghost: number of forest edges among the first j ordinals */
size_t index_[MAXM];           /* std::map<Edge,size_t> index */
size_t reverse_index[MAXM];    /* std::vector<Edge> reverse_index (resized to m) */
size_t vp_csd;
void number(size_t m, size_t n, size_t k, size_t t0)
__CPROVER_requires(m <= MAXM && t0 < m)
/* K15a: spanning_forest returned k and emitted exactly n-k edges (all of them edges of g) */
__CPROVER_requires(k <= n && cnt[0] == 0 && cnt[m] == n - k && n - k <= m)
__CPROVER_assigns(vp_csd, __CPROVER_object_whole(index_), __CPROVER_object_whole(reverse_index))
/* bijection onto 0..m-1 with inverse lookups (t0 arbitrary => injective, hence bijective) */
__CPROVER_ensures(index_[t0] < m && reverse_index[index_[t0]] == t0)
/* exactly the indices below the cycle-space dimension are off-forest */
__CPROVER_ensures(vp_csd == m - n + k && ((index_[t0] < vp_csd) == !F[t0]))
{
  %s
  vp_csd = csd;
}
size_t vp_in_m, vp_in_n, vp_in_k, vp_in_t0; _Bool vp_in_F[MAXM];
void h_number(void) {
  size_t m, n, k, t0;
  __CPROVER_assume(m <= MAXM);
  cnt[0] = 0;
  for (size_t j = 0; j < MAXM; j++) { cnt[j + 1] = cnt[j] + (F[j] ? 1 : 0); vp_in_F[j] = F[j]; }   /* definition of the ghost prefix counts */
  vp_in_m = m; vp_in_n = n; vp_in_k = k; vp_in_t0 = t0;
  number(m, n, k, t0);
  __CPROVER_assert(0, "VP_REACH end of harness");
}
""" % (maxm, region)
    name = "K15_forestindex_numbering" + ("_bounded" if bounded else "")
    spec = dict(unit=name, site="K15_forestindex_numbering", lang="c", source="include/parmcb/forestindex.hpp ForestIndex::create_index (numbering loop)",
                text=fn, entry="h_number", enforce="number", rewrites=log, timeout=600,
                dropped=["spanning_forest call (contract K15a as precondition); index.clear(); reverse_index.resize(m)"],
                assumptions=["K15a: spanning_forest returns the component count and emits exactly n-k edges of g (enforced bounded in E3)",
                             "std::map / std::vector / boost::edges iteration contracts as bound above"],
                trusted=["cbmc 6.11 + DFCC, SAT back end"])
    if bounded:
        spec.update(mode="bounded", bound="m <= %d, loop unwound" % maxm, unwind=maxm + 2,
                    functions={"ForestIndex::create_index numbering loop": "bounded(m<=%d)" % maxm})
    else:
        spec.update(mode="proof", bound="proved(m<=%d): the code's loop is closed by its loop contract; the cap comes only from defining the ghost prefix counts by an unwound harness loop" % maxm,
                    loop_contracts=True, unwind=maxm + 2, fallback=lambda: _unit(True, 5),
                    functions={"ForestIndex::create_index numbering loop": "proved(m<=%d)" % maxm})
    return spec


def units(tier):
    return [X.guarded("K15_forestindex_numbering", _unit, False, 16)]
