"""K15: the two-counter numbering loop of ForestIndex::create_index (include/parmcb/forestindex.hpp).

Binding (container API -> assumed contract): an edge is its ordinal in boost::edges(g) order, so
the edge iterator is a counter 0..m; std::map<Edge,size_t> index and std::vector<Edge>
reverse_index are arrays keyed by ordinal; forest membership `forest.find(e) == forest.end()` is
`!F[e]` for a boolean array F.  K15a (spanning_forest: k components, exactly n-k forest edges) is
the precondition `cnt[m] == n-k` over ghost prefix counts cnt[j+1] = cnt[j] + F[j]; the prefix
counts are defined by an unwound harness loop, which is the only reason for the cap m <= MAXM.
The loop of the code itself is closed by a loop contract with a ghost edge t0 (no quantifier)."""
import re
from lib import xtract as X


def _unit(bounded, maxm):
    log = []
    text = X.src("include/parmcb/forestindex.hpp")
    fn_body = X.body_after(text, r"void create_index\(const Graph &g\)\s*", "ForestIndex::create_index")
    mi = re.search(r"(?:size_type\s+)?csd\s*=", fn_body)
    if not mi:
        from lib.core import Undecided
        raise Undecided("extraction out of date: csd computation in create_index")
    region = fn_body[mi.start():]
    region = X.canon(region, [(r"\bsize_type (\w+) = 0;", ["low"]), (r"\bsize_type (\w+) = csd;", ["high"])], log)
    region = X.inline_temps(region, log)
    region = X.rewrite(region, [
        (r"^(?:size_type\s+)?csd\s*=", "size_t csd =", 1, "type-binding", "csd (local or cached member) bound to a local of the extracted function"),
        (r"\bsize_type\b", "size_t", 2, "type-binding", "ForestIndex::size_type -> size_t"),
        (r"EdgeIt ei, eiend;", "size_t ei, eiend;", 1, "container-api", "edge iterator = ordinal counter"),
        (r"boost::tie\(ei, eiend\) = boost::edges\(g\)", "ei = 0, eiend = m", 1, "container-api", "boost::edges(g) = ordinals 0..m"),
        (r"(?:const )?auto e = \*ei;", "size_t e = ei;", 1, "container-api", "dereferencing the edge iterator yields the ordinal"),
        (r"forest\.find\(e\) (==|!=) forest\.end\(\)", r"(F[e] \1 0)", 1, "container-api", "std::set<Edge> membership -> boolean array (find(e)==end() <=> F[e]==0)"),
        (r"\bindex\[", "index_[", 2, "container-api", "std::map<Edge,size_t> -> array keyed by ordinal ('index' is a libc name)"),
    ], log)
    inv = ("__CPROVER_assigns(ei, low, high, __CPROVER_object_whole(index_), __CPROVER_object_whole(reverse_index))\n"
           "__CPROVER_loop_invariant(ei <= m && eiend == m)\n"
           "__CPROVER_loop_invariant(low == ei - cnt[ei] && high == csd + cnt[ei])\n"
           "__CPROVER_loop_invariant(t0 < ei ==> (index_[t0] == (F[t0] ? csd + cnt[t0] : t0 - cnt[t0]) && index_[t0] < m && reverse_index[index_[t0]] == t0))\n"
           "__CPROVER_decreases(m - ei)")
    if not bounded:
        region = X.splice_loop_contracts(region, {0: inv}, log)
    fn = r"""
#include <stddef.h>
#define MAXM %d
_Bool F[MAXM];                 /* forest membership by edge ordinal */
size_t cnt[MAXM + 1];          /* ghost: number of forest edges among the first j ordinals */
size_t index_[MAXM];           /* std::map<Edge,size_t> index */
size_t reverse_index[MAXM];    /* std::vector<Edge> reverse_index (resized to m) */
size_t vp_csd;
void number(size_t m, size_t n, size_t k, size_t t0)
__CPROVER_requires(m <= MAXM && t0 < m)
/* K15a: spanning_forest returned k and emitted exactly n-k edges (all of them edges of g) */
__CPROVER_requires(k <= n && cnt[0] == 0 && cnt[m] == n - k && n - k <= m)
__CPROVER_assigns(vp_csd, __CPROVER_object_whole(index_), __CPROVER_object_whole(reverse_index))
/* bijection onto 0..m-1 with inverse lookups (t0 arbitrary => injective, hence bijective) */
__CPROVER_ensures(index_[t0] < m && reverse_index[index_[t0]] == t0)
/* exactly the indices below the cycle-space dimension are off-forest */
__CPROVER_ensures(vp_csd == m - n + k && ((index_[t0] < vp_csd) == !F[t0]))
{
  %s
  vp_csd = csd;
}
size_t vp_in_m, vp_in_n, vp_in_k, vp_in_t0; _Bool vp_in_F[MAXM];
void h_number(void) {
  size_t m, n, k, t0;
  __CPROVER_assume(m <= MAXM);
  cnt[0] = 0;
  for (size_t j = 0; j < MAXM; j++) { cnt[j + 1] = cnt[j] + (F[j] ? 1 : 0); vp_in_F[j] = F[j]; }   /* definition of the ghost prefix counts */
  vp_in_m = m; vp_in_n = n; vp_in_k = k; vp_in_t0 = t0;
  number(m, n, k, t0);
  __CPROVER_assert(0, "VP_REACH end of harness");
}
""" % (maxm, region)
    name = "K15_forestindex_numbering" + ("_bounded" if bounded else "")
    spec = dict(unit=name, site="K15_forestindex_numbering", lang="c", source="include/parmcb/forestindex.hpp ForestIndex::create_index (numbering loop)",
                text=fn, entry="h_number", enforce="number", rewrites=log, timeout=600,
                dropped=["spanning_forest call (contract K15a as precondition); index.clear(); reverse_index.resize(m)"],
                assumptions=["K15a: spanning_forest returns the component count and emits exactly n-k edges of g (clause P1 of unit K15a_spanning_forest; bounded in E3 as well)",
                             "std::map / std::vector / boost::edges iteration contracts as bound above"],
                trusted=["cbmc 6.11 + DFCC, SAT back end"])
    if bounded:
        spec.update(mode="bounded", bound="m <= %d, loop unwound" % maxm, unwind=maxm + 2,
                    functions={"ForestIndex::create_index numbering loop": "bounded(m<=%d)" % maxm})
    else:
        spec.update(mode="proof", bound="proved(m<=%d): the code's loop is closed by its loop contract; the cap comes only from defining the ghost prefix counts by an unwound harness loop" % maxm,
                    loop_contracts=True, unwind=maxm + 2, fallback=lambda: _unit(True, 5),
                    functions={"ForestIndex::create_index numbering loop": "proved(m<=%d)" % maxm})
    return spec


def units(tier):
    return [X.guarded("K15_forestindex_numbering", _unit, False, 16)]


# ---------------------------------------------------------------------------------------------------
# copy constructor / copy assignment: every data member of the class is copied (the member list is
# extracted from the class, so a member added later is covered automatically)
def _copy_unit(which):
    log = []
    text = X.src("include/parmcb/forestindex.hpp")
    cls = X.body_after(text, r"class ForestIndex\s*", "class ForestIndex")
    priv = cls[cls.rindex("private:"):]
    if "void create_index" not in priv:
        from lib.core import Undecided
        raise Undecided("extraction out of date: create_index not in the private section")
    priv = priv[:priv.index("void create_index")]
    members = re.findall(r"^\s*(?:size_type|std::map<Edge, size_type>|std::vector<Edge>)\s+(\w+)(?:\s*=\s*0)?;", priv, re.M)
    if len(members) < 5:
        from lib.core import Undecided
        raise Undecided("extraction out of date: data members of ForestIndex (%s)" % members)
    log.append(dict(pattern="data member declarations", fired=len(members), expected=">=5", kind="type-binding",
                    note="members: " + ", ".join(members) + " (containers bound to an opaque value identity)"))
    if which == "ctor":
        body = X.body_after(cls, r"ForestIndex\(const ForestIndex &ei\)\s*", "copy constructor")
    else:
        body = X.body_after(cls, r"ForestIndex& operator=\(const ForestIndex &ei\)\s*", "copy assignment")
    body = X.rewrite(body, [
        (r"\bthis == &ei\b", "this_ == ei", (0, 1), "type-binding", "self-assignment test"),
        (r"return \*this;", "return;", (0, 2), "type-binding", "reference return"),
        (r"\b(\w+) = ei\.(\w+);", r"this_->\1 = ei->\2;", (3, 12), "type-binding", "member access through this / ei"),
    ], log)
    fields = "".join("  unsigned long %s;\n" % m for m in members)
    ens = "\n".join("__CPROVER_ensures(this_->%s == __CPROVER_old(ei->%s))" % (m, m) for m in members)
    fn = """
typedef struct {
%s} FI;
void copy_op(FI *this_, const FI *ei)
__CPROVER_requires(__CPROVER_w_ok(this_, sizeof(FI)) && __CPROVER_r_ok(ei, sizeof(FI)))
__CPROVER_assigns(*this_)
/* the copy answers every query like the source: every data member is copied */
%s
{%s}
void h_copy(void) {
  FI a, b; FI *t = &a; const FI *s = &b; _Bool alias; if (alias) s = &a;
  copy_op(t, s);
  __CPROVER_assert(0, "VP_REACH end");
}
""" % (fields, ens, body)
    return dict(unit="K15_forestindex_copy_" + which, lang="c", source="include/parmcb/forestindex.hpp ForestIndex copy " + which,
                text=fn, entry="h_copy", enforce="copy_op", mode="proof", timeout=600, rewrites=log,
                bound="all member values, incl. self-assignment", dropped=["class wrapper"],
                functions={"ForestIndex copy %s" % which: "proved (member-wise)"},
                assumptions=["std::map / std::vector copy assignment copy the value (containers bound to an opaque identity)"],
                trusted=["cbmc 6.11 + DFCC"])


_units0 = units


def units(tier):
    return _units0(tier) + [X.guarded("K15_forestindex_copy_ctor", _copy_unit, "ctor"),
                            X.guarded("K15_forestindex_copy_assign", _copy_unit, "assign")]
