"""K12a: SPTree::initialize (include/parmcb/sptrees.hpp) - the two loops that turn the predecessor map delivered by
lex_dijkstra into tree nodes and child lists - as an E1 unit with loop contracts (invariants quantified over the bounded
vertex range).  The SPNode constructors are bound MECHANICALLY: their member-initialiser lists are extracted from the
class and turned into assignments to per-node arrays, so a change of what a constructor stores is a change of the
verified text.

Binding: a std::shared_ptr<SPNode> in _tree_node_map[i] is the flag HASNODE[i] plus the node's members in arrays
(N_vertex, N_weight, N_pred, N_has_pred, N_parity); child lists are CH[u][0..CHN[u]) ; boost::opposite(e, v, g) reads the
endpoint tables; dist / pred are DIST / PREDF / PREDE.  lex_dijkstra enters through the part of its contract this code
relies on (precondition): the source has no predecessor flag; a predecessor edge of v is incident to v and its other
endpoint is the source or has a predecessor flag itself.

Contract: a vertex has a node IFF it is the source or has a predecessor; the node stores its vertex, its distance
(0 for the source), its predecessor edge and has_pred accordingly; _root is the source's node; after linking, every
non-source node is listed exactly once, in the child list of the other endpoint of its predecessor edge, and child lists
contain nothing else; no null pointer is dereferenced."""
import re
from lib import xtract as X
from lib.core import Undecided
from units.k17b_bfs import _fresh

MEMBERS = ["_vertex", "_parity", "_weight", "_pred", "_has_pred"]


def _ctor(text, sig_regex, name, params, log):
    m = X._unique(text, sig_regex, "SPNode constructor " + name)
    i = m.end()
    j = text.index("{", i)
    inits = re.findall(r"(_\w+)\(([^()]*(?:\([^()]*\))?[^()]*)\)", text[i:j])
    got = [a for a, _ in inits]
    if sorted(got) != sorted(MEMBERS):
        raise Undecided("extraction out of date: member initialisers of %s are %s" % (name, got))
    body = ""
    for mem, expr in inits:
        expr = expr.strip()
        if expr == "":
            expr = "0"              # value-initialisation of a descriptor / scalar
        expr = re.sub(r"WeightType\(\)", "((W) 0)", expr)
        body += "  N%s[id] = %s;\n" % (mem, expr)
    log.append(dict(pattern=sig_regex, replacement="member-initialiser list -> assignments to the node arrays", fired=len(inits), expected=5,
                    kind="type-binding", note="constructor %s: %s" % (name, "; ".join("%s(%s)" % x for x in inits))))
    return "static void %s(size_t id, %s) {\n%s}\n" % (name, params, body)


def _unit(maxn, bounded=False):
    log = []
    rel = "include/parmcb/sptrees.hpp"
    text = X.src(rel)
    c2 = _ctor(text, r"SPNode\(Vertex vertex, WeightType weight\)\s*:", "spnode2", "size_t vertex, W weight", log)
    c3 = _ctor(text, r"SPNode\(Vertex vertex, WeightType weight, const Edge &pred\)\s*:", "spnode3", "size_t vertex, W weight, size_t pred", log)
    body = X.body_after(text, r"void initialize\(\)\s*", "SPTree::initialize")
    i = body.find("// create tree nodes and mapping")
    if i < 0:
        i = body.find("VertexIt vi, viend;")
    j = body.find("compute_first_in_path();")
    if i < 0 or j < 0:
        raise Undecided("extraction out of date: node creation / linking part of SPTree::initialize")
    log.append(dict(pattern="initialize(): text before the node loop and the final call", replacement="", fired=1, expected=1, kind="drop",
                    note="dist / pred vectors and maps, the lex_dijkstra call (its contract is the precondition), compute_first_in_path() (own unit)"))
    body = body[i:j]
    body = X.drop_local_const(body, log)
    body = X.canon(body, [(r"VertexIt (\w+), (\w+);", ["vi", "viend"])], log)
    body = X.rewrite(body, [
        (r"VertexIt vi, viend;", "size_t vi, viend;", 1, "container-api", ""),
        (r"boost::tie\(vi, viend\) = boost::vertices\(_g\)", "vi = 0, viend = vp_n", 2, "container-api", "vertex range = ordinals"),
        (r"auto v = \*vi;", "size_t v = vi;", 2, "container-api", ""),
        (r"auto (\w+) = _index_map\[(\w+)\];", r"size_t \1 = \2;", 3, "container-api", "index map = identity"),
        (r"auto p = boost::get\(pred_map, v\);", "", 2, "container-api", "the tuple p is read through PREDF / PREDE"),
        (r"std::get<0>\(p\)", "PREDF[v]", (2, 3), "container-api", ""),
        (r"(?:Edge|auto) e = std::get<1>\(p\);", "size_t e = PREDE[v];", 2, "container-api", ""),
        (r"v == _source", "v == vp_source", 1, "type-binding", ""),
        (r"_tree_node_map\[vindex\] = std::shared_ptr<SPNode<Graph, WeightMap>>\(\s*new SPNode<Graph, WeightMap>\(v, dist\[vindex\]\)\);",
         "HASNODE[vindex] = 1; spnode2(vindex, v, DIST[vindex]);", 1, "container-api", "make a node with the two-argument constructor"),
        (r"_tree_node_map\[vindex\] = std::shared_ptr<SPNode<Graph, WeightMap>>\(\s*new SPNode<Graph, WeightMap>\(v, dist\[vindex\], e\)\);",
         "HASNODE[vindex] = 1; spnode3(vindex, v, DIST[vindex], e);", 1, "container-api", "make a node with the three-argument constructor"),
        (r"_root = _tree_node_map\[vindex\];", "vp_root = vindex;", 1, "container-api", ""),
        (r"auto u = boost::opposite\(e, v, _g\);", "size_t u = OPP(e, v);", 1, "container-api", ""),
        (r"_tree_node_map\[uindex\]->add_child\(_tree_node_map\[vindex\]\);",
         "__CPROVER_assert(HASNODE[uindex] && HASNODE[vindex], \"K12a.null: add_child through / of a non-null node pointer\"); CH[uindex][CHN[uindex]] = vindex; POSCH[vindex] = CHN[uindex]; CHN[uindex]++;",
         1, "ghost", "push_back on the parent's child list + ghost position + null check"),
    ], log)
    node_ok = ("(HASNODE[qv] ==> (N_vertex[qv] == qv && N_weight[qv] == (qv == vp_source ? (W) 0 : DIST[qv]) && !N_parity[qv]"
               " && (!N_has_pred[qv] == (qv == vp_source)) && (qv != vp_source ==> N_pred[qv] == PREDE[qv])))")
    inv1 = ("__CPROVER_assigns(vi, vp_root, __CPROVER_object_whole(HASNODE), __CPROVER_object_whole(N_vertex), __CPROVER_object_whole(N_parity), __CPROVER_object_whole(N_weight), __CPROVER_object_whole(N_pred), __CPROVER_object_whole(N_has_pred))\n"
            "__CPROVER_loop_invariant(vi <= vp_n && viend == vp_n && (vp_source < vi ==> vp_root == vp_source) && ALLV(qv, (qv < vi ==> ((!HASNODE[qv] == !(qv == vp_source || PREDF[qv])) && %s)) && (qv >= vi ==> !HASNODE[qv])))\n"
            "__CPROVER_decreases(vp_n - vi)" % node_ok)
    child_ok = "((qk < CHN[qu] && CHN[qu] <= MAXN) ==> (CH[qu][qk] < vp_n && PREDF[CH[qu][qk]] && PAR(CH[qu][qk]) == qu && POSCH[CH[qu][qk]] == qk && CH[qu][qk] < vi))"
    inv2 = ("__CPROVER_assigns(vi, __CPROVER_object_whole(CH), __CPROVER_object_whole(CHN), __CPROVER_object_whole(POSCH))\n"
            "__CPROVER_loop_invariant(vi <= vp_n && viend == vp_n"
            " && ALLV(qv, (qv < vi && PREDF[qv]) ==> (POSCH[qv] < CHN[PAR(qv)] && CHN[PAR(qv)] <= MAXN && CH[PAR(qv)][POSCH[qv]] == qv))"
            " && ALLV(qu, CHN[qu] <= vi && CHN[qu] == CNTCH(qu) && ALLK(qk, %s)))\n"
            "__CPROVER_decreases(vp_n - vi)" % child_ok)
    if not bounded:
        body = X.splice_loop_contracts(body, {0: inv1, 1: inv2}, log)
    cntch = "(" + " + ".join("((%d < vi && PREDF[%d] && PAR(%d) == u) ? 1 : 0)" % (i, i, i) for i in range(maxn)) + ")"
    pre = r"""
#include <stddef.h>
typedef _Bool bool;
#define true 1
#define false 0
#define MAXN %(MAXN)d
#define MAXM (2 * MAXN)
typedef long W;
size_t vp_n, vp_m, vp_source, vp_root;
size_t SRC[MAXM], TGT[MAXM];
#define OPP(e, v) (SRC[e] == (v) ? TGT[e] : SRC[e])
#define PAR(v) OPP(PREDE[v], v)
W DIST[MAXN]; bool PREDF[MAXN]; size_t PREDE[MAXN];
bool HASNODE[MAXN]; size_t N_vertex[MAXN]; bool N_parity[MAXN]; W N_weight[MAXN]; size_t N_pred[MAXN]; bool N_has_pred[MAXN];
size_t CH[MAXN][MAXN], CHN[MAXN], POSCH[MAXN];
#define ALLV(v, body) __CPROVER_forall { size_t v; (v < MAXN) ==> ((v < vp_n) ==> (body)) }
#define ALLK(k, body) __CPROVER_forall { size_t k; (k < MAXN) ==> (body) }
#define CNTCH(u) %(CNTCH)s
""" % dict(MAXN=maxn, CNTCH=cntch)
    fn = c2 + c3 + r"""
void initialize(void)
__CPROVER_requires(vp_n >= 1 && vp_n <= MAXN && vp_m <= MAXM && vp_source < vp_n)
/* what lex_dijkstra delivers: no predecessor for the source; a predecessor edge is incident to its vertex and leads to a visited vertex */
__CPROVER_requires(!PREDF[vp_source])
__CPROVER_requires(ALLV(ra, PREDF[ra] ==> (PREDE[ra] < vp_m && (SRC[PREDE[ra]] == ra || TGT[PREDE[ra]] == ra) && SRC[PREDE[ra]] < vp_n && TGT[PREDE[ra]] < vp_n && PAR(ra) != ra
                                          && (PAR(ra) == vp_source || PREDF[PAR(ra)]))))
/* freshly constructed tree: no node, empty child lists */
__CPROVER_requires(ALLV(rb, !HASNODE[rb] && CHN[rb] == 0))
__CPROVER_assigns(vp_root, __CPROVER_object_whole(HASNODE), __CPROVER_object_whole(N_vertex), __CPROVER_object_whole(N_parity), __CPROVER_object_whole(N_weight),
                  __CPROVER_object_whole(N_pred), __CPROVER_object_whole(N_has_pred), __CPROVER_object_whole(CH), __CPROVER_object_whole(CHN), __CPROVER_object_whole(POSCH))
/* nodes */
__CPROVER_ensures(vp_root == vp_source)
__CPROVER_ensures(ALLV(pa, (!HASNODE[pa] == !(pa == vp_source || PREDF[pa])) && %(NODE)s))
/* child lists: every non-source node exactly once under the other endpoint of its predecessor edge, nothing else */
__CPROVER_ensures(ALLV(pb, PREDF[pb] ==> (POSCH[pb] < CHN[PAR(pb)] && CHN[PAR(pb)] <= MAXN && CH[PAR(pb)][POSCH[pb]] == pb)))
__CPROVER_ensures(ALLV(pc, ALLK(pk, (pk < CHN[pc] && CHN[pc] <= MAXN) ==> (CH[pc][pk] < vp_n && PREDF[CH[pc][pk]] && PAR(CH[pc][pk]) == pc && POSCH[CH[pc][pk]] == pk))))
{
  size_t vi;        /* one variable for both loops, as in the source */
  %(BODY)s
}
size_t vp_in_n, vp_in_source;
void h_init(void) {
  vp_in_n = vp_n; vp_in_source = vp_source;
  initialize();
  __CPROVER_assert(0, "VP_REACH end of harness");
}
""" % dict(NODE=node_ok.replace("qv", "pa"), BODY=body.replace("size_t vi, viend;", "size_t viend;"))
    if bounded:
        full = pre + _fresh(fn)
        a = full.index("void initialize(void)")
        b = full.index("{", full.index("__CPROVER_ensures(ALLV(pc", a))
        clauses = full[a + len("void initialize(void)"):b]
        def grab(kind):
            out, i = [], 0
            while True:
                i = clauses.find("__CPROVER_%s(" % kind, i)
                if i < 0:
                    return out
                j = i + len("__CPROVER_%s(" % kind); d = 1; e = j
                while d:
                    d += clauses[e] == "("; d -= clauses[e] == ")"; e += 1
                out.append(clauses[j:e - 1]); i = e
        req, ens = grab("requires"), grab("ensures")
        harness = "void h_init(void) {\n" + "".join("  __CPROVER_assume(%s);\n" % r for r in req) + "  vp_in_n = vp_n; vp_in_source = vp_source;\n  initialize();\n" + \
                  "".join('  __CPROVER_assert(%s, "K12a.post.%d");\n' % (e, k + 1) for k, e in enumerate(ens)) + '  __CPROVER_assert(0, "VP_REACH end of harness");\n}\n'
        txt = full[:a] + "void initialize(void)\n" + full[b:full.index("void h_init(void)")] + harness
        return dict(unit="K12a_sptree_initialize_bounded", site="K12a_sptree_initialize", lang="c", source=rel, text=txt, entry="h_init", rewrites=log, timeout=900,
                    unwind=maxn + 2, mode="bounded", flags=["--nondet-static"], bound="n <= %d, loops unwound; the contract as assume/assert in the harness" % maxn,
                    functions={"SPTree::initialize (nodes + child lists)": "bounded(n<=%d)" % maxn}, trusted=["cbmc 6.11 SAT back end"])
    return dict(unit="K12a_sptree_initialize", site="K12a_sptree_initialize", lang="c", source=rel + " (SPTree::initialize: node creation and linking; SPNode constructors)",
                text=pre + _fresh(fn), entry="h_init", enforce="initialize", rewrites=log, timeout=1800, split=8, flags=["--object-bits", "12"], unwind=24,
                loop_contracts=True, mode="proof", fallback=lambda: _unit(3, True),
                bound="proved(n<=%d): both loops closed by loop contracts with invariants quantified over the vertex range" % maxn,
                dropped=["template headers; shared_ptr reference counting (a non-null pointer is a flag)"],
                functions={"SPTree::initialize (nodes + child lists)": "proved(n<=%d)" % maxn, "SPNode constructors": "bound mechanically (initialiser lists)"},
                assumptions=["contract of lex_dijkstra as far as this code relies on it (precondition; enforced bounded by e3_components[C12])",
                             "std::vector / shared_ptr bound to arrays and flags"],
                trusted=["cbmc 6.11 + DFCC, SAT back end (bounded quantifier instantiation)"])


def units(tier):
    return [X.guarded("K12a_sptree_initialize", _unit, 6 if tier == "thorough" else 4)]
