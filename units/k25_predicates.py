"""K25 (part): has_loops and has_non_positive_weights (include/parmcb/util.hpp) as E1 units.
Binding (container API -> assumed contract of Boost.Graph iteration): boost::edges(g) is the range of
edge ordinals 0..m, source/target/weight are arrays indexed by ordinal.  One declared ghost rewrite:
`return true;` records the current edge as witness.  Loop contracts with a ghost edge g0 =>
unbounded in m."""
from lib import xtract as X

COMMON_RULES = [
    (r"auto eRange = boost::edges\(g\);", "struct { size_t first, second; } eRange = { 0, m };", 1, "container-api", "boost::edges(g) = ordinals 0..m"),
    (r"auto eit = eRange\.first", "size_t eit = eRange.first", 1, "type-binding", "edge iterator = ordinal"),
    (r"auto e = \*eit;", "size_t e = eit;", 1, "container-api", "dereference = ordinal"),
    (r"return true;", "{ vp_witness = e; return 1; }", 1, "ghost", "ghost: remember the witnessing edge at the early return"),
    (r"return false;", "return 0;", 1, "type-binding", "bool literal"),
]


def _loops_unit(bounded=False):
    log = []
    text = X.src("include/parmcb/util.hpp")
    body = X.body_after(text, r"bool has_loops\(const Graph &g\)\s*", "has_loops")
    body = X.rewrite(body, COMMON_RULES + [
        (r"auto v = boost::source\(e, g\);", "size_t v = SRC[e];", 1, "container-api", "boost::source"),
        (r"auto u = boost::target\(e, g\);", "size_t u = TGT[e];", 1, "container-api", "boost::target"),
    ], log)
    inv = ("__CPROVER_assigns(eit, vp_witness)\n"
           "__CPROVER_loop_invariant(eit <= m && eRange.second == m)\n"
           "__CPROVER_loop_invariant(g0 < eit ==> SRC[g0] != TGT[g0])\n"
           "__CPROVER_decreases(m - eit)")
    if not bounded:
        body = X.splice_loop_contracts(body, {0: inv}, log)
    fn = r"""
#include <stddef.h>
size_t vp_witness;
_Bool has_loops(const size_t *SRC, const size_t *TGT, size_t m, size_t g0)
__CPROVER_requires(m <= MAXM && __CPROVER_is_fresh(SRC, (m + 1) * sizeof(size_t)) && __CPROVER_is_fresh(TGT, (m + 1) * sizeof(size_t)))
__CPROVER_assigns(vp_witness)
/* false => no edge is a self-loop (g0 arbitrary) ; true => the recorded edge is one */
__CPROVER_ensures(!__CPROVER_return_value ==> (g0 < m ==> SRC[g0] != TGT[g0]))
__CPROVER_ensures(__CPROVER_return_value ==> (vp_witness < m && SRC[vp_witness] == TGT[vp_witness]))
{%s}
void h_loops(void) { const size_t *S, *T; size_t m, g0; _Bool r = has_loops(S, T, m, g0); (void) r; __CPROVER_assert(0, "VP_REACH end"); }
""" % body
    fn = ("#define MAXM %s\n" % ("4" if bounded else "1000000")) + fn
    spec = dict(unit="K25_has_loops" + ("_bounded" if bounded else ""), site="K25_has_loops", lang="c", source="include/parmcb/util.hpp has_loops", text=fn, entry="h_loops", enforce="has_loops",
                rewrites=log, timeout=300, dropped=["template header"],
                assumptions=["Boost.Graph: edges(g) enumerates every edge exactly once; source/target are total on it"],
                trusted=["cbmc 6.11 + DFCC"])
    if bounded:
        spec.update(mode="bounded", bound="m <= 4, unwound", unwind=6, functions={"has_loops": "bounded(m<=4)"})
    else:
        spec.update(loop_contracts=True, mode="proof", bound="unbounded in the number of edges (m <= 10^6 object-size cap)",
                    functions={"has_loops": "proved"}, fallback=lambda: _loops_unit(True))
    return spec


def _nonpos_unit(bounded=False):
    log = []
    text = X.src("include/parmcb/util.hpp")
    body = X.body_after(text, r"bool has_non_positive_weights\(const Graph &g, const WeightMap &weight_map\)\s*", "has_non_positive_weights")
    body = X.rewrite(body, COMMON_RULES + [
        (r"boost::get\(weight_map, e\)", "W[e]", 1, "container-api", "property map lookup"),
    ], log)
    inv = ("__CPROVER_assigns(eit, vp_witness)\n"
           "__CPROVER_loop_invariant(eit <= m && eRange.second == m)\n"
           "__CPROVER_loop_invariant(g0 < eit ==> W[g0] > 0.0)\n"
           "__CPROVER_decreases(m - eit)")
    if not bounded:
        body = X.splice_loop_contracts(body, {0: inv}, log)
    fn = r"""
#include <stddef.h>
size_t vp_witness;
_Bool has_nonpos(const double *W, size_t m, size_t g0)
__CPROVER_requires(m <= MAXM && __CPROVER_is_fresh(W, (m + 1) * sizeof(double)))
__CPROVER_requires(g0 < m ==> W[g0] == W[g0])       /* weights are not NaN */
__CPROVER_assigns(vp_witness)
__CPROVER_ensures(!__CPROVER_return_value ==> (g0 < m ==> W[g0] > 0.0))
__CPROVER_ensures(__CPROVER_return_value ==> (vp_witness < m && W[vp_witness] <= 0.0))
{%s}
void h_nonpos(void) { const double *W; size_t m, g0; _Bool r = has_nonpos(W, m, g0); (void) r; __CPROVER_assert(0, "VP_REACH end"); }
""" % body
    fn = ("#define MAXM %s\n" % ("4" if bounded else "1000000")) + fn
    spec = dict(unit="K25_has_non_positive_weights" + ("_bounded" if bounded else ""), site="K25_has_non_positive_weights", lang="c",
                source="include/parmcb/util.hpp has_non_positive_weights", text=fn, entry="h_nonpos", enforce="has_nonpos",
                rewrites=log, timeout=300, dropped=["template header"],
                assumptions=["Boost.Graph iteration contract; weights are not NaN"], trusted=["cbmc 6.11 + DFCC"])
    if bounded:
        spec.update(mode="bounded", bound="m <= 4, unwound", unwind=6, functions={"has_non_positive_weights": "bounded(m<=4)"})
    else:
        spec.update(loop_contracts=True, mode="proof", bound="unbounded in the number of edges (m <= 10^6 object-size cap)",
                    functions={"has_non_positive_weights": "proved"}, fallback=lambda: _nonpos_unit(True))
    return spec


def units(tier):
    return [X.guarded("K25_has_loops", _loops_unit), X.guarded("K25_has_non_positive_weights", _nonpos_unit)]
