"""K25 (part): has_loops and has_non_positive_weights (include/parmcb/util.hpp) as E1 units.
Binding (container API -> assumed contract of Boost.Graph iteration): boost::edges(g) is the range of
edge ordinals 0..m, source/target/weight are arrays indexed by ordinal.  One declared ghost rewrite:
`return true;` records the current edge as witness.  Loop contracts with a ghost edge g0 =>
unbounded in m."""
from lib import xtract as X

COMMON_RULES = [
    (r"auto eRange = boost::edges\(g\);", "struct { size_t first, second; } eRange = { 0, m };", 1, "container-api", "boost::edges(g) = ordinals 0..m"),
    (r"auto eit = eRange\.first", "size_t eit = eRange.first", 1, "type-binding", "edge iterator = ordinal"),
    (r"auto e = \*eit;", "size_t e = eit;", 1, "container-api", "dereference = ordinal"),
    (r"return true;", "{ vp_witness = e; return 1; }", 1, "ghost", "ghost: remember the witnessing edge at the early return"),
    (r"return false;", "return 0;", 1, "type-binding", "bool literal"),
]


def _loops_unit(bounded=False):
    log = []
    text = X.src("include/parmcb/util.hpp")
    body = X.body_after(text, r"bool has_loops\(const Graph &g\)\s*", "has_loops")
    body = X.rewrite(body, COMMON_RULES + [
        (r"auto v = boost::source\(e, g\);", "size_t v = SRC[e];", 1, "container-api", "boost::source"),
        (r"auto u = boost::target\(e, g\);", "size_t u = TGT[e];", 1, "container-api", "boost::target"),
    ], log)
    inv = ("__CPROVER_assigns(eit, vp_witness)\n"
           "__CPROVER_loop_invariant(eit <= m && eRange.second == m)\n"
           "__CPROVER_loop_invariant(g0 < eit ==> SRC[g0] != TGT[g0])\n"
           "__CPROVER_decreases(m - eit)")
    if not bounded:
        body = X.splice_loop_contracts(body, {0: inv}, log)
    fn = r"""
#include <stddef.h>
size_t vp_witness;
_Bool has_loops(const size_t *SRC, const size_t *TGT, size_t m, size_t g0)
__CPROVER_requires(m <= MAXM && __CPROVER_is_fresh(SRC, (m + 1) * sizeof(size_t)) && __CPROVER_is_fresh(TGT, (m + 1) * sizeof(size_t)))
__CPROVER_assigns(vp_witness)
/* false => no edge is a self-loop (g0 arbitrary) ; true => the recorded edge is one */
__CPROVER_ensures(!__CPROVER_return_value ==> (g0 < m ==> SRC[g0] != TGT[g0]))
__CPROVER_ensures(__CPROVER_return_value ==> (vp_witness < m && SRC[vp_witness] == TGT[vp_witness]))
{%s}
void h_loops(void) { const size_t *S, *T; size_t m, g0; _Bool r = has_loops(S, T, m, g0); (void) r; __CPROVER_assert(0, "VP_REACH end"); }
""" % body
    fn = ("#define MAXM %s\n" % ("4" if bounded else "1000000")) + fn
    spec = dict(unit="K25_has_loops" + ("_bounded" if bounded else ""), site="K25_has_loops", lang="c", source="include/parmcb/util.hpp has_loops", text=fn, entry="h_loops", enforce="has_loops",
                rewrites=log, timeout=300, dropped=["template header"],
                assumptions=["Boost.Graph: edges(g) enumerates every edge exactly once; source/target are total on it"],
                trusted=["cbmc 6.11 + DFCC"])
    if bounded:
        spec.update(mode="bounded", bound="m <= 4, unwound", unwind=6, functions={"has_loops": "bounded(m<=4)"})
    else:
        spec.update(loop_contracts=True, mode="proof", bound="unbounded in the number of edges (m <= 10^6 object-size cap)",
                    functions={"has_loops": "proved"}, fallback=lambda: _loops_unit(True))
    return spec


def _nonpos_unit(bounded=False):
    log = []
    text = X.src("include/parmcb/util.hpp")
    body = X.body_after(text, r"bool has_non_positive_weights\(const Graph &g, const WeightMap &weight_map\)\s*", "has_non_positive_weights")
    body = X.rewrite(body, COMMON_RULES + [
        (r"boost::get\(weight_map, e\)", "W[e]", 1, "container-api", "property map lookup"),
    ], log)
    inv = ("__CPROVER_assigns(eit, vp_witness)\n"
           "__CPROVER_loop_invariant(eit <= m && eRange.second == m)\n"
           "__CPROVER_loop_invariant(g0 < eit ==> W[g0] > 0.0)\n"
           "__CPROVER_decreases(m - eit)")
    if not bounded:
        body = X.splice_loop_contracts(body, {0: inv}, log)
    fn = r"""
#include <stddef.h>
size_t vp_witness;
_Bool has_nonpos(const double *W, size_t m, size_t g0)
__CPROVER_requires(m <= MAXM && __CPROVER_is_fresh(W, (m + 1) * sizeof(double)))
__CPROVER_requires(g0 < m ==> W[g0] == W[g0])       /* weights are not NaN */
__CPROVER_assigns(vp_witness)
__CPROVER_ensures(!__CPROVER_return_value ==> (g0 < m ==> W[g0] > 0.0))
__CPROVER_ensures(__CPROVER_return_value ==> (vp_witness < m && W[vp_witness] <= 0.0))
{%s}
void h_nonpos(void) { const double *W; size_t m, g0; _Bool r = has_nonpos(W, m, g0); (void) r; __CPROVER_assert(0, "VP_REACH end"); }
""" % body
    fn = ("#define MAXM %s\n" % ("4" if bounded else "1000000")) + fn
    spec = dict(unit="K25_has_non_positive_weights" + ("_bounded" if bounded else ""), site="K25_has_non_positive_weights", lang="c",
                source="include/parmcb/util.hpp has_non_positive_weights", text=fn, entry="h_nonpos", enforce="has_nonpos",
                rewrites=log, timeout=300, dropped=["template header"],
                assumptions=["Boost.Graph iteration contract; weights are not NaN"], trusted=["cbmc 6.11 + DFCC"])
    if bounded:
        spec.update(mode="bounded", bound="m <= 4, unwound", unwind=6, functions={"has_non_positive_weights": "bounded(m<=4)"})
    else:
        spec.update(loop_contracts=True, mode="proof", bound="unbounded in the number of edges (m <= 10^6 object-size cap)",
                    functions={"has_non_positive_weights": "proved"}, fallback=lambda: _nonpos_unit(True))
    return spec


def _multi_unit(maxn=5, bounded=False):
    """has_multiple_edges: true iff some vertex lists the same opposite endpoint at two different out-edge slots.  Loop contracts
    with invariants quantified over the bounded vertex / slot range; std::set<Vertex> neighbors is a boolean table reset per vertex."""
    from units.k17b_bfs import _fresh
    log = []
    text = X.src("include/parmcb/util.hpp")
    body = X.body_after(text, r"bool has_multiple_edges\(const Graph &g\)\s*", "has_multiple_edges")
    body = X.canon(body, [(r"auto (\w+) = boost::vertices\(g\);", ["vRange"]), (r"for \(auto (\w+) = vRange\.first;", ["vit"]), (r"auto (\w+) = \*vit;", ["v"]),
                          (r"std::set<Vertex> (\w+);", ["neighbors"]), (r"auto (\w+) = boost::out_edges\(v, g\);", ["eRange"]),
                          (r"for \(auto (\w+) = eRange\.first;", ["eit"]), (r"auto (\w+) = boost::opposite\(e, v, g\);", ["u"])], log)
    body = X.rewrite(body, [
        (r"typedef typename [^;]*;", "", (0, 2), "drop", "typedefs"),
        (r"auto vRange = boost::vertices\(g\);", "", 1, "container-api", "vertex range = ordinals 0..n"),
        (r"for \(auto vit = vRange\.first; vit != vRange\.second; vit\+\+\)", "for (size_t vit = 0; vit != vp_n; vit++)", 1, "container-api", ""),
        (r"auto v = \*vit;", "size_t v = vit;", 1, "container-api", ""),
        (r"std::set<Vertex> neighbors;", "nb_clear();", 1, "container-api", "std::set<Vertex> -> boolean table, empty"),
        (r"auto eRange = boost::out_edges\(v, g\);", "size_t eRange_second = DEG[v];", 1, "container-api", "out_edges(v,g) = slots 0..DEG[v]"),
        (r"for \(auto eit = eRange\.first; eit != eRange\.second; eit\+\+\)", "for (size_t eit = 0; eit != eRange_second; eit++)", 1, "container-api", ""),
        (r"auto e = \*eit;", "", 1, "container-api", "the edge descriptor is only used to find the opposite endpoint"),
        (r"auto u = boost::opposite\(e, v, g\);", "size_t u = ADJ[v][eit];", 1, "container-api", "opposite endpoint of the out-edge at this slot"),
        (r"!neighbors\.insert\(u\)\.second", "vp_insert(neighbors, u)", 1, "container-api", "insert reports an element that was already there"),
        (r"return true;", "{ vp_wv = v; vp_wj = eit; return 1; }", 1, "ghost", "ghost: witness vertex and slot"),
        (r"return false;", "return 0;", 1, "type-binding", ""),
    ], log)
    nodup_v = "ALLJ(qa, ALLJ2(qb, (qa < qb && qb < DEG[qv]) ==> ADJ[qv][qa] != ADJ[qv][qb]))"
    inv_outer = ("__CPROVER_assigns(vit, vp_wv, vp_wj, __CPROVER_object_whole(neighbors))\n"
                 "__CPROVER_loop_invariant(vit <= vp_n && ALLV(qv, qv < vit ==> %s))\n__CPROVER_decreases(vp_n - vit)" % nodup_v)
    inv_fill = ("__CPROVER_assigns(z_, __CPROVER_object_whole(neighbors))\n__CPROVER_loop_invariant(z_ <= MAXN && ALLX(qx, qx < z_ ==> !neighbors[qx]))\n__CPROVER_decreases(MAXN - z_)")
    inv_inner = ("__CPROVER_assigns(eit, vp_wv, vp_wj, __CPROVER_object_whole(neighbors))\n"
                 "__CPROVER_loop_invariant(eit <= eRange_second && eRange_second == DEG[v] && v < vp_n"
                 " && ALLX(qx, (!neighbors[qx]) == !SEEN(v, eit, qx))"
                 " && ALLJ(qa, ALLJ2(qb, (qa < qb && qb < eit) ==> ADJ[v][qa] != ADJ[v][qb])))\n"
                 "__CPROVER_decreases(eRange_second - eit)")
    if not bounded:
        body = X.splice_loop_contracts(body, {0: inv_outer, 1: inv_inner}, log)
    fn = r"""
#include <stddef.h>
typedef _Bool bool;
#define MAXN %(MAXN)d
#define MAXD (MAXN + 1)
size_t vp_n, DEG[MAXN], ADJ[MAXN][MAXD], vp_wv, vp_wj;
#define ALLV(v, body) __CPROVER_forall { size_t v; (v < MAXN) ==> ((v < vp_n) ==> (body)) }
#define ALLJ(j, body) __CPROVER_forall { size_t j; (j < MAXD) ==> (body) }
#define ALLJ2(j, body) __CPROVER_forall { size_t j; (j < MAXD) ==> (body) }
#define ALLX(x, body) __CPROVER_forall { size_t x; (x < MAXN) ==> (body) }
#define SEEN(v, lim, x) (%(SEEN)s)      /* x occurs at a slot below lim of v's list */
bool neighbors[MAXN];                /* std::set<Vertex> neighbors (a fresh, empty set per vertex) */
void nb_clear(void)
__CPROVER_assigns(__CPROVER_object_whole(neighbors))
__CPROVER_ensures(__CPROVER_forall { size_t cz; (cz < MAXN) ==> !neighbors[cz] })
;
static bool vp_insert(bool *s, size_t u) { bool there = s[u]; s[u] = 1; return there; }      /* !insert(u).second */
bool has_multiple_edges(void)
__CPROVER_requires(vp_n <= MAXN && ALLV(ra, DEG[ra] <= MAXD && ALLJ(rj, rj < DEG[ra] ==> ADJ[ra][rj] < vp_n)))
__CPROVER_assigns(vp_wv, vp_wj, __CPROVER_object_whole(neighbors))
/* false => no vertex lists an endpoint twice; true => the witness slot repeats an earlier slot of the same vertex */
__CPROVER_ensures(!__CPROVER_return_value ==> ALLV(pa, ALLJ(pb, ALLJ2(pc, (pb < pc && pc < DEG[pa]) ==> ADJ[pa][pb] != ADJ[pa][pc]))))
__CPROVER_ensures(__CPROVER_return_value ==> (vp_wv < vp_n && vp_wj < DEG[vp_wv] && SEEN(vp_wv, vp_wj, ADJ[vp_wv][vp_wj])))
{%(BODY)s}
size_t vp_in_n;
void h_multi(void) {
  vp_in_n = vp_n;
  bool r = has_multiple_edges();
  __CPROVER_assert(0, "VP_REACH end of harness");
}
""" % dict(MAXN=maxn, BODY=body, SEEN=" || ".join("(%d < (lim) && ADJ[v][%d] == (x))" % (j, j) for j in range(maxn + 1)))
    if bounded:
        txt = _fresh(fn).replace("void nb_clear(void)\n__CPROVER_assigns(__CPROVER_object_whole(neighbors))\n__CPROVER_ensures(__CPROVER_forall { size_t cz; (cz < MAXN) ==> !neighbors[cz] })\n;",
                                 "void nb_clear(void) { for (size_t cz = 0; cz < MAXN; cz++) neighbors[cz] = 0; }")
        txt = X.plain_harness(txt, "bool has_multiple_edges(void)", "void h_multi(void)", "has_multiple_edges()", ret=("bool", "r"), pre_call="  vp_in_n = vp_n;\n")
        return dict(unit="K25_has_multiple_edges_bounded", site="K25_has_multiple_edges", lang="c", source="include/parmcb/util.hpp has_multiple_edges", text=txt, entry="h_multi",
                    rewrites=log, timeout=600, unwind=maxn + 3, mode="bounded", flags=["--nondet-static"], bound="n <= %d, out-degree <= %d, loops unwound; the contract as assume/assert" % (maxn, maxn + 1),
                    functions={"has_multiple_edges": "bounded(n<=%d)" % maxn}, trusted=["cbmc 6.11 SAT back end"])
    return dict(unit="K25_has_multiple_edges", site="K25_has_multiple_edges", lang="c", source="include/parmcb/util.hpp has_multiple_edges", text=_fresh(fn), entry="h_multi",
                fallback=lambda: _multi_unit(3, True),
                enforce="has_multiple_edges", replace=["nb_clear"], rewrites=log, timeout=900, flags=["--object-bits", "12"], unwind=16, loop_contracts=True, mode="proof", split=4,
                bound="proved(n<=%d, out-degree<=%d): loops closed by loop contracts with invariants quantified over the vertex / slot range" % (maxn, maxn + 1),
                dropped=["template header; typedef"], functions={"has_multiple_edges": "proved(n<=%d)" % maxn},
                assumptions=["boost::vertices / out_edges / opposite bound to ordinals and an adjacency table; std::set<Vertex> to a boolean table"],
                trusted=["cbmc 6.11 + DFCC, SAT back end (bounded quantifier instantiation)"])


def units(tier):
    return [X.guarded("K25_has_loops", _loops_unit), X.guarded("K25_has_non_positive_weights", _nonpos_unit), X.guarded("K25_has_multiple_edges", _multi_unit, 5)]
