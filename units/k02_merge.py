"""K2 (merge loops): SpVecGF2::operator+ (include/parmcb/spvecgf2.hpp) extracted to C (E1) and verified with LOOP
CONTRACTS for vector lengths up to MAXLEN - further than the E2 units (length <= 3/4), and with the loops of
the code closed by invariants rather than unwound.
Binding: `ones` / `v.ones` are arrays A, B with lengths; iterators are indices; `res.ones.push_back(x)` appends
to R.  One ghost rewrite: push_back also records whether the ghost coordinate vp_k was appended.
Ghost tables (defined by unwound harness loops, hence the cap): INA[i] = "vp_k occurs in A[0..i)", INB likewise.
Contract: R is strictly increasing, |R| <= |A|+|B|, and vp_k occurs in R  <=>  it occurs in exactly one operand."""
from lib import xtract as X
from lib.core import Undecided
from units.k01_spvecgf2 import _replay

# locals of the merge loops, recognised by declaration shape (N2)
def _canon(body, first, log):
    return X.canon(body, [
        (first, ["res"]),
        (r"auto (\w+) = ones\.begin\(\), (\w+) = ones\.end\(\);", ["it", "it_e"]),
        (r"auto (\w+) = v(?:\.ones)?\.begin\(\), (\w+) = v(?:\.ones)?\.end\(\);", ["v_it", "v_it_e"]),
        (r"(?:const )?U (\w+) = \*it;", ["index"]),
        (r"(?:const )?U (\w+) = \*v_it;", ["v_index"]),
    ], log)


def _unit(bounded, cap=8):
    log = []
    rel = "include/parmcb/spvecgf2.hpp"
    text = X.src(rel)
    body = X.body_after(text, r"SpVecGF2<U> operator\+\(const SpVecGF2<U> &v\) const\s*", "SpVecGF2::operator+")
    body = _canon(body, r"SpVecGF2<U> (\w+);", log)
    body = X.rewrite(body, [
        (r"SpVecGF2<U> res;", "", 1, "container-api", "result vector -> array R + length nr (0 on entry)"),
        (r"auto it = ones\.begin\(\), it_e = ones\.end\(\);", "size_t it = 0, it_e = na;", 1, "container-api", "vector iterators = indices"),
        (r"auto v_it = v\.ones\.begin\(\), v_it_e = v\.ones\.end\(\);", "size_t v_it = 0, v_it_e = nb;", 1, "container-api", ""),
        (r"(?:const )?U index = \*it;", "U index = A[it];", 1, "container-api", ""),
        (r"(?:const )?U v_index = \*v_it;", "U v_index = B[v_it];", 1, "container-api", ""),
        (r"res\.ones\.push_back\(\*it\);", "R[nr++] = A[it]; vp_inr = vp_inr || (A[it] == vp_k);", (0, 2), "ghost", "push_back + ghost membership of vp_k"),
        (r"res\.ones\.push_back\(\*v_it\);", "R[nr++] = B[v_it]; vp_inr = vp_inr || (B[v_it] == vp_k);", (0, 2), "ghost", ""),
        (r"res\.ones\.push_back\((\w+)\);", r"R[nr++] = \1; vp_inr = vp_inr || (\1 == vp_k);", (0, 4), "ghost", "push_back + ghost membership of vp_k"),
        (r"return res;", "return;", 1, "type-binding", ""),
    ], log)
    common = ("it <= na && v_it <= nb && it_e == na && v_it_e == nb && nr <= it + v_it"
              " && vp_inr == (INA[it] ^ INB[v_it])"
              " && (nr == 0 || ((it >= na || R[nr - 1] < A[it]) && (v_it >= nb || R[nr - 1] < B[v_it])))"
              " && ((it == 0 || v_it >= nb || A[it - 1] < B[v_it] || vp_paired) && (v_it == 0 || it >= na || B[v_it - 1] < A[it] || vp_paired))"
              " && (q0 + 1 < nr ==> R[q0] < R[q0 + 1])")
    # vp_paired is not used (kept false); the cross conditions below are the standard two-pointer invariant
    common = common.replace(" || vp_paired", "")
    inv0 = ("__CPROVER_assigns(it, v_it, nr, vp_inr, __CPROVER_object_whole(R))\n__CPROVER_loop_invariant(%s)\n__CPROVER_decreases((na - it) + (nb - v_it))" % common)
    inv1 = ("__CPROVER_assigns(it, nr, vp_inr, __CPROVER_object_whole(R))\n__CPROVER_loop_invariant(%s && (it >= na || v_it >= nb))\n__CPROVER_decreases(na - it)" % common)
    inv2 = ("__CPROVER_assigns(v_it, nr, vp_inr, __CPROVER_object_whole(R))\n__CPROVER_loop_invariant(%s && it >= na)\n__CPROVER_decreases(nb - v_it)" % common)
    if not bounded:
        body = X.splice_loop_contracts(body, {0: inv0, 1: inv1, 2: inv2}, log)
    fn = r"""
#include <stddef.h>
typedef _Bool bool;
typedef unsigned long U;
#define MAXLEN %d
U A[MAXLEN + 1], B[MAXLEN + 1], R[2 * MAXLEN + 2]; size_t na, nb, nr;
U vp_k; bool vp_inr; bool INA[MAXLEN + 2], INB[MAXLEN + 2];
void plus(size_t q0)
__CPROVER_requires(na <= MAXLEN && nb <= MAXLEN && nr == 0 && vp_inr == 0 && q0 <= 2 * MAXLEN)
__CPROVER_assigns(nr, vp_inr, __CPROVER_object_whole(R))
/* canonical form of the result and size bound */
__CPROVER_ensures(nr <= na + nb && (q0 + 1 < nr ==> R[q0] < R[q0 + 1]))
/* addition over GF(2): coordinate vp_k is in the result iff it is in exactly one operand */
__CPROVER_ensures(vp_inr == (INA[na] ^ INB[nb]))
{%s}
size_t vp_in_na, vp_in_nb; U vp_in_a[MAXLEN + 1], vp_in_b[MAXLEN + 1];
void h_plus(void) {
  size_t q0;
  __CPROVER_assume(na <= MAXLEN && nb <= MAXLEN);
  INA[0] = 0; INB[0] = 0;
  for (size_t i = 0; i < MAXLEN + 1; i++) {
    /* requires: both operands canonical (strictly increasing); definition of the ghost prefix-membership tables */
    __CPROVER_assume(i + 1 >= na || A[i] < A[i + 1]);
    __CPROVER_assume(i + 1 >= nb || B[i] < B[i + 1]);
    INA[i + 1] = INA[i] || (i < na && A[i] == vp_k);
    INB[i + 1] = INB[i] || (i < nb && B[i] == vp_k);
    vp_in_a[i] = A[i]; vp_in_b[i] = B[i];
  }
  vp_in_na = na; vp_in_nb = nb;
  plus(q0);
  __CPROVER_assert(0, "VP_REACH end of harness");
}
""" % (3 if bounded else cap, body)
    name = "K2_plus_merge_loops" + ("_bounded" if bounded else "")
    spec = dict(unit=name, site="K2_plus_merge_loops", lang="c", source=rel + " (SpVecGF2::operator+, three merge loops)", text=fn,
                entry="h_plus", enforce="plus", rewrites=log, timeout=1200, dropped=["class wrapper; template header"],
                assumptions=["std::vector bound to arrays (push_back = append); operands canonical (precondition)"],
                trusted=["cbmc 6.11 + DFCC, SAT back end"], replay=_replay)
    if bounded:
        spec.update(mode="bounded", bound="lengths <= 3, unwound", unwind=9, functions={"SpVecGF2::operator+ (E1)": "bounded(len<=3)"})
    else:
        spec.update(mode="proof", bound="three loops closed by loop contracts; lengths <= %d only because the ghost membership tables are defined by an unwound harness loop" % cap,
                    loop_contracts=True, unwind=cap + 3, fallback=lambda: _unit(True),
                    functions={"SpVecGF2::operator+ (merge loops, E1)": "proved(len<=%d): canonical result, size, symmetric difference" % cap})
    return spec


def _dot_unit(which, bounded, cap=8):
    """K3: SpVecGF2::operator*(vector) / operator*(set): parity of the common coordinates, loop contract."""
    log = []
    rel = "include/parmcb/spvecgf2.hpp"
    text = X.src(rel)
    if which == "vec":
        body = X.body_after(text, r"int operator\*\(const SpVecGF2<U> &v\) const\s*", "SpVecGF2::operator*(vec)")
        second = (r"auto v_it = v\.ones\.begin\(\), v_it_e = v\.ones\.end\(\);", "size_t v_it = 0, v_it_e = nb;")
    else:
        body = X.body_after(text, r"int operator\*\(const std::set<U> &v\) const\s*", "SpVecGF2::operator*(set)")
        second = (r"auto v_it = v\.begin\(\), v_it_e = v\.end\(\);", "size_t v_it = 0, v_it_e = nb;")
    body = _canon(body, r"int (\w+) = 0;", log)
    body = X.rewrite(body, [
        (r"auto it = ones\.begin\(\), it_e = ones\.end\(\);", "size_t it = 0, it_e = na;", 1, "container-api", "iterators = indices"),
        (second[0], second[1], 1, "container-api", "second operand (vector or std::set in iteration order) = sorted array B"),
        (r"(?:const )?U index = \*it;", "U index = A[it];", 1, "container-api", ""),
        (r"(?:const )?U v_index = \*v_it;", "U v_index = B[v_it];", 1, "container-api", ""),
    ], log)
    inv = ("__CPROVER_assigns(it, v_it, res)\n"
           "__CPROVER_loop_invariant(it <= na && v_it <= nb && it_e == na && v_it_e == nb && (res == 0 || res == 1) && res == PA[it]"
           " && (it == 0 || v_it >= nb || A[it - 1] < B[v_it]) && (v_it == 0 || it >= na || B[v_it - 1] < A[it]))\n"
           "__CPROVER_decreases((na - it) + (nb - v_it))")
    if not bounded:
        body = X.splice_loop_contracts(body, {0: inv}, log)
    fn = r"""
#include <stddef.h>
typedef _Bool bool;
typedef unsigned long U;
#define MAXLEN %d
U A[MAXLEN + 1], B[MAXLEN + 1]; size_t na, nb;
bool CA[MAXLEN + 1]; int PA[MAXLEN + 2];        /* ghost: A[i] occurs in B ; parity of the number of such i below a prefix */
int dot(void)
__CPROVER_requires(na <= MAXLEN && nb <= MAXLEN)
__CPROVER_assigns()
/* the product is the parity of the number of common coordinates */
__CPROVER_ensures(__CPROVER_return_value == PA[na])
{%s}
size_t vp_in_na, vp_in_nb; U vp_in_a[MAXLEN + 1], vp_in_b[MAXLEN + 1];
void h_dot(void) {
  __CPROVER_assume(na <= MAXLEN && nb <= MAXLEN);
  PA[0] = 0;
  for (size_t i = 0; i < MAXLEN + 1; i++) {
    __CPROVER_assume(i + 1 >= na || A[i] < A[i + 1]);
    __CPROVER_assume(i + 1 >= nb || B[i] < B[i + 1]);
    bool c = 0;
    for (size_t j = 0; j < MAXLEN + 1; j++) if (i < na && j < nb && A[i] == B[j]) c = 1;
    CA[i] = c;
    PA[i + 1] = (PA[i] + (c ? 1 : 0)) %% 2;
    vp_in_a[i] = A[i]; vp_in_b[i] = B[i];
  }
  vp_in_na = na; vp_in_nb = nb;
  int r = dot(); (void) r;
  __CPROVER_assert(0, "VP_REACH end of harness");
}
""" % (3 if bounded else cap, body)
    name = "K3_dot_%s_loop" % which + ("_bounded" if bounded else "")
    spec = dict(unit=name, site="K3_dot_%s_loop" % which, lang="c", source=rel + " (SpVecGF2::operator*(%s))" % which, text=fn, entry="h_dot",
                enforce="dot", rewrites=log, timeout=1200, dropped=["class wrapper"],
                assumptions=["std::vector / std::set iteration bound to sorted arrays; operands canonical"], trusted=["cbmc 6.11 + DFCC, SAT back end"], replay=_replay)
    if bounded:
        spec.update(mode="bounded", bound="lengths <= 3, unwound", unwind=9, functions={"SpVecGF2::operator*(%s) (E1)" % which: "bounded(len<=3)"})
    else:
        spec.update(mode="proof", bound="loop closed by its contract; lengths <= %d (ghost tables)" % cap, loop_contracts=True, unwind=cap + 3,
                    fallback=lambda: _dot_unit(which, True), functions={"SpVecGF2::operator*(%s) (E1)" % which: "proved(len<=%d): parity of common coordinates" % cap})
    return spec


def units(tier):
    cap = 12 if tier == "thorough" else 8
    return [X.guarded("K2_plus_merge_loops", _unit, False, cap),
            X.guarded("K3_dot_vec_loop", _dot_unit, "vec", False, 8 if tier == "thorough" else 5),
            X.guarded("K3_dot_set_loop", _dot_unit, "set", False, 8 if tier == "thorough" else 5)]
