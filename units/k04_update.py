"""K4 / K5 / K6: the support-vector update loop (3 sequential sites), the TBB update task (2 sites)
and the sparsest-support swap (2 sites).  Modular: the SpVecGF2 operators are represented by their
contracts K2/K3 (--replace-call-with-contract); the abstraction of a sparse vector is its view
restricted to 64 coordinates (a bit mask), so par(view(a) & S) is __builtin_popcountll parity.
Unbounded in csd (up to the object-size limit of the verifier); ghost index l0 and ghost earlier
cycle cj replace quantifiers."""
import re
from lib import xtract as X
from lib.core import Undecided
from units.canon import MAINLOOP

PRELUDE = r"""
#include <stddef.h>
typedef struct { unsigned long view; } spvec;   /* view(SpVecGF2<size_t>) restricted to coordinates 0..63 */
typedef unsigned long idxset;                   /* std::set<size_t> under the same abstraction */
#define PAR(x) ((int)(__builtin_popcountll(x) & 1))
#define MAXCSD %(MAXCSD)s

/* K3: SpVecGF2::operator*(const std::set<U>&) */
int gf2_dot_set(const spvec *a, idxset s)
__CPROVER_requires(__CPROVER_r_ok(a, sizeof(spvec)))
__CPROVER_ensures(__CPROVER_return_value == PAR(__CPROVER_old(a->view) & s))
__CPROVER_assigns()
;
/* K2: SpVecGF2::operator+= ; alias-safe: every operand read under old() */
void gf2_add_assign(spvec *a, const spvec *b)
__CPROVER_requires(__CPROVER_w_ok(a, sizeof(spvec)) && __CPROVER_r_ok(b, sizeof(spvec)))
__CPROVER_ensures(a->view == (__CPROVER_old(a->view) ^ __CPROVER_old(b->view)))
__CPROVER_assigns(a->view)
;
/* K1: size() - any pure function of the view */
size_t gf2_size(const spvec *a)
__CPROVER_requires(__CPROVER_r_ok(a, sizeof(spvec)))
__CPROVER_ensures(__CPROVER_return_value == (size_t)__builtin_popcountll(__CPROVER_old(a->view)))
__CPROVER_assigns()
;
/* std::swap on two SpVecGF2 (move ctor/assign, K1) */
void gf2_swap(spvec *a, spvec *b)
__CPROVER_requires(__CPROVER_w_ok(a, sizeof(spvec)) && __CPROVER_w_ok(b, sizeof(spvec)))
__CPROVER_ensures(a->view == __CPROVER_old(b->view) && b->view == __CPROVER_old(a->view))
__CPROVER_assigns(a->view, b->view)
;
"""

SEQ_SITES = [
    ("signed", "include/parmcb/parmcb_sva_signed.hpp"),
    ("trees", "include/parmcb/parmcb_sva_trees.hpp"),
    ("mpi_trees", "include/parmcb/mpi/parmcb_sva_trees.hpp"),
]
TBB_SITES = [
    ("signed_tbb", "include/parmcb/parmcb_sva_signed_tbb.hpp"),
    ("mpi_signed", "include/parmcb/mpi/parmcb_sva_signed.hpp"),
]
SWAP_SITES = [
    ("signed", "include/parmcb/parmcb_sva_signed.hpp"),
    ("signed_tbb", "include/parmcb/parmcb_sva_signed_tbb.hpp"),
]

OP_RULES = [
    (r"std::size_t", "size_t", (1, 3), "type-binding", "std::size_t -> size_t"),
    (r"support\[([^\]]+)\] \* cyclek", r"gf2_dot_set(&support[\1], cyclek)", 1, "overload-resolution",
     "SpVecGF2::operator*(std::set) -> its contract K3"),
    (r"support\[([^\]]+)\] \+= support\[([^\]]+)\]", r"gf2_add_assign(&support[\1], &support[\2])", 1,
     "overload-resolution", "SpVecGF2::operator+= -> its contract K2"),
]


def _seq_unit(site, rel, bounded):
    log = []
    text = X.canon(X.src(rel), MAINLOOP[:1], log)
    loop = X.stmt_after(text, r"std::set<std::size_t> cyclek;", r"\bfor\s*\(\s*std::size_t \w+ =", "update loop " + site)
    mv = re.match(r"for\s*\(\s*std::size_t (\w+) =", loop)
    L = mv.group(1)
    loop = X.rewrite(loop, OP_RULES, log)
    inv = ("__CPROVER_assigns(%(L)s, __CPROVER_object_whole(support))\n"
           "__CPROVER_loop_invariant(k + 1 <= %(L)s && %(L)s <= csd)\n"
           "__CPROVER_loop_invariant(support[k].view == vp_old_k)\n"
           "__CPROVER_loop_invariant((l0 <= k || l0 >= %(L)s) ==> support[l0].view == vp_old_l0)\n"
           "__CPROVER_loop_invariant((l0 > k && l0 < %(L)s) ==> support[l0].view == (vp_old_l0 ^ (PAR(vp_old_l0 & cyclek) ? vp_old_k : 0UL)))\n"
           "__CPROVER_decreases(csd - %(L)s)") % dict(L=L)
    if not bounded:
        loop = X.splice_loop_contracts(loop, {0: inv}, log)
    fn = r"""
void update(spvec *support, size_t csd, size_t k, idxset cyclek, size_t l0, idxset cj)
__CPROVER_requires(csd <= MAXCSD && k < csd && l0 < csd)
__CPROVER_requires(__CPROVER_is_fresh(support, csd * sizeof(spvec)))
/* odd_{S_k}(C_k) = 1 (contract K10 of the search) */
__CPROVER_requires(PAR(support[k].view & cyclek) == 1)
/* main-loop invariant I(k) for an arbitrary earlier cycle cj: S_k and S_l0 are orthogonal to it */
__CPROVER_requires(PAR(support[k].view & cj) == 0 && (l0 >= k ==> PAR(support[l0].view & cj) == 0))
__CPROVER_assigns(__CPROVER_object_whole(support))
/* functional postcondition */
__CPROVER_ensures(l0 <= k ==> support[l0].view == __CPROVER_old(support[l0].view))
__CPROVER_ensures(l0 > k ==> support[l0].view == (__CPROVER_old(support[l0].view) ^ (PAR(__CPROVER_old(support[l0].view) & cyclek) ? __CPROVER_old(support[k].view) : 0UL)))
/* I(k+1): every later witness is orthogonal to C_k and stays orthogonal to earlier cycles */
__CPROVER_ensures(l0 > k ==> PAR(support[l0].view & cyclek) == 0)
__CPROVER_ensures(l0 >= k ==> PAR(support[l0].view & cj) == 0)
{
  unsigned long vp_old_k = support[k].view, vp_old_l0 = support[l0].view;
  %s
}
size_t vp_in_csd, vp_in_k, vp_in_l0; idxset vp_in_cyclek, vp_in_cj;
void h_update(void) {
  spvec *support; size_t csd, k, l0; idxset cyclek, cj;
  vp_in_csd = csd; vp_in_k = k; vp_in_l0 = l0; vp_in_cyclek = cyclek; vp_in_cj = cj;
  update(support, csd, k, cyclek, l0, cj);
  __CPROVER_assert(0, "VP_REACH end of harness");
}
""" % loop
    name = "K4_update_%s%s" % (site, "_bounded" if bounded else "")
    spec = dict(unit=name, site="K4_update_" + site, lang="c", source=rel + " (support-vector update loop)",
                text=PRELUDE % dict(MAXCSD="4" if bounded else "1000000") + fn, entry="h_update", enforce="update",
                replace=["gf2_dot_set", "gf2_add_assign"], rewrites=log,
                dropped=["surrounding function; timers; the edge<->coordinate translation (contract K15)"],
                assumptions=["coordinates >= 64 are not represented (abstraction of the view to one machine word)",
                             "K2/K3 contracts of SpVecGF2::operator+=, operator*(set) (established separately, bounded, by the E2 units of C17)"],
                trusted=["cbmc 6.11 + goto-instrument DFCC, SAT back end"], timeout=300)
    if bounded:
        spec.update(mode="bounded", bound="csd <= 4, loop unwound 5 times (no loop contract)", unwind=5,
                    functions={"support-update loop [%s]" % site: "bounded(csd<=4)"})
    else:
        spec.update(mode="proof", bound="unbounded in csd (csd <= 10^6 object-size cap); view abstraction 64 coordinates",
                    loop_contracts=True, fallback=lambda: _seq_unit(site, rel, True),
                    functions={"support-update loop [%s]" % site: "proved"})
    return spec


def _tbb_unit(site, rel, bounded):
    log = []
    text = X.canon(X.src(rel), MAINLOOP[:1], log)
    call = X.stmt_after(text, r"std::set<std::size_t> cyclek;", r"tbb::parallel_for\s*\(", "update parallel_for " + site)
    args = X.call_args(call)
    if len(args) != 2:
        raise Undecided("extraction out of date: parallel_for in %s has %d arguments" % (rel, len(args)))
    mr = re.match(r"tbb::blocked_range<std::size_t>\((.*),\s*(.*)\)$", args[0], re.S)
    if not mr:
        raise Undecided("extraction out of date: range expression %r" % args[0])
    lo, hi = mr.group(1).strip(), mr.group(2).strip()
    log.append(dict(pattern="parallel_for range", replacement="RANGE_LO=%s RANGE_HI=%s" % (lo, hi), fired=1, expected=1,
                    kind="type-binding", note="range of the parallel_for call becomes the precondition of the task"))
    ml = re.match(r"\[&\]\s*\(const tbb::blocked_range<std::size_t> &(\w+)\)\s*\{", args[1])
    if not ml:
        raise Undecided("extraction out of date: task lambda header")
    R = ml.group(1)
    body = X.body_after(args[1], r"\[&\]\s*\(const tbb::blocked_range<std::size_t> &\w+\)\s*", "task body")
    body = X.rewrite(body, [
        (r"\b%s\.begin\(\)" % R, "vp_rb", 1, "container-api", "blocked_range::begin()"),
        (r"\b%s\.end\(\)" % R, "vp_re", 1, "container-api", "blocked_range::end()"),
        (r"\bauto (\w+) = vp_re", r"size_t \1 = vp_re", 1, "type-binding", "auto -> size_t"),
        (r"std::size_t", "size_t", 1, "type-binding", "std::size_t -> size_t"),
        (r"support\[([^\]]+)\] \* cyclek", r"gf2_dot_set(&support[\1], cyclek)", 1, "overload-resolution", "K3"),
        (r"support\[([^\]]+)\] \+= support\[([^\]]+)\]", r"gf2_add_assign(&support[\1], &support[\2])", 1, "overload-resolution", "K2"),
    ], log)
    mv = re.search(r"for\s*\(\s*size_t (\w+) =", body)
    if not mv:
        raise Undecided("extraction out of date: task loop header")
    I = mv.group(1)
    inv = ("__CPROVER_assigns(%(I)s, __CPROVER_object_upto(&support[vp_rb], (vp_re - vp_rb) * sizeof(spvec)))\n"
           "__CPROVER_loop_invariant(vp_rb <= %(I)s && %(I)s <= vp_re)\n"
           "__CPROVER_loop_invariant(support[k].view == vp_old_k)\n"
           "__CPROVER_loop_invariant((l0 < vp_rb || l0 >= %(I)s) ==> support[l0].view == vp_old_l0)\n"
           "__CPROVER_loop_invariant((l0 >= vp_rb && l0 < %(I)s) ==> support[l0].view == (vp_old_l0 ^ (PAR(vp_old_l0 & cyclek) ? vp_old_k : 0UL)))\n"
           "__CPROVER_decreases(vp_re - %(I)s)") % dict(I=I)
    if not bounded:
        body = X.splice_loop_contracts(body, {0: inv}, log)
    fn = r"""
#define RANGE_LO (%(lo)s)
#define RANGE_HI (%(hi)s)
void task(spvec *support, size_t csd, size_t k, idxset cyclek, size_t vp_rb, size_t vp_re, size_t l0)
__CPROVER_requires(csd <= MAXCSD && k < csd && l0 < csd)
__CPROVER_requires(__CPROVER_is_fresh(support, csd * sizeof(spvec)))
/* TBB contract: the task gets a non-empty sub-range of the range passed to parallel_for */
__CPROVER_requires(RANGE_LO <= vp_rb && vp_rb < vp_re && vp_re <= RANGE_HI)
/* frame = write set of the task: only its own rows */
__CPROVER_assigns(__CPROVER_object_upto(&support[vp_rb], (vp_re - vp_rb) * sizeof(spvec)))
__CPROVER_ensures((l0 < vp_rb || l0 >= vp_re) ==> support[l0].view == __CPROVER_old(support[l0].view))
/* functional: own rows are a function of (own row, row k, cyclek) only */
__CPROVER_ensures((l0 >= vp_rb && l0 < vp_re) ==> support[l0].view == (__CPROVER_old(support[l0].view) ^ (PAR(__CPROVER_old(support[l0].view) & cyclek) ? __CPROVER_old(support[k].view) : 0UL)))
/* row k (read by every task) lies outside every task's write set */
__CPROVER_ensures(k < vp_rb)
{
  unsigned long vp_old_k = support[k].view, vp_old_l0 = support[l0].view;
  %(body)s
}
size_t vp_in_csd, vp_in_k, vp_in_l0, vp_in_rb, vp_in_re; idxset vp_in_cyclek;
void h_task(void) {
  spvec *support; size_t csd, k, l0, rb, re; idxset cyclek;
  vp_in_csd = csd; vp_in_k = k; vp_in_l0 = l0; vp_in_cyclek = cyclek; vp_in_rb = rb; vp_in_re = re;
  task(support, csd, k, cyclek, rb, re, l0);
  __CPROVER_assert(0, "VP_REACH end of harness");
}
""" % dict(lo=lo, hi=hi, body=body)
    name = "K5_task_%s%s" % (site, "_bounded" if bounded else "")
    spec = dict(unit=name, site="K5_task_" + site, lang="c", source=rel + " (parallel_for update task)",
                text=PRELUDE % dict(MAXCSD="4" if bounded else "1000000") + fn, entry="h_task", enforce="task",
                replace=["gf2_dot_set", "gf2_add_assign"], rewrites=log,
                dropped=["lambda capture list; the parallel_for call itself (TBB contract: non-empty sub-ranges of the given range)"],
                assumptions=["coordinates >= 64 are not represented (view abstraction)",
                             "K2/K3 contracts of the SpVecGF2 operators",
                             "read set of a task is not expressible as a CBMC frame; what is proved is that the written rows are a function of (own row, row k, cyclek) only and that row k is outside every write set"],
                trusted=["cbmc 6.11 + goto-instrument DFCC, SAT back end"], timeout=300)
    if bounded:
        spec.update(mode="bounded", bound="csd <= 4, unwound", unwind=5,
                    functions={"TBB update task [%s]" % site: "bounded(csd<=4)"})
    else:
        spec.update(mode="proof", bound="unbounded in csd and in the sub-range", loop_contracts=True,
                    fallback=lambda: _tbb_unit(site, rel, True), functions={"TBB update task [%s]" % site: "proved"})
    return spec


def _disjoint_lemma():
    """Two tasks on disjoint sub-ranges have disjoint write sets; follows from the task contract."""
    txt = PRELUDE % dict(MAXCSD="1000000") + r"""
void h_disjoint(void) {
  size_t k, csd, b1, e1, b2, e2, w1, w2;
  __CPROVER_assume(k < csd && k + 1 <= b1 && b1 < e1 && e1 <= b2 && b2 < e2 && e2 <= csd);
  /* w1 / w2: arbitrary rows in the write sets given by the frame clause of K5 */
  __CPROVER_assume(b1 <= w1 && w1 < e1 && b2 <= w2 && w2 < e2);
  __CPROVER_assert(w1 != w2, "lemma.disjoint-writes: tasks on disjoint ranges never write the same row");
  __CPROVER_assert(w1 != k && w2 != k, "lemma.row-k-read-only: no task writes row k, which all tasks read");
  /* reads of task 2 that matter for its result: own rows and row k (functional postcondition) */
  __CPROVER_assert(!(b2 <= w1 && w1 < e2), "lemma.no-write-meets-read: a row written by task 1 is not an own row of task 2");
  __CPROVER_assert(0, "VP_REACH end");
}
"""
    return dict(unit="K5_disjointness_lemma", lang="c", source="(lemma over the K5 contract)", text=txt, entry="h_disjoint",
                mode="proof", timeout=600, functions={"K5 disjointness lemma": "proved"})


def _swap_unit(site, rel, bounded):
    log = []
    text = X.canon(X.src(rel), MAINLOOP[2:], log)
    # the heuristic block: from `auto min_support = k;` through the swap `if`
    blk = X.span(text, r"auto min_support = k;", r"std::swap\(support\[k\], support\[min_support\]\);\s*\}",
                 "sparsest-support block " + site)
    blk = X.rewrite(blk, [
        (r"\bauto (min_support|r) =", r"size_t \1 =", 2, "type-binding", "auto -> size_t (both initialisers are size_t)"),
        (r"support\[([^\]]+)\]\.size\(\)", r"gf2_size(&support[\1])", (2, 3), "overload-resolution", "SpVecGF2::size()"),
        (r"std::swap\(support\[k\], support\[min_support\]\)", r"gf2_swap(&support[k], &support[min_support])", 1,
         "overload-resolution", "std::swap via move construction/assignment (K1)"),
    ], log)
    inv = ("__CPROVER_assigns(r, min_support)\n"
           "__CPROVER_loop_invariant(k + 1 <= r && r <= csd && k <= min_support && min_support < csd && min_support < r)\n"
           "__CPROVER_decreases(csd - r)")
    if not bounded:
        blk = X.splice_loop_contracts(blk, {0: inv}, log)
    fn = r"""
size_t vp_ms;   /* ghost: the index chosen by the heuristic */
void choose(spvec *support, size_t csd, size_t k, size_t l0)
__CPROVER_requires(csd <= MAXCSD && k < csd && l0 < csd)
__CPROVER_requires(__CPROVER_is_fresh(support, csd * sizeof(spvec)))
__CPROVER_assigns(vp_ms, __CPROVER_object_whole(support))
/* a transposition (k, ms) with k <= ms < csd: rows below k untouched, rows k..csd-1 permuted */
__CPROVER_ensures(k <= vp_ms && vp_ms < csd)
__CPROVER_ensures((l0 != k && l0 != vp_ms) ==> support[l0].view == __CPROVER_old(support[l0].view))
__CPROVER_ensures(l0 == k ==> (vp_ms == k ? support[k].view == __CPROVER_old(support[k].view) : 1))
__CPROVER_ensures(l0 == vp_ms ==> support[k].view == __CPROVER_old(support[l0].view))
__CPROVER_ensures(l0 == k ==> support[vp_ms].view == __CPROVER_old(support[l0].view))
{
  %s
  vp_ms = min_support;
}
size_t vp_in_csd, vp_in_k, vp_in_l0;
void h_choose(void) {
  spvec *support; size_t csd, k, l0;
  vp_in_csd = csd; vp_in_k = k; vp_in_l0 = l0;
  choose(support, csd, k, l0);
  __CPROVER_assert(0, "VP_REACH end of harness");
}
/* lemma over the contract: the main-loop invariant I(k) (every S_l, l >= k, orthogonal to an
   arbitrary earlier cycle cj) is preserved by choose() */
void h_choose_lemma(void) {
  spvec *support; size_t csd, k, l0, a; idxset cj;
  __CPROVER_assume(csd <= 8 && k < csd && l0 < csd && a < csd);
  support = __CPROVER_allocate(csd * sizeof(spvec), 0);
  __CPROVER_assume(a >= k ==> PAR(support[a].view & cj) == 0);   /* holds for every a: a is arbitrary */
  unsigned long before_a = support[a].view;
  choose(support, csd, k, a);
  /* row l0 after the call is some old row with index >= k when l0 >= k */
  __CPROVER_assert((a >= k && a != k && a != vp_ms) ==> PAR(support[a].view & cj) == 0, "lemma.swap: untouched later rows stay orthogonal");
  __CPROVER_assert((a >= k && a == vp_ms) ==> PAR(support[k].view & cj) == 0, "lemma.swap: the row moved to position k is an old row of index >= k");
  __CPROVER_assert((a == k) ==> PAR(support[vp_ms].view & cj) == 0, "lemma.swap: old row k moved to a position >= k");
  __CPROVER_assert(0, "VP_REACH end of lemma");
}
""" % blk
    name = "K6_swap_%s%s" % (site, "_bounded" if bounded else "")
    spec = dict(unit=name, site="K6_swap_" + site, lang="c", source=rel + " (sparsest-support heuristic + swap)",
                text=PRELUDE % dict(MAXCSD="4" if bounded else "1000000") + fn, entry="h_choose", enforce="choose",
                replace=["gf2_size", "gf2_swap"], rewrites=log, dropped=["surrounding function"],
                assumptions=["view abstraction (64 coordinates)", "K1 contracts of size() and move/swap"],
                trusted=["cbmc 6.11 + goto-instrument DFCC, SAT back end"], timeout=300)
    if bounded:
        spec.update(mode="bounded", bound="csd <= 4, unwound", unwind=5,
                    functions={"sparsest-support swap [%s]" % site: "bounded(csd<=4)"})
    else:
        spec.update(mode="proof", bound="unbounded in csd", loop_contracts=True,
                    fallback=lambda: _swap_unit(site, rel, True),
                    functions={"sparsest-support swap [%s]" % site: "proved"})
    return spec


def _swap_lemma(site, rel):
    s = _swap_unit(site, rel, False)
    s2 = dict(s)
    s2.update(unit="K6_swap_%s_lemma" % site, entry="h_choose_lemma", enforce=None, replace=["choose"],
              loop_contracts=False, fallback=None, mode="proof", bound="lemma over the contract of choose()",
              functions={"I(k) preserved by swap [%s]" % site: "proved"})
    return s2


def units(tier, which=("K4", "K5", "K6")):
    out = []
    G = X.guarded
    if "K4" in which:
        out += [G("K4_update_" + s, _seq_unit, s, r, False) for s, r in SEQ_SITES]
    if "K5" in which:
        out += [G("K5_task_" + s, _tbb_unit, s, r, False) for s, r in TBB_SITES]
        out.append(_disjoint_lemma())
    if "K6" in which:
        out += [G("K6_swap_" + s, _swap_unit, s, r, False) for s, r in SWAP_SITES]
        out += [G("K6_swap_%s_lemma" % s, _swap_lemma, s, r) for s, r in SWAP_SITES]
    return out
