"""K11-pre: the candidate list handed to ShortestOddCycleLookup together with sorted_cycles == true IS
sorted by weight (precondition assumed by the sequential lookup unit K11_lookup_seq).  The block
`const bool sorted_cycles = ...; if (sorted_cycles) { <sort call> }` of _mcb_sva_trees and
_mcb_sva_trees_mpi is extracted; the standard algorithm is represented by its contract:
  std::sort / std::stable_sort(first, last, cmp)        -> [first,last) sorted w.r.t. cmp
  std::partial_sort(first, middle, last, cmp)           -> [first,middle) sorted and <= the rest; the rest unordered
The comparator lambda must compare weight() with `<`."""
import re
from lib import xtract as X
from lib.core import Undecided

SITES = [("trees", "include/parmcb/parmcb_sva_trees.hpp"), ("mpi_trees", "include/parmcb/mpi/parmcb_sva_trees.hpp")]


def _unit(site, rel):
    log = []
    text = X.src(rel)
    blk = X.span(text, r"const bool sorted_cycles\s*=", r"ShortestOddCycleLookup<Graph, WeightMap, ParallelUsingTBB> cycle_lookup\(",
                 "sorted_cycles block " + site, include_end=False)
    # comparator lambda(s): must be `a.weight() < b.weight()`
    lam = re.findall(r"\[\]\s*\(const auto &(\w+), const auto &(\w+)\)\s*\{\s*return (\w+)\.weight\(\) (<|<=|>|>=) (\w+)\.weight\(\);\s*\}", blk)
    if len(lam) != 1:
        raise Undecided("extraction out of date: comparator lambda of the candidate sort (%d found)" % len(lam))
    a, b, l, op, r = lam[0]
    cmpdef = "static _Bool cmp(size_t %s, size_t %s) { return DC[%s] %s DC[%s]; }" % (a, b, l, op, r)
    blk = X.rewrite(blk, [
        (r"\[\]\s*\(const auto &\w+, const auto &\w+\)\s*\{[^}]*\}", "cmp", 1, "overload-resolution", "comparator lambda -> C function on candidate positions: " + cmpdef),
        (r"cycles\.begin\(\)", "0", (1, 3), "container-api", "begin of the candidate list"),
        (r"cycles\.end\(\)", "vp_nc", (1, 2), "container-api", "end of the candidate list"),
        (r"cycles\.size\(\)", "vp_nc", (0, 3), "container-api", ""),
        (r"std::(sort|stable_sort|partial_sort)\(", r"vp_\1(", 1, "container-api", "standard algorithm -> its contract"),
        (r"\bconst bool sorted_cycles\b", "const _Bool sorted_cycles", 1, "type-binding", ""),
        (r"std::size_t", "size_t", (0, 4), "type-binding", ""),
        (r"std::min<size_t>\(", "vp_min(", (0, 2), "type-binding", ""),
        (r"\bcsd\b", "vp_csd", (0, 4), "type-binding", "cycle space dimension (arbitrary)"),
    ], log)
    fn = r"""
#include <stddef.h>
#define true 1
#define false 0
#define MAXC 1000000
typedef long W;
size_t vp_nc, vp_csd; W *DC; _Bool vp_flag;
static size_t vp_min(size_t x, size_t y) { return x < y ? x : y; }
%s
/* contracts of the standard algorithms (for the comparator cmp = "weight <") */
void vp_sort(size_t first, size_t last, _Bool (*c)(size_t, size_t))
__CPROVER_requires(first <= last && last <= vp_nc)
__CPROVER_assigns(__CPROVER_object_whole(DC))
__CPROVER_ensures((vp_g0 >= first && vp_g0 + 1 < last) ==> !(DC[vp_g0 + 1] < DC[vp_g0]))
;
void vp_stable_sort(size_t first, size_t last, _Bool (*c)(size_t, size_t))
__CPROVER_requires(first <= last && last <= vp_nc)
__CPROVER_assigns(__CPROVER_object_whole(DC))
__CPROVER_ensures((vp_g0 >= first && vp_g0 + 1 < last) ==> !(DC[vp_g0 + 1] < DC[vp_g0]))
;
void vp_partial_sort(size_t first, size_t middle, size_t last, _Bool (*c)(size_t, size_t))
__CPROVER_requires(first <= middle && middle <= last && last <= vp_nc)
__CPROVER_assigns(__CPROVER_object_whole(DC))
__CPROVER_ensures((vp_g0 >= first && vp_g0 + 1 < middle) ==> !(DC[vp_g0 + 1] < DC[vp_g0]))     /* only the prefix is ordered */
;
void prepare(void)
__CPROVER_requires(vp_nc <= MAXC && vp_g0 < vp_nc && __CPROVER_is_fresh(DC, (vp_nc + 1) * sizeof(W)))
__CPROVER_assigns(vp_flag, __CPROVER_object_whole(DC))
/* what the lookup is entitled to assume when it is told the list is sorted (g0 arbitrary) */
__CPROVER_ensures(vp_flag ==> (vp_g0 + 1 < vp_nc ==> DC[vp_g0] <= DC[vp_g0 + 1]))
{
  %s
  vp_flag = sorted_cycles;      /* the flag passed to ShortestOddCycleLookup */
}
void h_prepare(void) { prepare(); __CPROVER_assert(0, "VP_REACH end"); }
""" % ("size_t vp_g0;\n" + cmpdef, blk)
    return dict(unit="K11pre_sorted_" + site, lang="c", source=rel + " (candidate list sorted before the lookup is told so)", text=fn,
                entry="h_prepare", enforce="prepare", replace=[n for n in ("vp_sort", "vp_stable_sort", "vp_partial_sort") if (n + "(") in blk], mode="proof", timeout=600,
                bound="any number of candidates", rewrites=log, dropped=["everything around the block"],
                functions={"_mcb_sva_trees[%s]: list sorted when sorted_cycles is passed" % site: "proved against the std algorithm contracts"},
                assumptions=["contracts of std::sort / std::stable_sort / std::partial_sort as stated in the unit"], trusted=["cbmc 6.11 + DFCC"])


def units(tier):
    return [X.guarded("K11pre_sorted_" + s, _unit, s, r) for s, r in SITES]
