"""K18d: parmcb::dijkstra (include/parmcb/detail/dijkstra.hpp) as an E1 unit; both loops closed by loop contracts with
invariants quantified over the bounded vertex range.  Degrees, parallel edges and self-loops are unbounded (accessor
contracts functional at one ghost slot); weights are positive integers below 10^9 (the exact domain).

Binding: dist_map / pred_map are the arrays DIST / PREDF / PREDE; the d_ary_heap_indirect keyed by dist_map is an
abstract SET with the contract of the four operations used: top() is an element with MINIMAL DIST among the members,
pop() removes it, push(w) inserts, update(w) REQUIRES w to be a member (its key only went down).  closed_plus enters
through K12.

Contract (arbitrary ghost slot (x0,j0) -> y0 along edge of weight w0; VIS(v) = v is the source or has a predecessor):
  T  every visited vertex other than s has a visited discoverer PU[v] adjacent to it with DIST[v] == DIST[PU[v]] + PW[v],
     PW[v] > 0 the weight of the connecting edge; DIST[s] == 0                (=> a path of weight DIST[v], lemma)
  R  on return every visited vertex is settled, and a settled x0 has every neighbour y0 visited with
     DIST[y0] <= DIST[x0] + w0                                                 (=> no shorter path, lemma)
  H  update() is only called for members of the heap (a settled vertex is never improved)
Lemma (informal, DESIGN 10.10): T and R give DIST[v] = shortest-path distance for every vertex reachable from s, and
unvisited vertices are unreachable; the predecessor edges form a shortest-path tree."""
from lib import xtract as X
from lib.core import Undecided
from units.k17b_bfs import _fresh

PRE = r"""
#include <stddef.h>
typedef _Bool bool;
#define true 1
#define false 0
#define MAXN %(MAXN)s
typedef long W;
#define INF 9223372036854775807L
#define WB 1000000000L
size_t vp_n, vp_s;
size_t x0, j0, y0, d_x0; W w0;                 /* ghost slot: out-edge slot j0 of x0 leads to y0 along an edge of weight w0 */
bool ADJM[MAXN][MAXN];
size_t vp_lastu, vp_lastj;                     /* ghost: the slot whose edge descriptor was handed out last */
size_t out_degree(size_t u)
__CPROVER_requires(u < vp_n)
__CPROVER_assigns()
__CPROVER_ensures(u == x0 ==> __CPROVER_return_value == d_x0)
;
size_t out_target(size_t u, size_t j)
__CPROVER_requires(u < vp_n)
__CPROVER_assigns()
__CPROVER_ensures(__CPROVER_return_value < vp_n && ADJM[u][__CPROVER_return_value])
__CPROVER_ensures((u == x0 && j == j0) ==> __CPROVER_return_value == y0)
;
size_t out_edge(size_t u, size_t j)
__CPROVER_requires(u < vp_n)
__CPROVER_assigns(vp_lastu, vp_lastj)
__CPROVER_ensures(vp_lastu == u && vp_lastj == j)
;
/* get(weight_map, e) for the edge descriptor handed out last: positive, bounded, functional at the ghost slot */
W edge_weight(size_t e)
__CPROVER_assigns()
__CPROVER_ensures(__CPROVER_return_value > 0 && __CPROVER_return_value < WB)
__CPROVER_ensures((vp_lastu == x0 && vp_lastj == j0) ==> __CPROVER_return_value == w0)
;
/* K12 (proved in unit K12_closed_plus_*) */
W closed_plus(W a, W b)
__CPROVER_requires(a >= 0 && b >= 0 && ((a != INF && b != INF) ==> a <= INF - b))
__CPROVER_assigns()
__CPROVER_ensures((a == INF || b == INF) ==> __CPROVER_return_value == INF)
__CPROVER_ensures((a != INF && b != INF) ==> __CPROVER_return_value == a + b)
;
W DIST[MAXN]; bool PREDF[MAXN]; size_t PREDE[MAXN];
/* d_ary_heap_indirect keyed by DIST, as a set.  STALE[v]: v is a member whose key was changed without a following update() -
   the heap order is then unspecified, so top() / pop() / push() require that no member is stale */
bool INH[MAXN], STALE[MAXN]; size_t hn, vp_top;
#define NOSTALE __CPROVER_forall { size_t hs; (hs < MAXN) ==> ((hs < vp_n && INH[hs]) ==> !STALE[hs]) }
void heap_push(size_t v)
__CPROVER_requires(v < vp_n && !INH[v] && NOSTALE)
__CPROVER_assigns(INH[v], STALE[v], hn)
__CPROVER_ensures(INH[v] && !STALE[v] && hn == __CPROVER_old(hn) + 1)
;
bool heap_empty(void)
__CPROVER_assigns()
__CPROVER_ensures(__CPROVER_return_value == (hn == 0))
__CPROVER_ensures(__CPROVER_return_value ==> __CPROVER_forall { size_t he; (he < MAXN) ==> !INH[he] })
;
size_t heap_top(void)
__CPROVER_requires(hn > 0 && NOSTALE)
__CPROVER_assigns(vp_top)
__CPROVER_ensures(__CPROVER_return_value < vp_n && INH[__CPROVER_return_value] && vp_top == __CPROVER_return_value)
__CPROVER_ensures(__CPROVER_forall { size_t ht; (ht < MAXN) ==> ((ht < vp_n && INH[ht]) ==> DIST[__CPROVER_return_value] <= DIST[ht]) })
;
void heap_pop(void)
__CPROVER_requires(hn > 0 && vp_top < vp_n && INH[vp_top] && NOSTALE)
__CPROVER_assigns(INH[vp_top], hn)
__CPROVER_ensures(!INH[vp_top] && hn == __CPROVER_old(hn) - 1)
;
void heap_update(size_t v)
__CPROVER_requires(v < vp_n && INH[v])        /* only a member's key can be decreased */
__CPROVER_assigns(STALE[v])
__CPROVER_ensures(!STALE[v])
;
bool SETTLED[MAXN]; size_t PU[MAXN]; W PW[MAXN]; W dmax;
#define VIS(v) ((v) == vp_s || PREDF[v])
#define ALLV(v, body) __CPROVER_forall { size_t v; (v < MAXN) ==> ((v < vp_n) ==> (body)) }
"""

SETS = ("dmax >= 0 && dmax <= SUMSET * WB && ALLV(qs, INH[qs] ==> !STALE[qs])"
        " && ALLV(qv, (INH[qv] ==> (VIS(qv) && !SETTLED[qv] && DIST[qv] >= dmax)) && (SETTLED[qv] ==> (VIS(qv) && !INH[qv] && DIST[qv] <= dmax))"
        " && (VIS(qv) ==> ((INH[qv] || SETTLED[qv]) && DIST[qv] >= 0 && DIST[qv] <= SUMSET * WB)))")
TREE = ("DIST[vp_s] == 0 && !PREDF[vp_s]"
        " && ALLV(qv, PREDF[qv] ==> (PU[qv] < vp_n && VIS(PU[qv]) && ADJM[PU[qv]][qv] && PW[qv] > 0 && PW[qv] < WB && DIST[qv] == DIST[PU[qv]] + PW[qv] && SETTLED[PU[qv]]))")


def _closure(done):
    return "((SETTLED[x0] && (%s)) ==> (y0 == vp_s || y0 == x0 || (VIS(y0) && DIST[y0] <= DIST[x0] + w0)))" % done


PRE_BOUNDED = r"""
#include <stddef.h>
typedef _Bool bool;
#define true 1
#define false 0
#define MAXN 3
#define MAXE 3
#define MAXD (2 * MAXE)
typedef long W;
#define INF 9223372036854775807L
size_t vp_n, vp_s;
size_t DEG[MAXN], ADJ[MAXN][MAXD], AE[MAXN][MAXD];
size_t vp_in_ne, vp_in_ea[MAXE], vp_in_eb[MAXE]; W vp_in_ew[MAXE];     /* undirected multigraph as a weighted edge list in insertion order */
size_t out_degree(size_t u) { return DEG[u]; }
size_t out_target(size_t u, size_t j) { return ADJ[u][j]; }
size_t out_edge(size_t u, size_t j) { return AE[u][j]; }
W edge_weight(size_t e) { return vp_in_ew[e]; }
W closed_plus(W a, W b) { if (a == INF) return INF; if (b == INF) return INF; return a + b; }
W DIST[MAXN]; bool PREDF[MAXN]; size_t PREDE[MAXN];
bool INH[MAXN], STALE[MAXN]; size_t hn, vp_top;
/* executable model of the heap: with a stale member (key changed, no update()) the order is unspecified: top() is ANY member */
void heap_push(size_t v) { INH[v] = 1; STALE[v] = 0; hn++; }
bool heap_empty(void) { return hn == 0; }
size_t heap_top(void) { size_t v; bool stale = 0; __CPROVER_assume(v < vp_n && INH[v]);
  for (size_t x = 0; x < MAXN; x++) if (x < vp_n && INH[x] && STALE[x]) stale = 1;
  __CPROVER_assert(!stale, "K18d.H: top() on a heap whose order was not restored by update() after a member's key changed (precondition of the heap)");
  for (size_t x = 0; x < MAXN; x++) __CPROVER_assume(stale || !(x < vp_n && INH[x]) || DIST[v] <= DIST[x]); vp_top = v; return v; }
void heap_pop(void) { INH[vp_top] = 0; hn--; }
void heap_update(size_t v) { __CPROVER_assert(v < vp_n && INH[v], "K18d.H: update() on a vertex that is in the heap"); STALE[v] = 0; }
bool SETTLED[MAXN]; size_t PU[MAXN]; W PW[MAXN]; W dmax;
#define VP_LESS(a, b) ((a) < (b))
"""


def _replay(vals, failed):
    import re
    from lib import native
    def num(k):
        return int(re.sub(r"[^0-9-]", "", vals.get(k, "0")) or 0)
    def arr(name, i):
        c = [v for k, v in vals.items() if re.match(r"%s\[%d\w*\]$" % (name, i), k)]
        return re.sub(r"[^0-9-]", "", c[0]) if c else "0"
    ev = []
    for i in range(num("vp_in_ne")):
        ev += [arr("vp_in_ea", i), arr("vp_in_eb", i), arr("vp_in_ew", i)]
    return native.replay_run("e3_bfs", ["--replay-dijkstra", num("vp_in_n"), num("vp_in_s"), ",".join(ev) or "-"], dict(libs=()))


def _bounded_unit(body, log, rel):
    """plain CBMC, loops unwound, executable models of the dependencies, DIRECT spec: Bellman-Ford distances computed by the harness"""
    fn = r"""
void dijkstra(void) {%s}
size_t vp_in_n, vp_in_s;
void h_dijkstra(void) {
  __CPROVER_assume(vp_n >= 1 && vp_n <= MAXN && vp_s < vp_n);
  for (size_t v = 0; v < MAXN; v++) { PREDF[v] = 0; INH[v] = 0; DEG[v] = 0; }
  { size_t ne; __CPROVER_assume(ne <= MAXE); vp_in_ne = ne; }
  for (size_t i = 0; i < MAXE; i++) if (i < vp_in_ne) {
    size_t a = vp_in_ea[i], b = vp_in_eb[i];
    __CPROVER_assume(a < vp_n && b < vp_n && vp_in_ew[i] >= 1 && vp_in_ew[i] <= 4);
    ADJ[a][DEG[a]] = b; AE[a][DEG[a]] = i; DEG[a]++;
    ADJ[b][DEG[b]] = a; AE[b][DEG[b]] = i; DEG[b]++;
  }
  hn = 0; vp_in_n = vp_n; vp_in_s = vp_s;
  W D[MAXN]; for (size_t v = 0; v < MAXN; v++) D[v] = (v == vp_s) ? 0 : INF;
  for (size_t r = 0; r < MAXN; r++) for (size_t i = 0; i < MAXE; i++) if (i < vp_in_ne) {
    size_t a = vp_in_ea[i], b = vp_in_eb[i]; W w = vp_in_ew[i];
    if (D[a] != INF && D[a] + w < D[b]) D[b] = D[a] + w;
    if (D[b] != INF && D[b] + w < D[a]) D[a] = D[b] + w;
  }
  dijkstra();
  for (size_t v = 0; v < MAXN; v++) if (v < vp_n) {
    bool vis = (v == vp_s) || PREDF[v];
    __CPROVER_assert(vis == (D[v] != INF), "K18d.spec: exactly the vertices reachable from s are visited");
    __CPROVER_assert(!vis || DIST[v] == D[v], "K18d.spec: the reported distance is the shortest-path distance");
  }
  __CPROVER_assert(0, "VP_REACH end of harness");
}
""" % body
    return dict(unit="K18d_dijkstra_bounded", site="K18d_dijkstra", lang="c", source=rel + " (parmcb::dijkstra)", text=PRE_BOUNDED + fn, entry="h_dijkstra",
                rewrites=log, timeout=900, unwind=8, mode="bounded", flags=["--nondet-static"], replay=_replay,
                bound="every undirected multigraph with n <= 3 vertices and <= 3 edges of weight 1..4 (parallel edges, self-loops), every admissible heap order; loops unwound; Bellman-Ford as the specification",
                functions={"parmcb::dijkstra": "bounded(n<=3)"}, trusted=["cbmc 6.11 SAT back end"])


def _unit(maxn, bounded=False):
    log = []
    rel = "include/parmcb/detail/dijkstra.hpp"
    text = X.src(rel)
    body = X.body_after(text, r"void dijkstra\(const Graph &g, const WeightMap &weight_map,.*?PredecessorMap &pred_map\)\s*", "dijkstra")
    i = body.find("boost::put(dist_map, s, DistanceType());")
    if i < 0:
        raise Undecided("extraction out of date: initialisation of the source in dijkstra")
    log.append(dict(pattern="declarations before the source is initialised", replacement="", fired=1, expected=1, kind="drop",
                    note="typedefs, compare (std::less), the closed_plus object, the index-in-heap map, construction of the (empty) queue"))
    body = body[i:]
    body = X.drop_local_const(body, log)
    body = X.canon(body, [(r"Vertex (\w+) = queue\.top\(\);", ["u"]), (r"DistanceType (\w+) = boost::get\(dist_map, u\);", ["d_u"]),
                          (r"auto (\w+) = boost::out_edges\(u, g\);", ["eiRange"]),
                          (r"for \(auto (\w+) = eiRange\.first;", ["ei"]), (r"auto (\w+) = \*ei;", ["e"]), (r"auto (\w+) = boost::target\(e, g\);", ["w"]),
                          (r"WeightType (\w+) = combine\(", ["c"]), (r"bool (\w+) = std::get<0>\(boost::get\(pred_map, w\)\);", ["visited_w"])], log)
    body = X.rewrite(body, [
        (r"boost::put\(dist_map, s, DistanceType\(\)\);", "DIST[vp_s] = 0;", 1, "container-api", ""),
        (r"boost::put\(pred_map, s, std::make_tuple\(false, Edge\(\)\)\);", "PREDF[vp_s] = 0;", 1, "container-api", ""),
        (r"queue\.push\(s\);", "heap_push(vp_s); dmax = 0;", 1, "ghost", "push + ghost: nothing settled yet"),
        (r"!queue\.empty\(\)", "!heap_empty()", 1, "container-api", ""),
        (r"Vertex u = queue\.top\(\);", "size_t u = heap_top();", 1, "container-api", ""),
        (r"queue\.pop\(\);", "heap_pop(); SETTLED[u] = 1; dmax = DIST[u];", 1, "ghost", "pop + ghost: u is settled"),
        (r"DistanceType d_u = boost::get\(dist_map, u\);", "W d_u = DIST[u];", 1, "container-api", ""),
        (r"auto eiRange = boost::out_edges\(u, g\);", "size_t eiRange_second = out_degree(u);", 1, "container-api", ""),
        (r"for \(auto ei = eiRange\.first; ei != eiRange\.second; ei\+\+\)", "for (size_t ei = 0; ei != eiRange_second; ei++)", 1, "container-api", ""),
        (r"auto e = \*ei;", "size_t e = out_edge(u, ei);", 1, "container-api", ""),
        (r"auto w = boost::target\(e, g\);", "size_t w = out_target(u, ei);", 1, "container-api", ""),
        (r"w = boost::source\(e, g\);", "w = u;", 1, "container-api", "source of an out-edge of u is u"),
        (r"\bs\b", "vp_s", (1, 3), "type-binding", "parameter s"),
        (r"WeightType c = combine\(d_u, get\(weight_map, e\)\);", "const W vp_we = edge_weight(e); const W c = closed_plus(d_u, vp_we);", 1, "overload-resolution", "weight map lookup + closed_plus (K12)"),
        (r"bool visited_w = std::get<0>\(boost::get\(pred_map, w\)\);", "bool visited_w = PREDF[w];", 1, "container-api", ""),
        (r"boost::put\(dist_map, w, c\);", "DIST[w] = c; STALE[w] = INH[w];", (1, 3), "ghost", "distance write + ghost: a member's key changed"),
        (r"boost::put\(pred_map, w, std::make_tuple\(true, e\)\);", "PREDF[w] = 1; PREDE[w] = e; PU[w] = u; PW[w] = vp_we;", (1, 3), "ghost", "pred entry + ghost: improved from u along an edge of weight vp_we"),
        (r"queue\.push\(w\);", "heap_push(w);", 1, "container-api", ""),
        (r"\bcompare\(", "VP_LESS(", (0, 2), "overload-resolution", "std::less<DistanceType>"),
        (r"boost::get\(dist_map, w\)", "DIST[w]", (0, 3), "container-api", ""),
        (r"queue\.update\(w\);", "heap_update(w);", (0, 2), "container-api", ""),
    ], log)
    if bounded:
        return _bounded_unit(body, log, rel)
    assigns = ("hn, vp_top, vp_lastu, vp_lastj, dmax, __CPROVER_object_whole(STALE), __CPROVER_object_whole(DIST), __CPROVER_object_whole(PREDF), __CPROVER_object_whole(PREDE), "
               "__CPROVER_object_whole(INH), __CPROVER_object_whole(SETTLED), __CPROVER_object_whole(PU), __CPROVER_object_whole(PW)")
    inv_main = ("__CPROVER_assigns(%s)\n__CPROVER_loop_invariant(%s && %s && %s)" % (assigns, SETS, TREE, _closure("1")))
    inv_scan = ("__CPROVER_assigns(ei, %s)\n__CPROVER_loop_invariant(ei <= eiRange_second && u < vp_n && SETTLED[u] && DIST[u] == d_u && d_u == dmax && d_u <= (SUMSET - 1) * WB && %s && %s && %s)\n"
                "__CPROVER_decreases(eiRange_second - ei)" % (
        assigns.replace("vp_top, ", "").replace("dmax, ", "").replace("__CPROVER_object_whole(SETTLED), ", ""), SETS, TREE,
        _closure("x0 != u || ei > j0")))
    body = X.splice_loop_contracts(body, {0: inv_main, 1: inv_scan}, log)
    fn = r"""
#define VP_LESS(a, b) ((a) < (b))
void dijkstra(void)
__CPROVER_requires(vp_n >= 1 && vp_n <= MAXN && vp_s < vp_n && hn == 0)
__CPROVER_requires(x0 < vp_n && y0 < vp_n && j0 < d_x0 && w0 > 0 && w0 < WB)
__CPROVER_requires(ALLV(ra, !PREDF[ra] && !INH[ra] && !SETTLED[ra]))          /* caller: no vertex visited; fresh empty queue */
__CPROVER_assigns(hn, vp_top, vp_lastu, vp_lastj, dmax, __CPROVER_object_whole(STALE), __CPROVER_object_whole(DIST), __CPROVER_object_whole(PREDF), __CPROVER_object_whole(PREDE),
                  __CPROVER_object_whole(INH), __CPROVER_object_whole(SETTLED), __CPROVER_object_whole(PU), __CPROVER_object_whole(PW))
/* T */
__CPROVER_ensures(DIST[vp_s] == 0 && !PREDF[vp_s])
__CPROVER_ensures(ALLV(pa, PREDF[pa] ==> (PU[pa] < vp_n && VIS(PU[pa]) && ADJM[PU[pa]][pa] && PW[pa] > 0 && DIST[pa] == DIST[PU[pa]] + PW[pa])))
/* R */
__CPROVER_ensures(ALLV(pb, VIS(pb) ==> SETTLED[pb]))
__CPROVER_ensures(SETTLED[x0] ==> (y0 == vp_s || y0 == x0 || (VIS(y0) && DIST[y0] <= DIST[x0] + w0)))
{%s}
size_t vp_in_n, vp_in_s;
void h_dijkstra(void) {
  vp_in_n = vp_n; vp_in_s = vp_s;
  dijkstra();
  __CPROVER_assert(0, "VP_REACH end of harness");
}
""" % body
    return dict(unit="K18d_dijkstra", site="K18d_dijkstra", lang="c", source=rel + " (parmcb::dijkstra)",
                text=PRE % dict(MAXN=str(maxn)) + "#define SUMSET ((W) (%s))\n" % " + ".join("((%d < vp_n && SETTLED[%d]) ? 1 : 0)" % (i, i) for i in range(maxn)) + _fresh(fn), entry="h_dijkstra", enforce="dijkstra",
                replace=[f for f in ("out_degree", "out_target", "out_edge", "edge_weight", "closed_plus", "heap_push", "heap_empty", "heap_top", "heap_pop", "heap_update") if (f + "(") in body],
                rewrites=log, timeout=2400, split=16, flags=["--object-bits", "12"], unwind=26, loop_contracts=True, mode="proof", fallback=lambda: _unit(3, True),
                bound="proved(n<=%d): both loops closed by loop contracts with invariants quantified over the vertex range; degrees, parallel edges, self-loops unbounded; integer weights in (0, 10^9); termination of the main loop not proved" % maxn,
                dropped=["template header; typedefs; construction of the queue and the index-in-heap map"],
                functions={"parmcb::dijkstra": "proved(n<=%d), partial correctness" % maxn},
                assumptions=["contracts of boost::d_ary_heap_indirect (as a set: top has minimal key, update needs a member), boost::out_edges / target / the weight map (fixed structure), closed_plus (K12, proved)",
                             "positive integer weights below 10^9 (no overflow); informal lemma DESIGN 10.10"],
                trusted=["cbmc 6.11 + DFCC, SAT back end (bounded quantifier instantiation)"])


def units(tier):
    return [X.guarded("K18d_dijkstra", _unit, 5 if tier == "thorough" else 4)]
