"""K27 (gating half): the input-validation block of each demo's main() - the statements between
fclose(fp) and the "Graph has ..." report - rewritten to C (E1).  Loop-free: every predicate
valuation and every MPI rank."""
import re
from lib import xtract as X

DEMOS = [("mcb-dimacs", "src/mcb-dimacs.cpp", False), ("approx-mcb-dimacs", "src/approx-mcb-dimacs.cpp", False),
         ("collection-stats-dimacs", "src/collection-stats-dimacs.cpp", False), ("mcb-dimacs-mpi", "src/mcb-dimacs-mpi.cpp", True)]


def _unit(name, rel, mpi):
    log = []
    text = X.src(rel)
    # from the statement after fclose(fp) to the first statement that starts the algorithm phase
    end = r"boost::timer::cpu_timer timer;" if mpi else (r"std::cout << \"graph n: \"" if "collection" in name else r"std::cout << \"Graph has \"")
    blk = X.span(text, r"fclose\(fp\);", end, "gating block of " + name, include_end=False)
    blk = blk[len("fclose(fp);"):]
    nmsg = len(re.findall(r"std::cerr <<", blk))
    blk = X.rewrite(blk, [
        (r"parmcb::has_loops\(graph\)", "vp_has_loops", 1, "container-api", "predicate result (unconstrained boolean)"),
        (r"parmcb::has_multiple_edges\(graph\)", "vp_has_multi", 1, "container-api", "predicate result"),
        (r"parmcb::has_non_positive_weights\(graph, get\(boost::edge_weight, graph\)\)", "vp_has_nonpos", 1, "container-api", "predicate result"),
        (r"std::cerr <<[^;]*;", "vp_diag = 1;", nmsg, "container-api", "diagnostic on stderr -> ghost flag"),
        (r"std::cout <<[^;]*;", ";", (0, 8), "drop", "console output"),
        (r"world\.rank\(\)", "vp_rank", (1, 4) if mpi else 0, "container-api", "communicator rank (arbitrary)"),
    ], log)
    fn = r"""
#define EXIT_FAILURE 1
#define EXIT_SUCCESS 0
_Bool vp_has_loops, vp_has_multi, vp_has_nonpos; int vp_rank, vp_size; int vp_diag, vp_passed;
int gate(void)
__CPROVER_requires(vp_rank >= 0 && vp_rank < vp_size && vp_diag == 0 && vp_passed == 0)
__CPROVER_requires(vp_has_loops <= 1 && vp_has_multi <= 1 && vp_has_nonpos <= 1)
__CPROVER_assigns(vp_diag, vp_passed)
/* a graph violating a precondition: EVERY rank leaves main with a non-zero status before any algorithm runs */
__CPROVER_ensures((vp_has_loops || vp_has_multi || vp_has_nonpos) ==> (__CPROVER_return_value == EXIT_FAILURE && !vp_passed))
/* ... and the diagnostic is printed (by rank 0 under MPI) */
__CPROVER_ensures(((vp_has_loops || vp_has_multi || vp_has_nonpos) && vp_rank == 0) ==> vp_diag)
/* a valid graph passes the gate on every rank without a diagnostic */
__CPROVER_ensures(!(vp_has_loops || vp_has_multi || vp_has_nonpos) ==> (vp_passed && !vp_diag))
{
%s
  vp_passed = 1;     /* the algorithm phase starts here */
  return -1;
}
_Bool vp_in_loops, vp_in_multi, vp_in_nonpos; int vp_in_rank, vp_in_size;
void h_gate(void) {
  vp_in_loops = vp_has_loops; vp_in_multi = vp_has_multi; vp_in_nonpos = vp_has_nonpos; vp_in_rank = vp_rank; vp_in_size = vp_size;
  int r = gate(); (void) r;
  __CPROVER_assert(0, "VP_REACH end of harness");
}
""" % blk
    return dict(unit="K27_gate_" + name, lang="c", source=rel + " (input-validation block of main)", text=fn, entry="h_gate",
                enforce="gate", mode="proof", timeout=600, bound="every predicate valuation, every rank of every communicator size",
                rewrites=log, dropped=["option parsing, file reading, algorithm phase"],
                functions={"%s: gating block" % name: "proved"},
                assumptions=["the three predicates are represented by unconstrained booleans (their own contract is C10/K25)"],
                trusted=["cbmc 6.11 + DFCC, SAT back end"])


REPORT_DEMOS = [("mcb-dimacs", "src/mcb-dimacs.cpp", ""), ("approx-mcb-dimacs", "src/approx-mcb-dimacs.cpp", "approx_")]


def _report_unit(name, rel, prefix):
    """K27b: everything between the gate and the weight report of a demo's main(): for every flag valuation exactly ONE algorithm is
    called - the one the flags select - nothing returns before it, and the value printed as 'MCB weight' is what that call returned."""
    log = []
    text = X.src(rel)
    blk = X.span(text, r"std::cout << \"Graph has \" << num_vertices", r"std::cout << \"MCB weight = \" << \w+ << std::endl;", "algorithm phase of " + name)
    blk = X.strip_logging(blk, log)
    blk = X.rewrite(blk, [
        (r"#ifdef PARMCB_VERIF.*?#endif\n", "", (0, 1), "drop", "verification hook H2 (prints the active parallelism)"),
        (r"#ifdef PARMCB_HAVE_TBB\n", "", (1, 6), "drop", "TBB is enabled in this configuration"),
        (r"#else\s*std::cerr << \"TBB not supported, bailing out\.\" << std::endl;\s*#endif\n", "", (0, 4), "drop", "non-TBB configuration"),
        (r"#endif\n", "", (0, 3), "drop", ""),
        (r"std::cout << \"MCB weight = \" << (\w+) << std::endl;", r"vp_print_weight(\1);", (1, 3), "ghost", "the weight report"),
        (r"vm\.count\(\"cores\"\)", "vp_has_cores", (0, 1), "container-api", "program option present"),
        (r"vm\[\"cores\"\]\.as<int>\(\)", "vp_cores", (0, 1), "container-api", ""),
        (r"vm\[\"k\"\]\.as<int>\(\)", "vp_k", (0, 1), "container-api", ""),
        (r"vm\.count\(\"k\"\)", "vp_has_k", (0, 1), "container-api", ""),
        (r"vm\[\"(\w+)\"\]\.as<bool>\(\)", r"vp_flag_\1", (4, 16), "container-api", "boolean program options"),
        (r"boost::thread::hardware_concurrency\(\)", "vp_hw", (0, 1), "container-api", ""),
        (r"parmcb::set_global_tbb_concurrency\((\w+)\);", r"vp_set_conc(\1);", (0, 1), "container-api", "K26"),
        (r"std::size_t", "size_t", (0, 4), "type-binding", ""),
        (r"boost::timer::cpu_timer timer;", "", (0, 1), "drop", "timer"),
        (r"timer\.stop\(\);", "", (0, 1), "drop", ""),
        (r"std::list<std::list<edge_descriptor>> cycles;", "", 1, "container-api", "output list"),
        (r"parmcb::%s(mcb_sva_\w+)\(graph, get\(boost::edge_weight, graph\),(?: k,)? std::back_inserter\(cycles\)\)" % prefix, r"vp_algo(ALG_\1)", (6, 6), "overload-resolution",
         "call of a library entry point -> contract: some weight, the call is recorded"),
        (r"std::cout <<[^;]*;", ";", (2, 30), "drop", "console output"),
        (r"std::cerr <<[^;]*;", ";", (0, 8), "drop", ""),
        (r"return EXIT_(SUCCESS|FAILURE);", r"{ vp_returned = 1; return; }", (0, 4), "ghost", "leaving main inside the region"),
        (r"\bint k\b", "int k", (0, 1), "type-binding", ""),
    ], log)
    fn = r"""
#include <stddef.h>
typedef _Bool bool;
enum { ALG_mcb_sva_signed = 1, ALG_mcb_sva_signed_tbb, ALG_mcb_sva_fvs_trees, ALG_mcb_sva_fvs_trees_tbb, ALG_mcb_sva_iso_trees, ALG_mcb_sva_iso_trees_tbb };
bool vp_flag_signed, vp_flag_fvstrees, vp_flag_isotrees, vp_flag_parallel, vp_flag_verbose, vp_flag_printcycles, vp_has_cores, vp_has_k; int vp_cores, vp_k; size_t vp_hw;
int vp_ncalled, vp_which, vp_nprint, vp_returned; double vp_ret, vp_printed;
size_t num_vertices_, num_edges_;
#define num_vertices(g) num_vertices_
#define num_edges(g) num_edges_
double vp_algo(int which)
__CPROVER_assigns(vp_ncalled, vp_which, vp_ret)
__CPROVER_ensures(vp_ncalled == __CPROVER_old(vp_ncalled) + 1 && vp_which == which && vp_ret == __CPROVER_return_value && __CPROVER_return_value == __CPROVER_return_value)
;
void vp_print_weight(double w)
__CPROVER_assigns(vp_nprint, vp_printed)
__CPROVER_ensures(vp_nprint == __CPROVER_old(vp_nprint) + 1 && vp_printed == w)
;
void vp_set_conc(size_t n)
__CPROVER_requires(1)
__CPROVER_assigns()
__CPROVER_ensures(1)
;
#define EXPECT (vp_flag_signed ? (vp_flag_parallel ? ALG_mcb_sva_signed_tbb : ALG_mcb_sva_signed) : vp_flag_fvstrees ? (vp_flag_parallel ? ALG_mcb_sva_fvs_trees_tbb : ALG_mcb_sva_fvs_trees) \
                : (vp_flag_parallel ? ALG_mcb_sva_iso_trees_tbb : ALG_mcb_sva_iso_trees))
void phase(void)
__CPROVER_requires(vp_ncalled == 0 && vp_nprint == 0 && vp_returned == 0)
__CPROVER_assigns(vp_ncalled, vp_which, vp_ret, vp_nprint, vp_printed, vp_returned)
/* for EVERY graph that passed the gate and every flag valuation: one call, of the selected algorithm; one report, of its value; no earlier exit
   (the approximate demo refuses k <= 1 with an early exit before any call) */
__CPROVER_ensures(%(KOK)s ==> (!vp_returned && vp_ncalled == 1 && vp_which == EXPECT && vp_nprint == 1 && vp_printed == vp_ret))
__CPROVER_ensures(!(%(KOK)s) ==> (vp_returned && vp_ncalled == 0 && vp_nprint == 0))
{
  int graph = 0; (void) graph;
  %(BLK)s
}
void h_phase(void) {
  phase();
  __CPROVER_assert(0, "VP_REACH end of harness");
}
""" % dict(BLK=blk, KOK=("((vp_has_k ? (size_t) vp_k : (size_t) 2) > 1)" if prefix else "1"))
    return dict(unit="K27b_report_" + name, lang="c", source=rel + " (main: from the gate to the weight report)", text=fn, entry="h_phase", enforce="phase",
                replace=["vp_algo", "vp_print_weight", "vp_set_conc"], mode="proof", timeout=600, rewrites=log,
                bound="loop-free: every flag valuation, every graph size, every return value of the library",
                dropped=["console output other than the weight report; timer; hook H2; the non-TBB configuration"],
                functions={"%s: algorithm selection and weight report" % name: "proved"},
                assumptions=["the library entry points are represented by a contract that returns an arbitrary (non-NaN) weight: what they compute is C01/C02/C05/C06"],
                trusted=["cbmc 6.11 + DFCC, SAT back end"])


def units(tier):
    return [X.guarded("K27_gate_" + n, _unit, n, r, m) for n, r, m in DEMOS] + [X.guarded("K27b_report_" + n, _report_unit, n, r, p_) for n, r, p_ in REPORT_DEMOS]
