"""K27 (gating half): the input-validation block of each demo's main() - the statements between
fclose(fp) and the "Graph has ..." report - rewritten to C (E1).  Loop-free: every predicate
valuation and every MPI rank."""
import re
from lib import xtract as X

DEMOS = [("mcb-dimacs", "src/mcb-dimacs.cpp", False), ("approx-mcb-dimacs", "src/approx-mcb-dimacs.cpp", False),
         ("collection-stats-dimacs", "src/collection-stats-dimacs.cpp", False), ("mcb-dimacs-mpi", "src/mcb-dimacs-mpi.cpp", True)]


def _unit(name, rel, mpi):
    log = []
    text = X.src(rel)
    # from the statement after fclose(fp) to the first statement that starts the algorithm phase
    end = r"boost::timer::cpu_timer timer;" if mpi else (r"std::cout << \"graph n: \"" if "collection" in name else r"std::cout << \"Graph has \"")
    blk = X.span(text, r"fclose\(fp\);", end, "gating block of " + name, include_end=False)
    blk = blk[len("fclose(fp);"):]
    nmsg = len(re.findall(r"std::cerr <<", blk))
    blk = X.rewrite(blk, [
        (r"parmcb::has_loops\(graph\)", "vp_has_loops", 1, "container-api", "predicate result (unconstrained boolean)"),
        (r"parmcb::has_multiple_edges\(graph\)", "vp_has_multi", 1, "container-api", "predicate result"),
        (r"parmcb::has_non_positive_weights\(graph, get\(boost::edge_weight, graph\)\)", "vp_has_nonpos", 1, "container-api", "predicate result"),
        (r"std::cerr <<[^;]*;", "vp_diag = 1;", nmsg, "container-api", "diagnostic on stderr -> ghost flag"),
        (r"std::cout <<[^;]*;", ";", (0, 8), "drop", "console output"),
        (r"world\.rank\(\)", "vp_rank", (1, 4) if mpi else 0, "container-api", "communicator rank (arbitrary)"),
    ], log)
    fn = r"""
#define EXIT_FAILURE 1
#define EXIT_SUCCESS 0
_Bool vp_has_loops, vp_has_multi, vp_has_nonpos; int vp_rank, vp_size; int vp_diag, vp_passed;
int gate(void)
__CPROVER_requires(vp_rank >= 0 && vp_rank < vp_size && vp_diag == 0 && vp_passed == 0)
__CPROVER_requires(vp_has_loops <= 1 && vp_has_multi <= 1 && vp_has_nonpos <= 1)
__CPROVER_assigns(vp_diag, vp_passed)
/* a graph violating a precondition: EVERY rank leaves main with a non-zero status before any algorithm runs */
__CPROVER_ensures((vp_has_loops || vp_has_multi || vp_has_nonpos) ==> (__CPROVER_return_value == EXIT_FAILURE && !vp_passed))
/* ... and the diagnostic is printed (by rank 0 under MPI) */
__CPROVER_ensures(((vp_has_loops || vp_has_multi || vp_has_nonpos) && vp_rank == 0) ==> vp_diag)
/* a valid graph passes the gate on every rank without a diagnostic */
__CPROVER_ensures(!(vp_has_loops || vp_has_multi || vp_has_nonpos) ==> (vp_passed && !vp_diag))
{
%s
  vp_passed = 1;     /* the algorithm phase starts here */
  return -1;
}
_Bool vp_in_loops, vp_in_multi, vp_in_nonpos; int vp_in_rank, vp_in_size;
void h_gate(void) {
  vp_in_loops = vp_has_loops; vp_in_multi = vp_has_multi; vp_in_nonpos = vp_has_nonpos; vp_in_rank = vp_rank; vp_in_size = vp_size;
  int r = gate(); (void) r;
  __CPROVER_assert(0, "VP_REACH end of harness");
}
""" % blk
    return dict(unit="K27_gate_" + name, lang="c", source=rel + " (input-validation block of main)", text=fn, entry="h_gate",
                enforce="gate", mode="proof", timeout=600, bound="every predicate valuation, every rank of every communicator size",
                rewrites=log, dropped=["option parsing, file reading, algorithm phase"],
                functions={"%s: gating block" % name: "proved"},
                assumptions=["the three predicates are represented by unconstrained booleans (their own contract is C10/K25)"],
                trusted=["cbmc 6.11 + DFCC, SAT back end"])


def units(tier):
    return [X.guarded("K27_gate_" + n, _unit, n, r, m) for n, r, m in DEMOS]
