"""K24: the line-normalisation step of read_dimacs_from_file (include/parmcb/util.hpp): the
statements between `while (fgets(...) != NULL) {` and the first `if (buffer[0] == ...`.
fgets and strlen are represented by their contracts; a ghost index replaces the quantifier.
Loop-free => proof for every 1024-byte buffer."""
import re
from lib import xtract as X
from lib import native
from lib.core import Undecided


def _replay(vals, failed):
    return native.replay_run("e3_dimacs", ["--replay-nonl"])


def _unit():
    log = []
    text = X.src("include/parmcb/util.hpp")
    m = re.search(r"#define BUFFER_SIZE (\d+)", text)
    if not m:
        raise Undecided("extraction out of date: BUFFER_SIZE")
    bufsz = m.group(1)
    region = X.span(text, r"while \(fgets\(buffer, sizeof\(buffer\), fp\) != NULL\) \{", r"if \(buffer\[0\] == 'c'",
                    "line normalisation", include_end=False)
    region = region[region.index("{") + 1:]
    region = X.rewrite(region, [(r"std::size_t", "size_t", (0, 3), "type-binding", "std::size_t -> size_t")], log)
    fn = r"""
#include <stddef.h>
#define BUFFER_SIZE %s
size_t vp_len;                 /* ghost: length of the line fgets produced */
/* libc strlen, contract relative to the ghost length */
size_t strlen(const char *s)
__CPROVER_requires(__CPROVER_r_ok(s, vp_len + 1) && s[vp_len] == 0)
__CPROVER_ensures(__CPROVER_return_value == vp_len)
__CPROVER_assigns()
;
void normalise(char *buffer, size_t g)
__CPROVER_requires(__CPROVER_is_fresh(buffer, BUFFER_SIZE))
/* contract of a successful fgets(buffer, BUFFER_SIZE, fp): NUL-terminated, 1 <= length < BUFFER_SIZE,
   no NUL before the terminator, '\n' can only be the last character (g is an arbitrary position) */
__CPROVER_requires(g < BUFFER_SIZE)
__CPROVER_requires(vp_len >= 1 && vp_len < BUFFER_SIZE && buffer[vp_len] == 0)
__CPROVER_requires(g < vp_len ==> buffer[g] != 0)
__CPROVER_requires(g + 1 < vp_len ==> buffer[g] != '\n')
__CPROVER_assigns(__CPROVER_object_whole(buffer))
/* content = the line without a trailing newline; it is preserved entirely ... */
__CPROVER_ensures(g < (__CPROVER_old(buffer[vp_len - 1]) == '\n' ? vp_len - 1 : vp_len) ==> buffer[g] == __CPROVER_old(buffer[g]))
/* ... and the string now ends exactly where the content ends (only a trailing '\n' is removed) */
__CPROVER_ensures(buffer[(__CPROVER_old(buffer[vp_len - 1]) == '\n' ? vp_len - 1 : vp_len)] == 0)
{
%s
}
size_t vp_in_len; char vp_in_last;
void h_norm(void) {
  char *buffer; size_t g;
  normalise(buffer, g);
  __CPROVER_assert(0, "VP_REACH end of harness");
}
""" % (bufsz, region)
    return dict(unit="K24_line_normalisation", lang="c", source="include/parmcb/util.hpp read_dimacs_from_file (fgets/strip step)",
                text=fn, entry="h_norm", enforce="normalise", replace=["strlen"], mode="proof",
                bound="every %s-byte buffer satisfying the fgets contract" % bufsz, rewrites=log, timeout=300,
                dropped=["the rest of the reader (bounded stand-in K25)"],
                functions={"read_dimacs_from_file: line normalisation": "proved"},
                assumptions=["fgets contract: NUL-terminated, 1<=len<BUFFER_SIZE, newline only last; strlen contract"],
                trusted=["cbmc 6.11 + DFCC, SAT back end"], replay=_replay)


def _edge_unit():
    """K24b: the edge-line branch of read_dimacs_from_file (`e`/`a` lines), loop-free.  sscanf enters through its contract for the format
    "%c %d %d %lf": it converts the first k fields of the line and writes ONLY those arguments; the std::map of declared vertices holds the
    keys 1..n with vertex i-1 (established by the `p` line branch); boost::add_edge appends to the edge list.  The line is described by ghosts:
    it has nf in {3,4} fields after the letter - endpoints Fs, Ft and, if nf = 4, the weight Fw."""
    log = []
    text = X.src("include/parmcb/util.hpp")
    blk = X.stmt_after(text, r"vertex_map\[i\] = boost::add_vertex\(graph\);", r"if\s*\(buffer\[0\] == 'a' \|\| buffer\[0\] == 'e'\)", "edge-line branch of read_dimacs_from_file")
    body = blk[blk.index("{") + 1:blk.rindex("}")]
    body = X.rewrite(body, [
        (r"sscanf\(buffer, \"%c %d %d %lf\", &(\w+), &(\w+), &(\w+), &(\w+)\)", r"vp_sscanf(&\1, &\2, &\3, &\4)", 1, "container-api", "sscanf with this format -> its contract"),
        (r"vertex_map\.find\((\w+)\) == vertex_map\.end\(\)", r"!MAPHAS((size_t) \1)", (1, 4), "container-api", "std::map::find on a size_t key (the int argument converts)"),
        (r"throw std::system_error\(EIO, std::generic_category\(\), (\"[^\"]*\")\);", r"VP_THROW(\1);", (1, 4), "exceptions", ""),
        (r"vertex_descriptor (\w+) = boost::vertex\(vertex_map\[(\w+)\], graph\);", r"size_t \1 = MAPAT((size_t) \2);", 2, "container-api", "map[key] for a present key; boost::vertex(i, g) = i (vecS)"),
        (r"edge_descriptor (\w+) = boost::add_edge\((\w+), (\w+), graph\)\.first;", r"size_t \1 = vp_ne; E_S[vp_ne] = \2; E_T[vp_ne] = \3; vp_ne++;", 1, "container-api", "add_edge appends an edge, descriptor = ordinal"),
        (r"weight\[(\w+)\] = (\w+);", r"E_W[\1] = \2;", 1, "container-api", "edge_weight property"),
    ], log)
    fn = r"""
#include <stddef.h>
#define MAXE 8
size_t vp_n, vp_ne; size_t E_S[MAXE], E_T[MAXE]; double E_W[MAXE];
int vp_nf, vp_Fs, vp_Ft; double vp_Fw;          /* ghost: the fields of the line */
int vp_thrown;
#define VP_THROW(msg) do { vp_thrown = 1; return; } while (0)
#define MAPHAS(k) ((k) >= 1 && (k) <= vp_n)     /* std::map<size_t, vertex> with the keys 1..n */
#define MAPAT(k) ((k) - 1)
/* contract of sscanf(buffer, "%%c %%d %%d %%lf", &fc, &rs, &rt, &rw) on a line with vp_nf numeric fields: returns 1 + vp_nf conversions and
   writes exactly the converted arguments */
int vp_sscanf(char *fc, int *rs, int *rt, double *rw)
__CPROVER_requires(__CPROVER_w_ok(fc, 1) && __CPROVER_w_ok(rs, sizeof(int)) && __CPROVER_w_ok(rt, sizeof(int)) && __CPROVER_w_ok(rw, sizeof(double)))
__CPROVER_assigns(*fc, *rs, *rt, *rw)
__CPROVER_ensures(__CPROVER_return_value == 1 + vp_nf && *rs == vp_Fs && *rt == vp_Ft)
__CPROVER_ensures(vp_nf == 4 ? *rw == vp_Fw : *rw == __CPROVER_old(*rw))
;
void edge_line(void)
__CPROVER_requires((vp_nf == 3 || vp_nf == 4) && vp_ne < MAXE && vp_n <= 1000000 && !vp_thrown && vp_Fw == vp_Fw)
__CPROVER_assigns(vp_ne, vp_thrown, __CPROVER_object_whole(E_S), __CPROVER_object_whole(E_T), __CPROVER_object_whole(E_W))
/* an edge naming an undeclared vertex (ids are 1..n) raises the error and adds nothing */
__CPROVER_ensures(vp_thrown == !(vp_Fs >= 1 && (size_t) vp_Fs <= vp_n && vp_Ft >= 1 && (size_t) vp_Ft <= vp_n))
__CPROVER_ensures(vp_thrown ==> vp_ne == __CPROVER_old(vp_ne))
/* otherwise exactly one edge is appended: the named 1-based vertices, the given weight, 1 when omitted */
__CPROVER_ensures(!vp_thrown ==> (vp_ne == __CPROVER_old(vp_ne) + 1 && E_S[__CPROVER_old(vp_ne)] == (size_t) vp_Fs - 1 && E_T[__CPROVER_old(vp_ne)] == (size_t) vp_Ft - 1
                                  && E_W[__CPROVER_old(vp_ne)] == (vp_nf == 4 ? vp_Fw : 1.0)))
{%s}
int vp_in_nf, vp_in_Fs, vp_in_Ft; size_t vp_in_n;
void h_edge(void) {
  vp_in_nf = vp_nf; vp_in_Fs = vp_Fs; vp_in_Ft = vp_Ft; vp_in_n = vp_n;
  edge_line();
  __CPROVER_assert(0, "VP_REACH end of harness");
}
""" % body
    return dict(unit="K24b_edge_line", lang="c", source="include/parmcb/util.hpp read_dimacs_from_file (branch for 'e' / 'a' lines)", text=fn, entry="h_edge", enforce="edge_line",
                replace=["vp_sscanf"], mode="proof", bound="loop-free: every line with 3 or 4 fields, every int endpoint, every non-NaN weight, every n <= 10^6", rewrites=log, timeout=300,
                dropped=["the surrounding loop and the other branches"], functions={"read_dimacs_from_file: edge-line branch": "proved"},
                assumptions=["contract of sscanf for this format (converted fields written, others untouched); std::map holds the keys 1..n (p-line branch); add_edge appends; vecS descriptors"],
                trusted=["cbmc 6.11 + DFCC, SAT back end"])


def _pline_unit(maxn=6):
    """K24c: the problem-line branch: sscanf("p %s %lu %lu") by its contract, then one vertex per declared node, keyed 1..n - the state
    K24b takes as precondition."""
    from units.k17b_bfs import _fresh
    log = []
    text = X.src("include/parmcb/util.hpp")
    blk = X.stmt_after(text, r"if \(buffer\[0\] == 'c' \|\| buffer\[0\] == '#'\)", r"if\s*\(buffer\[0\] == 'p'\)", "problem-line branch of read_dimacs_from_file")
    body = blk[blk.index("{") + 1:blk.rindex("}")]
    body = X.rewrite(body, [
        (r"sscanf\(buffer, \"p %s %lu %lu\", problem, &(\w+), &(\w+)\)", r"vp_sscanf_p(&\1, &\2)", 1, "container-api", "sscanf with this format -> its contract"),
        (r"std::size_t", "size_t", (1, 2), "type-binding", ""),
        (r"vertex_map\[i\] = boost::add_vertex\(graph\);", "MAPV[i] = vp_nv; MAPSET[i] = 1; vp_nv++;", 1, "container-api", "add_vertex returns the next ordinal (vecS); map insert at key i"),
    ], log)
    inv = ("__CPROVER_assigns(i, vp_nv, __CPROVER_object_whole(MAPV), __CPROVER_object_whole(MAPSET))\n"
           "__CPROVER_loop_invariant(1 <= i && i <= nnodes + 1 && vp_nv == i - 1 && ALLK(qk, (qk >= 1 && qk < i) ==> (MAPSET[qk] && MAPV[qk] == qk - 1)) && ALLK(qm, (qm >= i || qm == 0) ==> !MAPSET[qm]) && nnodes == vp_decl_n)\n"
           "__CPROVER_decreases(nnodes + 1 - i)")
    body = X.splice_loop_contracts(body, {0: inv}, log)
    fn = r"""
#include <stddef.h>
typedef _Bool bool;
#define MAXN %(MAXN)d
size_t vp_decl_n, vp_decl_m;                       /* ghost: the two numbers on the problem line */
size_t vp_nv; size_t MAPV[MAXN + 2]; bool MAPSET[MAXN + 2];       /* graph vertex count; std::map<size_t, vertex> as table + presence flags */
#define ALLK(k, body) __CPROVER_forall { size_t k; (k < MAXN + 2) ==> (body) }
int vp_sscanf_p(size_t *nnodes, size_t *nedges)
__CPROVER_requires(__CPROVER_w_ok(nnodes, sizeof(size_t)) && __CPROVER_w_ok(nedges, sizeof(size_t)))
__CPROVER_assigns(*nnodes, *nedges)
__CPROVER_ensures(__CPROVER_return_value == 3 && *nnodes == vp_decl_n && *nedges == vp_decl_m)
;
void p_line(void)
__CPROVER_requires(vp_decl_n <= MAXN && vp_nv == 0 && ALLK(rk, !MAPSET[rk]))            /* empty graph, empty map: first problem line */
__CPROVER_assigns(vp_nv, __CPROVER_object_whole(MAPV), __CPROVER_object_whole(MAPSET))
/* as many vertices as declared; the map holds exactly the keys 1..n, key i -> vertex i-1 */
__CPROVER_ensures(vp_nv == vp_decl_n && ALLK(pk, (!MAPSET[pk]) == !(pk >= 1 && pk <= vp_decl_n)) && ALLK(pj, (pj >= 1 && pj <= vp_decl_n) ==> MAPV[pj] == pj - 1))
{
  size_t nnodes, nedges;
  %(BODY)s
}
size_t vp_in_n;
void h_p(void) { vp_in_n = vp_decl_n; p_line(); __CPROVER_assert(0, "VP_REACH end of harness"); }
""" % dict(MAXN=maxn, BODY=body)
    return dict(unit="K24c_problem_line", lang="c", source="include/parmcb/util.hpp read_dimacs_from_file (branch for the 'p' line)", text=_fresh(fn), entry="h_p", enforce="p_line",
                replace=["vp_sscanf_p"], mode="proof", loop_contracts=True, unwind=14, flags=["--object-bits", "12"], timeout=300, rewrites=log,
                bound="proved(declared vertices <= %d): the loop closed by its contract with quantified invariants" % maxn,
                dropped=["the surrounding loop; the local declarations of nnodes / nedges are those of the function"], functions={"read_dimacs_from_file: problem-line branch": "proved(n<=%d)" % maxn},
                assumptions=["contract of sscanf for this format; add_vertex returns consecutive ordinals (vecS); std::map insert through operator[]"],
                trusted=["cbmc 6.11 + DFCC, SAT back end (bounded quantifier instantiation)"])


def units(tier):
    return [X.guarded("K24_line_normalisation", _unit), X.guarded("K24b_edge_line", _edge_unit), X.guarded("K24c_problem_line", _pline_unit)]
