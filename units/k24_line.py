"""K24: the line-normalisation step of read_dimacs_from_file (include/parmcb/util.hpp): the
statements between `while (fgets(...) != NULL) {` and the first `if (buffer[0] == ...`.
fgets and strlen are represented by their contracts; a ghost index replaces the quantifier.
Loop-free => proof for every 1024-byte buffer."""
import re
from lib import xtract as X
from lib import native
from lib.core import Undecided


def _replay(vals, failed):
    return native.replay_run("e3_dimacs", ["--replay-nonl"])


def _unit():
    log = []
    text = X.src("include/parmcb/util.hpp")
    m = re.search(r"#define BUFFER_SIZE (\d+)", text)
    if not m:
        raise Undecided("extraction out of date: BUFFER_SIZE")
    bufsz = m.group(1)
    region = X.span(text, r"while \(fgets\(buffer, sizeof\(buffer\), fp\) != NULL\) \{", r"if \(buffer\[0\] == 'c'",
                    "line normalisation", include_end=False)
    region = region[region.index("{") + 1:]
    region = X.rewrite(region, [(r"std::size_t", "size_t", (0, 3), "type-binding", "std::size_t -> size_t")], log)
    fn = r"""
#include <stddef.h>
#define BUFFER_SIZE %s
size_t vp_len;                 /* ghost: length of the line fgets produced */
/* libc strlen, contract relative to the ghost length */
size_t strlen(const char *s)
__CPROVER_requires(__CPROVER_r_ok(s, vp_len + 1) && s[vp_len] == 0)
__CPROVER_ensures(__CPROVER_return_value == vp_len)
__CPROVER_assigns()
;
void normalise(char *buffer, size_t g)
__CPROVER_requires(__CPROVER_is_fresh(buffer, BUFFER_SIZE))
/* contract of a successful fgets(buffer, BUFFER_SIZE, fp): NUL-terminated, 1 <= length < BUFFER_SIZE,
   no NUL before the terminator, '\n' can only be the last character (g is an arbitrary position) */
__CPROVER_requires(g < BUFFER_SIZE)
__CPROVER_requires(vp_len >= 1 && vp_len < BUFFER_SIZE && buffer[vp_len] == 0)
__CPROVER_requires(g < vp_len ==> buffer[g] != 0)
__CPROVER_requires(g + 1 < vp_len ==> buffer[g] != '\n')
__CPROVER_assigns(__CPROVER_object_whole(buffer))
/* content = the line without a trailing newline; it is preserved entirely ... */
__CPROVER_ensures(g < (__CPROVER_old(buffer[vp_len - 1]) == '\n' ? vp_len - 1 : vp_len) ==> buffer[g] == __CPROVER_old(buffer[g]))
/* ... and the string now ends exactly where the content ends (only a trailing '\n' is removed) */
__CPROVER_ensures(buffer[(__CPROVER_old(buffer[vp_len - 1]) == '\n' ? vp_len - 1 : vp_len)] == 0)
{
%s
}
size_t vp_in_len; char vp_in_last;
void h_norm(void) {
  char *buffer; size_t g;
  normalise(buffer, g);
  __CPROVER_assert(0, "VP_REACH end of harness");
}
""" % (bufsz, region)
    return dict(unit="K24_line_normalisation", lang="c", source="include/parmcb/util.hpp read_dimacs_from_file (fgets/strip step)",
                text=fn, entry="h_norm", enforce="normalise", replace=["strlen"], mode="proof",
                bound="every %s-byte buffer satisfying the fgets contract" % bufsz, rewrites=log, timeout=300,
                dropped=["the rest of the reader (bounded stand-in K25)"],
                functions={"read_dimacs_from_file: line normalisation": "proved"},
                assumptions=["fgets contract: NUL-terminated, 1<=len<BUFFER_SIZE, newline only last; strlen contract"],
                trusted=["cbmc 6.11 + DFCC, SAT back end"], replay=_replay)


def units(tier):
    return [X.guarded("K24_line_normalisation", _unit)]
