"""K15a: parmcb::detail::spanning_forest (include/parmcb/detail/spanning_forest.hpp) as an E1 unit, all three
nested loops closed by loop contracts; no bound on degrees, multi-edges or self-loops (the graph is seen through
three accessor contracts that are functional at a ghost slot; no ghost table is defined by a harness loop).  The
number of vertices is capped only by the size of the arrays the containers are bound to (5 quick / 8 thorough: the
SAT time grows with it).  The part before the main loops (empty-graph return, filling the set) is a separate
unit K15a_fill whose postcondition is the main unit's precondition.

Binding: vertices are ordinals 0..n-1.  std::unordered_set<Vertex> unreached is an abstract data type given by
its contract (uset_*: membership table UNR + cardinality nun); std::queue<Vertex> is the array Q with head/tail
(never reset: every vertex is pushed once); boost::out_edges(u,g) is the slot range 0..out_degree(u), the edge
at a slot is out_edge(u,j) and its far endpoint out_target(u,j).  Ghost writes record for every discovered
vertex its discovery time, component label, queue position and - for a non-root - the position of the forest edge
that discovered it.

Contract (ghost vertex g0, ghost adjacency slot (x0,j0) -> y0 with its reverse slot (y0,j1) -> x0, ghost output
position q0; all arbitrary):
  P1  n > 0  =>  return value c >= 1 and  (number of emitted edges) + c == n
  P2  every emitted edge joins an earlier-discovered vertex u to a vertex w discovered by exactly this edge
      (POSOF[w] == q0), w is not a component root, both carry the same component label
  P3  every vertex is reached; it is either a component root or the child end of exactly one emitted edge
  P4  adjacent vertices carry the same component label; labels are < c and every label has exactly one root
From P1-P4 (informal lemma, DESIGN 10.7): following discovery edges from any vertex strictly decreases the
discovery time inside one label class and ends at the class's only root, so every class is connected and the
emitted edges restricted to it form a tree; P4 makes a class closed under adjacency, so classes are exactly the
connected components: c is their number, the n - c emitted edges are a spanning forest."""
from lib import xtract as X
from lib.core import Undecided

MAXN_PROOF = "64"

PRE = r"""
#include <stddef.h>
typedef _Bool bool;
#define MAXN %(MAXN)s
#define NONE ((size_t) -1)
size_t vp_n;
/* ---- ghost slot of the adjacency structure: out-edge slot j0 of x0 leads to y0, slot j1 of y0 leads back to x0 */
size_t x0, j0, y0, j1, d_x0, d_y0, g0, q0, p0;
/* ---- std::unordered_set<Vertex> unreached: contract of the container, instantiated at the ghost vertices */
bool UNR[MAXN]; size_t nun;
void uset_insert(size_t v)
__CPROVER_requires(v < vp_n && !UNR[v])
__CPROVER_assigns(UNR[v], nun)
__CPROVER_ensures(UNR[v] && nun == __CPROVER_old(nun) + 1)
;
bool uset_empty(void)
__CPROVER_assigns()
__CPROVER_ensures(__CPROVER_return_value == (nun == 0))
/* an empty set has no member (instantiated at the ghost vertices) */
__CPROVER_ensures(__CPROVER_return_value ==> (!UNR[g0] && !UNR[x0] && !UNR[y0]))
;
size_t uset_begin(void)
__CPROVER_requires(nun > 0)
__CPROVER_assigns()
__CPROVER_ensures(__CPROVER_return_value < vp_n && UNR[__CPROVER_return_value])
;
size_t uset_find(size_t w)
__CPROVER_requires(w < vp_n)
__CPROVER_assigns()
__CPROVER_ensures(__CPROVER_return_value == (UNR[w] ? w : NONE))
__CPROVER_ensures(UNR[w] ==> nun > 0)
;
void uset_erase(size_t v)
__CPROVER_requires(v < vp_n && UNR[v] && nun > 0)
__CPROVER_assigns(UNR[v], nun)
__CPROVER_ensures(!UNR[v] && nun == __CPROVER_old(nun) - 1)
;
/* ---- the graph: contracts of boost::out_edges / boost::target, functional at the ghost slots */
size_t out_degree(size_t u)
__CPROVER_assigns()
__CPROVER_ensures((u == x0 ==> __CPROVER_return_value == d_x0) && (u == y0 ==> __CPROVER_return_value == d_y0))
#ifdef VP_BOUNDED
__CPROVER_ensures(__CPROVER_return_value <= 2)      /* bounded variant only: degrees <= 2 */
#endif
;
size_t out_target(size_t u, size_t j)
__CPROVER_assigns()
__CPROVER_ensures(__CPROVER_return_value < vp_n)
__CPROVER_ensures(((u == x0 && j == j0) ==> __CPROVER_return_value == y0) && ((u == y0 && j == j1) ==> __CPROVER_return_value == x0))
;
size_t out_edge(size_t u, size_t j)
__CPROVER_requires(1)
__CPROVER_assigns()
__CPROVER_ensures(1)
;
/* ---- std::queue<Vertex> as array + head/tail; output iterator as arrays; ghost records */
size_t Q[MAXN], head, tail;
size_t EM[MAXN], EMU[MAXN], EMW[MAXN], EMP[MAXN], vp_emitted;
size_t QPOS[MAXN], COMP[MAXN], POSOF[MAXN], ROOTOF[MAXN]; bool ISROOT[MAXN];
#define REACHED(v) ((v) < vp_n && !UNR[v])
"""


def _unit(bounded, stage=3, which="main"):
    log = []
    rel = "include/parmcb/detail/spanning_forest.hpp"
    text = X.src(rel)
    body = X.body_after(text, r"std::size_t spanning_forest\(const Graph &g, OutputIterator spanning_forest_edges\)\s*", "spanning_forest")
    body = X.canon(body, [(r"std::size_t (\w+) = 0;\s*while \(", ["c"]), (r"VertexIt (\w+), (\w+);", ["ui", "uiend"]),
                          (r"auto (\w+) = unreached\.begin\(\);", ["vi"]), (r"auto (\w+) = \*vi;", ["v"]),
                          (r"auto (\w+) = queue\.front\(\);", ["u"]), (r"auto (\w+) = boost::out_edges\(u, g\);", ["eiRange"]),
                          (r"for \(auto (\w+) = eiRange\.first;", ["ei"]), (r"auto (\w+) = \*ei;", ["e"]),
                          (r"auto (\w+) = boost::target\(e, g\);", ["w"]), (r"auto (\w+) = unreached\.find\(w\);", ["wit"])], log)
    body = X.rewrite(body, [
        (r"boost::num_vertices\(g\)", "vp_n", 1, "container-api", ""),
        (r"typedef typename [^;]*;", "", 3, "drop", "typedefs"),
        (r"BOOST_CONCEPT_ASSERT\(\([^;]*\)\);", "", 2, "drop", "concept checks"),
        (r"std::queue<Vertex> queue;", "", 1, "container-api", "std::queue -> array Q + head/tail (empty on entry)"),
        (r"std::unordered_set<Vertex> unreached;", "", 1, "container-api", "std::unordered_set -> its contract (uset_*), empty on entry"),
        (r"VertexIt ui, uiend;", "size_t ui, uiend;", 1, "container-api", ""),
        (r"boost::tie\(ui, uiend\) = boost::vertices\(g\)", "ui = 0, uiend = vp_n", 1, "container-api", "vertex range = ordinals"),
        (r"unreached\.insert\(\*ui\);", "uset_insert(ui);", 1, "container-api", ""),
        (r"std::size_t c = 0;", "size_t c = 0;", 1, "type-binding", ""),
        (r"!unreached\.empty\(\)", "!uset_empty()", 1, "container-api", ""),
        (r"auto vi = unreached\.begin\(\);", "size_t vi = uset_begin();", 1, "container-api", "begin() of a non-empty set: some member"),
        (r"auto v = \*vi;", "size_t v = vi;", 1, "container-api", ""),
        (r"unreached\.erase\(vi\);", "uset_erase(vi); ISROOT[v] = 1; COMP[v] = c; ROOTOF[c] = v; hstart = head;", 1, "ghost",
         "erase + ghost: v is the root of component number c"),
        (r"queue\.push\((\w+)\);", r"Q[tail] = \1; QPOS[\1] = tail; tail++;", 2, "ghost", "push + ghost queue position"),
        (r"!queue\.empty\(\)", "head != tail", 1, "container-api", ""),
        (r"auto u = queue\.front\(\);", "size_t u = Q[head]; __CPROVER_assert(head != p0 || (u < vp_n && !UNR[u]), \"K15a.queue: the queue holds reached vertices of the graph (p0 arbitrary)\");", 1, "ghost",
         "front() + ghost assertion at the arbitrary queue position p0"),
        (r"queue\.pop\(\);", "head++;", 1, "container-api", ""),
        (r"auto eiRange = boost::out_edges\(u, g\);", "size_t eiRange_second = out_degree(u);", 1, "container-api", "out_edges(u,g) = slots 0..out_degree(u)"),
        (r"for \(auto ei = eiRange\.first; ei != eiRange\.second; ei\+\+\)", "for (size_t ei = 0; ei != eiRange_second; ei++)", 1, "container-api", ""),
        (r"auto e = \*ei;", "size_t e = out_edge(u, ei);", 1, "container-api", ""),
        (r"auto w = boost::target\(e, g\);", "size_t w = out_target(u, ei);", 1, "container-api", "far endpoint of the out-edge at this slot"),
        (r"auto wit = unreached\.find\(w\);", "size_t wit = uset_find(w);", 1, "container-api", ""),
        (r"wit (==|!=) unreached\.end\(\)", r"wit \1 NONE", 1, "container-api", ""),
        (r"unreached\.erase\(wit\);", "uset_erase(wit); COMP[w] = c; ISROOT[w] = 0;", 1, "ghost", "erase + ghost: w joins the current component as a non-root"),
        (r"\*spanning_forest_edges\+\+ = e;", "EM[vp_emitted] = e; EMU[vp_emitted] = u; EMW[vp_emitted] = w; EMP[vp_emitted] = head - 1; POSOF[w] = vp_emitted; vp_emitted++;", 1, "ghost",
         "output iterator + ghost: edge at position vp_emitted discovered w from u"),
    ], log)
    # ---- invariants -------------------------------------------------------------------------------------------
    # facts about one ghost vertex v that hold at every loop head once the initialisation loop is done
    def vfacts(v, cur):
        # cur: True inside the exploration of component c, False at the outer loop head
        s = "(REACHED(%(v)s) ==> (" + ("COMP[%(v)s] <= c" if cur else "COMP[%(v)s] < c && QPOS[%(v)s] < head")
        s += (" && QPOS[%(v)s] < tail && Q[QPOS[%(v)s]] == %(v)s"
              " && (ISROOT[%(v)s] ==> ROOTOF[COMP[%(v)s]] == %(v)s)"
              " && (!ISROOT[%(v)s] ==> (POSOF[%(v)s] < vp_emitted && EMW[POSOF[%(v)s]] == %(v)s))")
        if cur:
            s += " && ((QPOS[%(v)s] >= hstart) == (COMP[%(v)s] == c))"
        s += "))"
        return s % dict(v=v)

    def closure(a, b, ja, extra_done):
        # slot (a,ja)->b : once a has been popped and scanned, b is reached and has a's label
        return "((REACHED(%(a)s) && (%(done)s)) ==> (REACHED(%(b)s) && COMP[%(b)s] == COMP[%(a)s]))" % dict(a=a, b=b, done=extra_done)

    emitted = ("(q0 < vp_emitted ==> (EMW[q0] < vp_n && !UNR[EMW[q0]] && POSOF[EMW[q0]] == q0 && !ISROOT[EMW[q0]] && EMP[q0] < QPOS[EMW[q0]] && QPOS[EMW[q0]] < tail"
               " && Q[EMP[q0]] == EMU[q0] && (EMP[q0] == p0 ==> (EMU[q0] < vp_n && !UNR[EMU[q0]] && QPOS[EMU[q0]] == p0 && COMP[EMU[q0]] == COMP[EMW[q0]]))))")
    # the queue at an arbitrary position p0: a reached vertex sitting at exactly this position, labelled c iff pushed during the current exploration
    qfacts_outer = "(p0 < tail ==> (Q[p0] < vp_n && !UNR[Q[p0]] && QPOS[Q[p0]] == p0 && COMP[Q[p0]] < c))"
    qfacts_inner = "(p0 < tail ==> (Q[p0] < vp_n && !UNR[Q[p0]] && QPOS[Q[p0]] == p0 && COMP[Q[p0]] <= c && ((p0 >= hstart) == (COMP[Q[p0]] == c))))"
    counts_outer = "(nun == vp_n || c >= 1) && nun <= vp_n && c <= vp_n && vp_emitted <= vp_n && vp_emitted + c + nun == vp_n && head == tail && tail + nun == vp_n"
    counts_inner = "nun < vp_n && c < vp_n && vp_emitted < vp_n && vp_emitted + c + 1 + nun == vp_n && head <= tail && tail + nun == vp_n && hstart <= head && hstart < tail"
    inv_init = ("__CPROVER_assigns(ui, nun, __CPROVER_object_whole(UNR))\n"
                "__CPROVER_loop_invariant(ui <= vp_n && uiend == vp_n && nun == ui && (g0 < ui ==> UNR[g0]) && (x0 < ui ==> UNR[x0]) && (y0 < ui ==> UNR[y0])"
                " && (g0 >= ui ==> !UNR[g0]) && (x0 >= ui ==> !UNR[x0]) && (y0 >= ui ==> !UNR[y0]))\n"
                "__CPROVER_decreases(vp_n - ui)")
    big_assigns = ("nun, head, tail, vp_emitted, hstart, __CPROVER_object_whole(EMP), __CPROVER_object_whole(UNR), __CPROVER_object_whole(Q), __CPROVER_object_whole(QPOS), __CPROVER_object_whole(COMP),"
                   " __CPROVER_object_whole(POSOF), __CPROVER_object_whole(ROOTOF), __CPROVER_object_whole(ISROOT), __CPROVER_object_whole(EM), __CPROVER_object_whole(EMU), __CPROVER_object_whole(EMW)")
    def pick(parts):
        # parts: list of (min stage, text)
        return " && ".join(t for st, t in parts if stage >= st)
    inv_outer = ("__CPROVER_assigns(c, %s)\n__CPROVER_loop_invariant(%s)\n__CPROVER_decreases(nun)" % (
        big_assigns, pick([(1, counts_outer), (2, qfacts_outer), (2, vfacts("g0", False)), (3, vfacts("x0", False)), (3, vfacts("y0", False)), (2, emitted),
        (3, closure("x0", "y0", "j0", "1")), (3, closure("y0", "x0", "j1", "1"))])))
    inv_bfs = ("__CPROVER_assigns(%s)\n__CPROVER_loop_invariant(%s)\n__CPROVER_decreases(vp_n - head)" % (
        big_assigns.replace("hstart, ", ""), pick([(1, counts_inner), (2, qfacts_inner), (2, vfacts("g0", True)), (3, vfacts("x0", True)), (3, vfacts("y0", True)), (2, emitted),
        (3, closure("x0", "y0", "j0", "QPOS[x0] < head")), (3, closure("y0", "x0", "j1", "QPOS[y0] < head"))])))
    inv_scan = ("__CPROVER_assigns(ei, %s)\n__CPROVER_loop_invariant(ei <= eiRange_second && head >= 1 && hstart < head && Q[head - 1] == u && %s)\n"
                "__CPROVER_decreases(eiRange_second - ei)" % (
        big_assigns.replace("head, ", "").replace("hstart, ", ""), pick([(1, counts_inner), (2, qfacts_inner), (2, vfacts("g0", True)), (3, vfacts("x0", True)), (3, vfacts("y0", True)), (2, emitted),
        (3, closure("x0", "y0", "j0", "QPOS[x0] + 1 < head || (QPOS[x0] + 1 == head && ei > j0)")),
        (3, closure("y0", "x0", "j1", "QPOS[y0] + 1 < head || (QPOS[y0] + 1 == head && ei > j1)"))])))
    cut = body.find("size_t c = 0;")
    if cut < 0:
        raise Undecided("extraction out of date: declaration of the component counter")
    fill_body, body = body[:cut], body[cut:]
    if len(X.loops(fill_body)) != 1:
        raise Undecided("extraction out of date: the initialisation part has %d loops" % len(X.loops(fill_body)))
    if which == "fill":
        return _fill_unit(fill_body, log, rel)
    if not bounded:
        body = X.splice_loop_contracts(body, {0: inv_outer, 1: inv_bfs, 2: inv_scan}, log)
    p2 = r"""/* P2: the emitted edge at an arbitrary position q0 joins an earlier vertex to the vertex it discovered */
__CPROVER_ensures(q0 < vp_emitted ==> (EMW[q0] < vp_n && POSOF[EMW[q0]] == q0 && !ISROOT[EMW[q0]] && EMP[q0] < QPOS[EMW[q0]] && Q[EMP[q0]] == EMU[q0]))
__CPROVER_ensures((q0 < vp_emitted && EMP[q0] == p0) ==> (EMU[q0] < vp_n && QPOS[EMU[q0]] == p0 && COMP[EMU[q0]] == COMP[EMW[q0]]))      /* p0 arbitrary: holds for the parent's position */
/* queue positions are a well-defined discovery order: the vertex at an arbitrary position p0 sits only there */
__CPROVER_ensures(p0 < tail ==> (Q[p0] < vp_n && QPOS[Q[p0]] == p0))
/* P3: every vertex is reached, as a component root or as the child end of exactly one emitted edge */
__CPROVER_ensures(!UNR[g0] && (ISROOT[g0] || (POSOF[g0] < vp_emitted && EMW[POSOF[g0]] == g0)))
/* P4a: labels are below the returned count, each label has one root */
__CPROVER_ensures(COMP[g0] < __CPROVER_return_value && (ISROOT[g0] ==> ROOTOF[COMP[g0]] == g0))
"""
    p4 = r"""/* P4b: adjacent vertices share their label */
__CPROVER_ensures(COMP[x0] == COMP[y0])
"""
    post = (p2 if stage >= 2 else "") + (p4 if stage >= 3 else "")
    fn = r"""
size_t hstart;      /* ghost: queue position at which the exploration of the current component started */
size_t forest(void)
/* state after the initialisation part (its contract, unit K15a_fill): every vertex is in the set, nun == n; queue and output empty */
__CPROVER_requires(vp_n >= 1 && vp_n <= MAXN && nun == vp_n && head == 0 && tail == 0 && vp_emitted == 0)
__CPROVER_requires(g0 < vp_n && x0 < vp_n && y0 < vp_n && j0 < d_x0 && j1 < d_y0 && (x0 == y0 ==> d_x0 == d_y0))    /* the ghost slots exist */
#ifdef VP_BOUNDED
__CPROVER_requires(d_x0 <= 2 && d_y0 <= 2)
#endif
__CPROVER_requires(UNR[g0] && UNR[x0] && UNR[y0])
__CPROVER_assigns(nun, head, tail, vp_emitted, hstart, __CPROVER_object_whole(EMP), __CPROVER_object_whole(UNR), __CPROVER_object_whole(Q), __CPROVER_object_whole(QPOS), __CPROVER_object_whole(COMP),
                  __CPROVER_object_whole(POSOF), __CPROVER_object_whole(ROOTOF), __CPROVER_object_whole(ISROOT), __CPROVER_object_whole(EM), __CPROVER_object_whole(EMU), __CPROVER_object_whole(EMW))
/* P1: component count and number of emitted edges */
__CPROVER_ensures(vp_n > 0 ==> (__CPROVER_return_value >= 1 && __CPROVER_return_value <= vp_n && vp_emitted + __CPROVER_return_value == vp_n))
%s
{%s}
size_t vp_in_n;
void h_forest(void) {
  vp_in_n = vp_n;
  size_t r = forest();
  __CPROVER_assert(0, "VP_REACH end of harness");
}
""" % (post, body)
    if bounded:
        return _bounded_unit(body, post, log, rel)
    name = "K15a_spanning_forest" + ("_bounded" if bounded else "")
    spec = dict(unit=name, site="K15a_spanning_forest", lang="c", source=rel + " (parmcb::detail::spanning_forest)",
                text=("#define VP_BOUNDED 1\n" if bounded else "") + PRE % dict(MAXN="3" if bounded else MAXN_PROOF) + fn, entry="h_forest", enforce="forest",
                replace=["uset_empty", "uset_begin", "uset_find", "uset_erase", "out_degree", "out_target", "out_edge"],
                rewrites=log, timeout=2400, split=16, flags=["--object-bits", "12"], dropped=["template header; typedefs; concept checks"],
                assumptions=["contracts of std::unordered_set (insert/empty/begin/find/erase), std::queue (FIFO array), boost::out_edges/target (a fixed adjacency structure, "
                             "symmetric: the ghost slot (x0,j0)->y0 has a reverse slot (y0,j1)->x0) - assumed dependency contracts",
                             "informal lemma: P1-P4 imply 'c = number of connected components and the emitted edges are a spanning forest' (DESIGN 10.7); bounded stand-in e3_components[C16]"],
                trusted=["cbmc 6.11 + DFCC, SAT back end"])
    if bounded:
        spec.update(mode="bounded", bound="n <= 3, degrees <= 2, unwound", unwind=5, split=0, functions={"detail::spanning_forest": "bounded(n<=3)"})
    else:
        spec.update(mode="proof", bound="proved(n<=%s): three nested loops closed by loop contracts, degrees / multi-edges / self-loops unbounded; the cap is the size of the arrays the containers are bound to" % MAXN_PROOF,
                    loop_contracts=True, unwind=24, fallback=lambda: _unit(True), functions={"detail::spanning_forest (main loops)": "proved(n<=%s)" % MAXN_PROOF})
    return spec


PRE_BOUNDED = r"""
#include <stddef.h>
typedef _Bool bool;
#define MAXN 3
#define MAXD 2
#define NONE ((size_t) -1)
size_t vp_n;
size_t x0, j0, y0, j1, d_x0, d_y0, g0, q0, p0;
/* executable models of the dependencies (bounded variant only): the set is its membership table, the graph an adjacency table */
bool UNR[MAXN]; size_t nun;
bool uset_empty(void) { return nun == 0; }
size_t uset_begin(void) { size_t v; __CPROVER_assume(v < vp_n && UNR[v]); return v; }
size_t uset_find(size_t w) { return UNR[w] ? w : NONE; }
void uset_erase(size_t v) { __CPROVER_assert(v < vp_n && UNR[v], "uset_erase precondition: an element of the set"); UNR[v] = 0; nun--; }
size_t DEG[MAXN], ADJ[MAXN][MAXD], AE[MAXN][MAXD];
size_t out_degree(size_t u) { return DEG[u]; }
size_t out_target(size_t u, size_t j) { return ADJ[u][j]; }
size_t out_edge(size_t u, size_t j) { return AE[u][j]; }
size_t Q[MAXN], head, tail;
size_t EM[MAXN], EMU[MAXN], EMW[MAXN], EMP[MAXN], vp_emitted;
size_t QPOS[MAXN], COMP[MAXN], POSOF[MAXN], ROOTOF[MAXN]; bool ISROOT[MAXN];
#define REACHED(v) ((v) < vp_n && !UNR[v])
size_t hstart;
"""


def _bounded_unit(body, post, log, rel):
    """plain CBMC (no DFCC): all loops unwound, dependencies by executable models, the contract as assume/assert in the harness"""
    import re
    ens = re.findall(r"__CPROVER_ensures\((.*)\)\s*(?:/\*.*)?$", post, re.M)
    asserts = "\n".join('  __CPROVER_assert(%s, "K15a.post.%d");' % (e.replace("__CPROVER_return_value", "r"), i + 2) for i, e in enumerate(ens))
    body = body.replace('__CPROVER_assert(head != p0', '__CPROVER_assert(head != p0')   # ghost assertion kept
    fn = r"""
size_t forest(void) {%s}
size_t vp_in_n;
void h_forest(void) {
  __CPROVER_assume(vp_n >= 1 && vp_n <= MAXN);
  for (size_t v = 0; v < MAXN; v++) {
    UNR[v] = v < vp_n; __CPROVER_assume(DEG[v] <= MAXD);
    for (size_t j = 0; j < MAXD; j++) __CPROVER_assume(ADJ[v][j] < vp_n);
  }
  nun = vp_n; head = 0; tail = 0; vp_emitted = 0;
  __CPROVER_assume(g0 < vp_n && x0 < vp_n && y0 < vp_n && j0 < DEG[x0] && j1 < DEG[y0] && ADJ[x0][j0] == y0 && ADJ[y0][j1] == x0);
  d_x0 = DEG[x0]; d_y0 = DEG[y0];
  vp_in_n = vp_n;
  size_t r = forest();
  __CPROVER_assert(r >= 1 && r <= vp_n && vp_emitted + r == vp_n, "K15a.post.1");
%s
  __CPROVER_assert(0, "VP_REACH end of harness");
}
""" % (body, asserts)
    return dict(unit="K15a_spanning_forest_bounded", site="K15a_spanning_forest", lang="c", source=rel + " (parmcb::detail::spanning_forest)",
                text=PRE_BOUNDED + fn, entry="h_forest", rewrites=log, timeout=900, unwind=5, mode="bounded", flags=["--nondet-static"],
                bound="n <= 3, degrees <= 2, all loops unwound; dependencies by executable models", functions={"detail::spanning_forest": "bounded(n<=3)"},
                trusted=["cbmc 6.11 SAT back end"])


def _fill_unit(fill_body, log, rel):
    """the part before the main loops: early return for the empty graph + insertion of every vertex; the loop is UNWOUND (n <= MAXF):
    that n pairwise distinct insertions into an empty set give a set of n elements needs the whole membership table, not a ghost element."""
    MAXF = 24
    fn = r"""
size_t vp_early;      /* ghost: the function returned before the main loops */
size_t fill(void)
__CPROVER_requires(vp_n <= MAXN && nun == 0)
__CPROVER_assigns(nun, vp_early, __CPROVER_object_whole(UNR))
__CPROVER_ensures(vp_n == 0 ==> (vp_early == 1 && __CPROVER_return_value == 0))                 /* empty graph: 0 components, nothing emitted */
__CPROVER_ensures(vp_n > 0 ==> (vp_early == 0 && nun == vp_n && (g0 < vp_n ==> UNR[g0]) && (g0 >= vp_n && g0 < MAXN ==> !UNR[g0])))
{
  vp_early = 1;
  %s
  vp_early = 0;
  return 0;
}
void h_fill(void) {
  __CPROVER_assume(vp_n <= MAXN);
  for (size_t i = 0; i < MAXN; i++) UNR[i] = 0;      /* std::unordered_set default constructor: empty */
  nun = 0;
  size_t r = fill();
  __CPROVER_assert(0, "VP_REACH end of harness");
}
""" % fill_body
    return dict(unit="K15a_fill", site="K15a_fill", lang="c", source=rel + " (spanning_forest: empty-graph return + initialisation of the unreached set)",
                text=PRE % dict(MAXN=str(MAXF)) + fn, entry="h_fill", enforce="fill", replace=["uset_insert"], rewrites=log, timeout=900,
                flags=["--object-bits", "12"], unwind=MAXF + 2, mode="bounded",
                bound="n <= %d, the insertion loop unwound (cardinality of a set of n distinct values needs the whole table)" % MAXF,
                functions={"detail::spanning_forest (initialisation)": "bounded(n<=%d)" % MAXF},
                assumptions=["contract of std::unordered_set::insert; boost::vertices(g) enumerates n pairwise distinct descriptors 0..n-1 (vecS)"],
                trusted=["cbmc 6.11 + DFCC, SAT back end"])


def units(tier, stage=3):
    global MAXN_PROOF
    # the cap is only the size of the arrays the containers are bound to (no ghost table is defined by a harness loop);
    # the solver time grows with it (5: ~2 min on 16 cores, 8: ~10 min)
    MAXN_PROOF = "8" if tier == "thorough" else "5"
    return [X.guarded("K15a_fill", _unit, False, stage, "fill"), X.guarded("K15a_spanning_forest", _unit, False, stage)]
