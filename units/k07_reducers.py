"""K7: the reduction operators (cycle_min lambdas x4, SerializableMinOddCycleMinOp) and the
identity element handed to tbb::parallel_reduce.  Loop-free, full input domain => proof.

Binding (rule kinds 1 and 2 of DESIGN 2.1): cycle_t = std::tuple<std::set<Edge>,WeightType,bool>
becomes a C struct whose first field is an opaque identity of the edge set (the operator never
inspects the set); std::get<I>(c) -> field access; compare = std::less<WeightType> -> '<'."""
import re
from lib import xtract as X
from lib.core import Undecided

SITES = [
    ("sptrees_lookup", "include/parmcb/sptrees.hpp", (r"auto cycle_min = \[compare\]", 0, 1)),
    ("signed_tbb_all_vertices", "include/parmcb/parmcb_sva_signed_tbb.hpp", (r"auto cycle_min = \[&\]", 0, 2)),
    ("signed_tbb_less_than", "include/parmcb/parmcb_sva_signed_tbb.hpp", (r"auto cycle_min = \[&\]", 1, 2)),
    ("mpi_signed", "include/parmcb/mpi/parmcb_sva_signed.hpp", (r"auto cycle_min = \[compare\]", 0, 1)),
]

PRELUDE = r"""
#include <stddef.h>
typedef %(W)s W;
typedef struct { unsigned long edges; W weight; _Bool exists; } cycle_t;
#define GET0(c) ((c).edges)
#define GET1(c) ((c).weight)
#define GET2(c) ((c).exists)
#define VP_LESS(a, b) ((a) < (b))
#define SAME(a,b) ((a).edges==(b).edges && (a).weight==(b).weight && (a).exists==(b).exists)
#define WOK(c) ((c).weight == (c).weight && ((c).exists == 0 || (c).exists == 1))  /* not NaN; bool is a valid bool */
#define VIEWEQ(a,b) ((a).exists==(b).exists && (!(a).exists || (a).weight==(b).weight))
"""

CONTRACT = r"""
__CPROVER_requires(WOK(c1) && WOK(c2))
__CPROVER_ensures(SAME(__CPROVER_return_value, c1) || SAME(__CPROVER_return_value, c2))
__CPROVER_ensures(__CPROVER_return_value.exists == (c1.exists || c2.exists))
__CPROVER_ensures((c1.exists && c2.exists) ==> (__CPROVER_return_value.weight <= c1.weight && __CPROVER_return_value.weight <= c2.weight))
__CPROVER_ensures((c1.exists && !c2.exists) ==> SAME(__CPROVER_return_value, c1))
__CPROVER_ensures((!c1.exists && c2.exists) ==> SAME(__CPROVER_return_value, c2))
__CPROVER_ensures((!c1.exists && !c2.exists) ==> !__CPROVER_return_value.exists)
%(TIE)s
__CPROVER_assigns()
"""
# lambdas keep the LEFT operand on ties (deterministic across join trees on the weight view);
# the MPI MinOp keeps the right one - both are fine for the view, the clause is site specific.
TIE_LEFT = "__CPROVER_ensures((c1.exists && c2.exists && c1.weight == c2.weight) ==> SAME(__CPROVER_return_value, c1))"
TIE_ANY = ""

HARNESS = r"""
cycle_t vp_in_c1, vp_in_c2;
void h_op(void) {
  cycle_t a, b;
  vp_in_c1 = a; vp_in_c2 = b;
  cycle_t r = OP(a, b);
  (void)r;
  __CPROVER_assert(0, "VP_REACH end of harness");
}
"""

LEMMA = r"""
/* lemma over the CONTRACT only (calls replaced by the contract): on the (exists,weight) view the
   operator is associative, commutative, and `id` (exists=false) is a two-sided identity. */
cycle_t vp_in_a, vp_in_b, vp_in_c;
void h_lemma(void) {
  cycle_t a, b, c, id;
  __CPROVER_assume(WOK(a) && WOK(b) && WOK(c) && WOK(id));
  __CPROVER_assume(!id.exists);
  vp_in_a = a; vp_in_b = b; vp_in_c = c;
  cycle_t ab = OP(a, b), bc = OP(b, c), ba = OP(b, a);
  cycle_t l = OP(ab, c), r = OP(a, bc);
  __CPROVER_assert(VIEWEQ(l, r), "lemma.assoc: op(op(a,b),c) ~ op(a,op(b,c)) on the (exists,weight) view");
  __CPROVER_assert(VIEWEQ(ab, ba), "lemma.commut: op(a,b) ~ op(b,a) on the view");
  cycle_t ai = OP(a, id), ia = OP(id, a);
  __CPROVER_assert(VIEWEQ(ai, a) && VIEWEQ(ia, a), "lemma.identity: not-found is a two-sided identity on the view");
  __CPROVER_assert(0, "VP_REACH end of lemma harness");
}
"""


def _lambda_fn(site, rel, anchor, W, log):
    text = X.src(rel)
    # parameter names of the lambda are local to it: bind them to c1 / c2 (N2)
    ms = list(re.finditer(anchor[0] + r"\s*\(const cycle_t &(\w+), const cycle_t &(\w+)\)", text))
    if len(ms) != anchor[2]:
        raise Undecided("extraction out of date: cycle_min lambda header at " + site)
    p1, p2 = ms[anchor[1]].groups()
    body = X.body_after(text, anchor, "cycle_min lambda " + site)
    if (p1, p2) != ("c1", "c2"):
        body = X.canon("(const cycle_t &%s, const cycle_t &%s)" % (p1, p2) + body, [(r"^\(const cycle_t &(\w+), const cycle_t &(\w+)\)", ["c1", "c2"])], log)
        body = body[body.index(")") + 1:]
    body = X.rewrite(body, [
        (r"std::get<2>\((c[12])\)", r"GET2(\1)", (1, 8), "overload-resolution", "tuple field 2 = exists"),
        (r"std::get<1>\((c[12])\)", r"GET1(\1)", (0, 8), "overload-resolution", "tuple field 1 = weight"),
        (r"\bcompare\(", "VP_LESS(", (0, 4), "overload-resolution", "compare is std::less<WeightType>"),
    ], log)
    return "cycle_t OP(const cycle_t c1, const cycle_t c2)\n%s\n{%s}\n" % (CONTRACT % dict(TIE=TIE_LEFT), body)


def _minop_fn(W, log):
    rel = "include/parmcb/sptrees.hpp"
    text = X.src(rel)
    body = X.body_after(text, r"struct SerializableMinOddCycleMinOp\s*\{\s*const SerializableMinOddCycleMinOddCycle".replace("MinOddCycleMinOddCycle", "MinOddCycle") + r"<Graph, WeightMap>& operator\(\)\(", "MinOp operator()")
    body = X.rewrite(body, [
        (r"\b(lhs|rhs)\b", lambda m: "c1" if m.group(1) == "lhs" else "c2", (2, 20), "type-binding",
         "parameters lhs/rhs bound to c1/c2 (references -> values; operator only reads)"),
    ], log)
    return "cycle_t OP(const cycle_t c1, const cycle_t c2)\n%s\n{%s}\n" % (CONTRACT % dict(TIE=TIE_ANY), body)


def _identity_exprs(log):
    """second argument of every tbb::parallel_reduce whose join is cycle_min."""
    out = []
    for rel, total in (("include/parmcb/sptrees.hpp", 1), ("include/parmcb/parmcb_sva_signed_tbb.hpp", 2),
                       ("include/parmcb/mpi/parmcb_sva_signed.hpp", 2)):
        text = X.src(rel)
        for i in range(total):
            m = X._unique(text, (r"tbb::parallel_reduce\(\s*tbb::blocked_range<std::size_t>\(0, [^;{]*?\),\s*", i, total),
                          "parallel_reduce identity in " + rel)
            j = m.end()
            k = text.index("[&]", j)
            expr = text[j:k].rstrip().rstrip(",")
            expr = X.rewrite(expr, [
                (r"std::make_tuple\(std::set<Edge>\(\), \(std::numeric_limits<WeightType>::max\)\(\), (\w+)\)",
                 r"(cycle_t){0, W_MAX, \1}", 1, "type-binding", "identity tuple -> struct literal"),
            ], log)
            out.append((rel, i, expr))
    return out


def units(tier):
    res = []
    for W, wname, wmax in (("double", "double", "1.7976931348623157e308"), ("int", "int", "2147483647")):
        pre = PRELUDE % dict(W=W) + "#define W_MAX %s\n#define false 0\n#define true 1\n" % wmax
        fns = []
        for site, rel, anchor in SITES:
            log = []
            try:
                fns.append((site, rel, _lambda_fn(site, rel, anchor, W, log), log))
            except Undecided as e:
                res.append(dict(unit="K7_%s_%s_contract" % (site, wname), error=str(e)))
        log = []
        try:
            fns.append(("mpi_MinOp", "include/parmcb/sptrees.hpp", _minop_fn(W, log), log))
        except Undecided as e:
            res.append(dict(unit="K7_mpi_MinOp_%s_contract" % wname, error=str(e)))
        for site, rel, fn, log in fns:
            base = dict(lang="c", source=rel, rewrites=log,
                        dropped=["lambda capture list / template header / reference-ness of parameters"],
                        functions={"cycle_min/MinOp[%s,%s]" % (site, wname): "proved"},
                        assumptions=["weights are not NaN and the bool field holds 0/1 (type invariant, precondition of the contract)"],
                        trusted=["cbmc 6.11 SAT back end, IEEE double semantics of CBMC"])
            res.append(dict(base, unit="K7_%s_%s_contract" % (site, wname), text=pre + fn + HARNESS,
                            entry="h_op", enforce="OP", mode="proof", timeout=600))
            res.append(dict(base, unit="K7_%s_%s_lemma" % (site, wname), text=pre + fn + LEMMA,
                            entry="h_lemma", replace=["OP"], mode="proof", timeout=600))
        # identity elements
        log = []
        try:
            ids = _identity_exprs(log)
        except Undecided as e:
            res.append(dict(unit="K7_identity_%s" % wname, error=str(e)))
            continue
        body = "".join('  { cycle_t id = %s; __CPROVER_assert(!id.exists, "identity.%s.%d: identity passed to parallel_reduce has exists=false"); }\n'
                       % (e, rel.split("/")[-1], i) for rel, i, e in ids)
        txt = pre + "void h_id(void) {\n" + body + '  __CPROVER_assert(0, "VP_REACH end");\n}\n'
        res.append(dict(lang="c", unit="K7_identity_%s" % wname, text=txt, entry="h_id", mode="proof", timeout=600,
                        source="parallel_reduce call sites", rewrites=log, dropped=[],
                        functions={"parallel_reduce identity x%d [%s]" % (len(ids), wname): "proved"}))
    return res
