"""K22: parmcb::SpVecFP (include/parmcb/spvecfp.hpp) through CBMC's C++ front end (E2, bounded).

The header cannot be included unmodified: the front end cannot resolve a partially specified function
template (`boost::get<0>(entry)`: "not enough template arguments").  A COPY of the header is made on
every run with exactly three mechanical edits, each with a must-fire count:
   boost::get<I>(          -> VP_GET_I(            (field access of the tuple stub)
   boost::make_tuple(      -> entry_type(          (constructor of the tuple stub)
   the free operator<< template (after the class) is dropped (uses `auto` outside the class; never instantiated)
plus -Dauto=const_iterator and -Dprivate=public as for SpVecGF2.  P = int, p symbolic in [2, 2^15),
scalars in [-2^15, 2^15] so that no product overflows (the header assumes "products fit")."""
import os, re
from lib import xtract as X
from lib.core import VERIF, REPO, WORK, ensure_dir, write, Undecided

HDR = "include/parmcb/spvecfp.hpp"

HARNESS = r"""
#define VP_GET_0(t) ((t).a_)
#define VP_GET_1(t) ((t).b_)
#include "spvecfp_copy.hpp"
typedef int P;
typedef parmcb::SpVecFP<P> V;
typedef boost::tuple<std::size_t, P> E;
P nondet_P(); unsigned long nondet_ul();
/* requires: arbitrary canonical state of length n over the field F_p */
static void mk(V &v, unsigned long n, P p) {
  unsigned long prev = 0;
  for (unsigned long i = 0; i < n; i++) {
    unsigned long idx = nondet_ul(); P val = nondet_P();
    __CPROVER_assume((i == 0 || idx > prev) && val >= 1 && val <= p - 1);
    v.entries.push_back(E(idx, val)); prev = idx;
  }
}
static P val(const V &v, unsigned long k) { P r = 0; for (unsigned long i = 0; i < v.entries.n_; i++) if (v.entries.data_[i].a_ == k) r = v.entries.data_[i].b_; return r; }
static bool canon(const V &v, P p) {
  for (unsigned long i = 0; i < v.entries.n_; i++) {
    if (!(v.entries.data_[i].b_ >= 1 && v.entries.data_[i].b_ <= p - 1)) return false;
    if (i > 0 && !(v.entries.data_[i - 1].a_ < v.entries.data_[i].a_)) return false;
  }
  return true;
}
static bool same(const V &a, const V &b) {
  if (a.entries.n_ != b.entries.n_ || a.p != b.p) return false;
  for (unsigned long i = 0; i < a.entries.n_; i++) if (a.entries.data_[i].a_ != b.entries.data_[i].a_ || a.entries.data_[i].b_ != b.entries.data_[i].b_) return false;
  return true;
}
static P norm(long x, P p) { long r = x % p; if (r < 0) r += p; return (P) r; }

extern "C" void h_add() {                 /* operator+ and operator+= */
  P p = nondet_P(); __CPROVER_assume(p >= 2 && p < 32768);
  V a(p), b(p); mk(a, NA, p); mk(b, NB, p);
  V a0(a), b0(b);
  unsigned long k = nondet_ul();
  V r = a + b;
  __CPROVER_assert(canon(r, p), "K22.plus.canon: indices increasing, stored values in 1..p-1");
  __CPROVER_assert(val(r, k) == norm((long) val(a0, k) + val(b0, k), p), "K22.plus.value: coordinate k = (a_k + b_k) mod p");
  __CPROVER_assert(r.prime() == p && same(a, a0) && same(b, b0), "K22.plus.frame");
  a += b;
  __CPROVER_assert(canon(a, p) && val(a, k) == norm((long) val(a0, k) + val(b0, k), p) && same(b, b0), "K22.pluseq");
  __CPROVER_assert(0, "VP_REACH end");
}
extern "C" void h_scale() {               /* operator*(scalar) */
  P p = nondet_P(); __CPROVER_assume(p >= 2 && p < PMUL);
  V a(p); mk(a, NA, p);
  V a0(a);
  P s = nondet_P(); __CPROVER_assume(s >= -PMUL && s <= PMUL);
  unsigned long k = nondet_ul();
  V r = a * s;
  __CPROVER_assert(canon(r, p), "K22.scale.canon: zero results are dropped, values in 1..p-1");
  __CPROVER_assert(val(r, k) == norm((long) val(a0, k) * s, p), "K22.scale.value: coordinate k = (a_k * s) mod p for any integer s");
  __CPROVER_assert(same(a, a0) && r.prime() == p, "K22.scale.frame");
  __CPROVER_assert(0, "VP_REACH end");
}
extern "C" void h_scaleeq() {             /* operator*= */
  P p = nondet_P(); __CPROVER_assume(p >= 2 && p < PMUL);
  V a(p); mk(a, NA, p);
  V a0(a);
  P s = nondet_P(); __CPROVER_assume(s >= -PMUL && s <= PMUL);
  unsigned long k = nondet_ul();
  a *= s;
  __CPROVER_assert(canon(a, p) && val(a, k) == norm((long) val(a0, k) * s, p), "K22.scaleeq");
  __CPROVER_assert(0, "VP_REACH end");
}
extern "C" void h_unit() {                /* operator=(index) */
  P p = nondet_P(); __CPROVER_assume(p >= 2 && p < 32768);
  unsigned long k = nondet_ul(), i = nondet_ul();
  V u(p); mk(u, NA, p); u = i;
  __CPROVER_assert(canon(u, p) && u.size() == 1 && val(u, k) == (k == i ? 1 : 0) && u.prime() == p, "K22.unit: v = i is the unit vector e_i");
  __CPROVER_assert(0, "VP_REACH end");
}
extern "C" void h_dot() {                 /* operator*(vector) */
  P p = nondet_P(); __CPROVER_assume(p >= 2 && p < PMUL);
  V a(p), b(p); mk(a, NA, p); mk(b, NB, p);
  V a0(a), b0(b);
  P d = a * b;
  long acc = 0;
  for (unsigned long i = 0; i < a0.entries.n_; i++) acc = (acc + (long) a0.entries.data_[i].b_ * val(b0, a0.entries.data_[i].a_)) % p;
  __CPROVER_assert(d == (P) acc, "K22.dot: sum of products of common coordinates mod p");
  __CPROVER_assert(d >= 0 && d < p && same(a, a0) && same(b, b0), "K22.dot.range+frame");
  __CPROVER_assert(0, "VP_REACH end");
}
"""


def _copy(log):
    text = X.src(HDR)
    i = text.find("template<typename P>\nstd::ostream& operator<<")
    if i < 0:
        raise Undecided("extraction out of date: free operator<< of SpVecFP not found")
    j = text.rfind("} // parmcb")
    text = text[:i] + text[j:]
    log.append(dict(pattern="free operator<< template", fired=1, expected=1, kind="drop", note="never instantiated; uses auto outside the class"))
    text = X.rewrite(text, [
        (r"boost::get<([01])>\(", r"VP_GET_\1(", 14, "overload-resolution", "tuple field access (front end cannot resolve partially specified function templates)"),
        (r"boost::make_tuple\(", "entry_type(", 7, "overload-resolution", "tuple construction"),
    ], log)
    n = len(re.findall(r"\bauto\b", text))
    if n != 5:
        raise Undecided("extraction out of date: %d `auto` in the class body of SpVecFP (validated for 5)" % n)
    log.append(dict(pattern="-Dauto=const_iterator", fired=n, expected=5, kind="type-binding", note="every auto in the class is a const_iterator"))
    return text


def _unit(entry, na, nb, tier, pmul=64):
    log = []
    text = _copy(log)
    wd = ensure_dir(os.path.join(WORK, "cbmc", "K22_spvecfp_%s_%dx%d" % (entry[2:], na, nb)))
    write(os.path.join(wd, "spvecfp_copy.hpp"), text)
    cap = max(1, na + nb)
    return dict(unit="K22_spvecfp_%s_%dx%d" % (entry[2:], na, nb), site="SpVecFP::" + entry[2:], lang="cpp",
                source=HDR + " (copy with 3 declared mechanical edits)", text=HARNESS, entry=entry, mode="bounded",
                bound="vector lengths (%d,%d), P=int, %s, loops unwound" % (na, nb, "p in [2,2^15)" if entry == "h_add" else "p in [2,%d), scalars in [-%d,%d]" % (pmul, pmul, pmul)),
                unwind=cap + 2, timeout=900 if tier == "quick" else 2400, flags=["--drop-unused-functions"],
                cc_flags=["-nostdinc", "-I", wd, "-I", os.path.join(VERIF, "stubs/cxx"), "-Dauto=const_iterator", "-Dprivate=public",
                          "-DPARMCB_INVARIANTS_CHECK", "-DNA=%d" % na, "-DNB=%d" % nb, "-DVP_CAP=%d" % cap, "-DPMUL=%d" % pmul],
                rewrites=log, dropped=["free operator<< template; serialize() is never instantiated"],
                functions={"SpVecFP::%s" % entry[2:]: "bounded(len<=%d, 15-bit p)" % max(na, nb)},
                assumptions=["stubs/cxx <vector> and boost::tuple stub are the assumed contracts of the containers",
                             "products fit the value type (P=int with 15-bit moduli and 16-bit scalars); multiprecision P only natively"],
                trusted=["cbmc 6.11 C++ front end + SAT back end"])


def units(tier):
    N = 2 if tier == "quick" else 3
    out = []
    for na in range(N + 1):
        for nb in range(N + 1):
            if tier != "quick" or na + nb <= 3:
                out.append(X.guarded("K22_spvecfp_add_%dx%d" % (na, nb), _unit, "h_add", na, nb, tier))
            if (na >= 1 or nb >= 1) and (tier != "quick" or na + nb <= 3):
                out.append(X.guarded("K22_spvecfp_dot_%dx%d" % (na, nb), _unit, "h_dot", na, nb, tier, 64 if na * nb <= 1 else 16))
        out.append(X.guarded("K22_spvecfp_unit_%dx0" % na, _unit, "h_unit", na, 0, tier))
    for na in range(0, (2 if tier == "quick" else 3)):
        out.append(X.guarded("K22_spvecfp_scale_%dx0" % na, _unit, "h_scale", na, 0, tier, 32 if na <= 1 else 16))
        out.append(X.guarded("K22_spvecfp_scaleeq_%dx0" % na, _unit, "h_scaleeq", na, 0, tier, 32 if na <= 1 else 16))
    return out
