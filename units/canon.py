"""Declaration shapes used for the alpha-renaming normalisation N2 (lib/xtract.canon): locals of the real code
are recognised by the SHAPE of their declaration and renamed to the names the rewrite rules and contracts use,
so that a renamed local is not an extraction break.  Names of parameters, members and functions are interface
and are NOT normalised."""

# the SVA main loops (parmcb_sva_signed.hpp, parmcb_sva_trees.hpp, parmcb_sva_signed_tbb.hpp, mpi/*)
MAINLOOP = [
    (r"std::set<std::size_t> (\w+);", ["cyclek"], 1),                       # coordinates of the cycle found in phase k
    (r"std::list<Edge> (\w+);", ["cyclek_edgelist"], 0),                    # the output list of that cycle
    (r"\bauto (\w+) = k;", ["min_support"], 0),                             # index chosen by the sparsest-support heuristic
    (r"for \(auto (\w+) = k \+ 1; \1 < csd;", ["r"], 0),                    # scan variable of that heuristic
    (r"for \(std::size_t (\w+) = k \+ 1; \1 < csd;", ["l"], 0),            # row variable of the support-update loop (named in the loop contracts)
]
