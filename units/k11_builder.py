"""K11-builder: REGISTERED as a BOUNDED unit (`_direct_small`): plain CBMC, loops unwound, trees <= 4/5 vertices, <= 6/8 edges,
weights 1..7, limit <= 63, with a direct specification walked by the harness.  What did not close (kept below as a record, see
DESIGN 10.5): the loop-contract proof against ghost root-path tables and the same bounded check with 30-bit weights - the width
of the weights, not the structure, was what the SAT back end could not digest.

K11-builder: CandidateCycleBuilder::operator() (include/parmcb/sptrees.hpp) as an E1 unit.

The function walks the predecessor edges of the candidate's tree from both endpoints of the closing
edge, collects them in a std::set, rejects on a repeated edge or when the running weight exceeds the
limit.  Binding: vertices / edges are ordinals, the tree of the candidate is given by tables (HASPRED,
PRED, PAR = parity set by update_parities), std::set<Edge> is a bit mask over at most 63 edges,
shared_ptr<SPNode> is the vertex id.  Ghost tables describe the tree (K12's postcondition): DEPTH (strictly
decreasing along predecessors - the termination measure), UPMASK[v] = set of edges on the root path of v,
UPW[v] = its weight; they are tied to PRED by an unwound harness loop.
Contract: found  <=>  the candidate is odd w.r.t. the witness AND the closing edge plus the two root
paths have no repeated edge (i.e. it is a simple cycle through the root) AND (no limit OR total weight
<= limit); when found the result is exactly that edge set and its true weight."""
from lib import xtract as X
from lib.core import Undecided

PRE = r"""
#include <stddef.h>
typedef _Bool bool;
#define true 1
#define false 0
#define MAXN %(MAXN)s
#define MAXM %(MAXM)s
typedef long W;
typedef struct { unsigned long edges; W weight; bool exists; } cycle_t;
size_t vp_n, vp_m;
bool HASPRED[MAXN + 1], PAR[MAXN + 1]; size_t PRED[MAXN + 1];
size_t SRC[MAXM + 1], TGT[MAXM + 1]; W WT[MAXM + 1];
size_t DEPTH[MAXN + 1]; unsigned long UPMASK[MAXN + 1]; W UPW[MAXN + 1];     /* ghost description of the tree */
#define OPP(a, w) (SRC[a] == (w) ? TGT[a] : SRC[a])
#define BIT(e) (1UL << (e))
static bool vp_insert(unsigned long *s, size_t a) { bool fresh = !((*s >> a) & 1UL); *s |= BIT(a); return fresh; }   /* std::set::insert(a).second */
"""


def _unit(bounded, capn=6, capm=16):
    log = []
    rel = "include/parmcb/sptrees.hpp"
    text = X.src(rel)
    body = X.body_after(text, r"const CandidateCycle<Graph, WeightMap> &c, const std::set<Edge> &signed_edges, bool use_weight_limit,\s*WeightType weight_limit\) const\s*",
                        "CandidateCycleBuilder::operator()")
    body = X.inline_temps(X.drop_local_const(body, log), log)
    body = X.canon(body, [(r"Vertex (\w+) = boost::source\(c\.edge\(\), g\);", ["w"]),
                          (r"std::shared_ptr<SPNode<Graph, WeightMap>> (\w+) = trees\[c\.tree\(\)\]\.node\(w\);", ["ws"])], log)
    body = X.rewrite(body, [
        (r"std::shared_ptr<SPNode<Graph, WeightMap>> (v|u) = trees\[c\.tree\(\)\]\.node\(boost::(source|target)\(c\.edge\(\), g\)\);",
         lambda m: "size_t %s = %s[vp_e];" % (m.group(1), "SRC" if m.group(2) == "source" else "TGT"), 2, "container-api", "node of an endpoint (exists: K14a) = its vertex id"),
        (r"Edge e = c\.edge\(\);", "size_t e = vp_e;", 1, "container-api", ""),
        (r"\b(v|u)->parity\(\)", r"PAR[\1]", 2, "container-api", "parity set by update_parities"),
        (r"signed_edges\.find\(e\) != signed_edges\.end\(\)", "((vp_S >> e) & 1UL)", 1, "container-api", "witness membership"),
        (r"WeightType cycle_weight =", "W cycle_weight =", 1, "type-binding", ""),
        (r"boost::get\(weight_map, (\w+)\)", r"WT[\1]", (2, 6), "container-api", ""),
        (r"std::set<Edge> result;", "unsigned long result = 0;", 1, "container-api", "std::set<Edge> -> mask"),
        (r"result\.insert\(e\);", "result |= BIT(e);", 1, "container-api", ""),
        (r"std::make_tuple\(std::set<Edge> \{ \}, 0\.0, false\)", "((cycle_t){0UL, 0, 0})", (2, 8), "type-binding", "not-found tuple"),
        (r"std::make_tuple\(result, cycle_weight, true\)", "((cycle_t){result, cycle_weight, 1})", 1, "type-binding", "found tuple"),
        (r"Vertex w = boost::(source|target)\(c\.edge\(\), g\);", lambda m: "size_t w = %s[vp_e];" % ("SRC" if m.group(1) == "source" else "TGT"), 1, "container-api", ""),
        (r"\bw = boost::(source|target)\(c\.edge\(\), g\);", lambda m: "w = %s[vp_e];" % ("SRC" if m.group(1) == "source" else "TGT"), 1, "container-api", ""),
        (r"std::shared_ptr<SPNode<Graph, WeightMap>> ws = trees\[c\.tree\(\)\]\.node\(w\);", "size_t ws = w;", 1, "container-api", ""),
        (r"\bws = trees\[c\.tree\(\)\]\.node\(w\);", "ws = w;", 3, "container-api", ""),
        (r"ws->has_pred\(\)", "HASPRED[ws]", 2, "container-api", ""),
        (r"Edge a = ws->pred\(\);", "size_t a = PRED[ws];", 2, "container-api", ""),
        (r"result\.insert\(a\)\.second == false", "!vp_insert(&result, a)", (0, 2), "container-api", "insert reports an element that was already there"),
        (r"!result\.insert\(a\)\.second", "!vp_insert(&result, a)", (0, 2), "container-api", "same, spelled with !"),
        (r"result\.insert\(a\);", "(void) vp_insert(&result, a);", (0, 2), "container-api", "insert whose report is ignored"),
        (r"w = boost::opposite\(a, w, g\);", "w = OPP(a, w);", 2, "container-api", "other endpoint"),
    ], log)
    inv1 = ("__CPROVER_assigns(w, ws, result, cycle_weight, valid)\n"
            "__CPROVER_loop_invariant(w < vp_n && ws == w && valid && (UPMASK[w] & ~UPMASK[SRC[vp_e]]) == 0)\n"
            "__CPROVER_loop_invariant(result == (BIT(vp_e) | (UPMASK[SRC[vp_e]] & ~UPMASK[w])))\n"
            "__CPROVER_loop_invariant(cycle_weight == WT[vp_e] + UPW[SRC[vp_e]] - UPW[w] && (!use_weight_limit || cycle_weight <= weight_limit))\n"
            "__CPROVER_loop_invariant((UPMASK[SRC[vp_e]] & ~UPMASK[w] & BIT(vp_e)) == 0)\n"
            "__CPROVER_decreases(DEPTH[w])")
    inv2 = ("__CPROVER_assigns(w, ws, result, cycle_weight, valid)\n"
            "__CPROVER_loop_invariant(w < vp_n && ws == w && valid && (UPMASK[w] & ~UPMASK[TGT[vp_e]]) == 0)\n"
            "__CPROVER_loop_invariant(result == (BIT(vp_e) | UPMASK[SRC[vp_e]] | (UPMASK[TGT[vp_e]] & ~UPMASK[w])))\n"
            "__CPROVER_loop_invariant(cycle_weight == WT[vp_e] + UPW[SRC[vp_e]] + UPW[TGT[vp_e]] - UPW[w] && (!use_weight_limit || cycle_weight <= weight_limit))\n"
            "__CPROVER_loop_invariant(((BIT(vp_e) | UPMASK[SRC[vp_e]]) & (UPMASK[TGT[vp_e]] & ~UPMASK[w])) == 0 && (UPMASK[SRC[vp_e]] & BIT(vp_e)) == 0)\n"
            "__CPROVER_decreases(DEPTH[w])")
    if not bounded:
        body = X.splice_loop_contracts(body, {0: inv1, 1: inv2}, log)
    fn = r"""
size_t vp_e; unsigned long vp_S;
#define VP_ODD (PAR[SRC[vp_e]] ^ PAR[TGT[vp_e]] ^ (bool)((vp_S >> vp_e) & 1UL))
#define VP_SIMPLE (((UPMASK[SRC[vp_e]] | UPMASK[TGT[vp_e]]) & BIT(vp_e)) == 0 && (UPMASK[SRC[vp_e]] & UPMASK[TGT[vp_e]]) == 0)
#define VP_TOTAL (WT[vp_e] + UPW[SRC[vp_e]] + UPW[TGT[vp_e]])
cycle_t build(bool use_weight_limit, W weight_limit)
__CPROVER_requires(vp_n <= MAXN && vp_m <= MAXM && vp_e < vp_m && SRC[vp_e] < vp_n && TGT[vp_e] < vp_n && use_weight_limit <= 1)
__CPROVER_requires(weight_limit >= 0 && weight_limit < 1000000000000L)
__CPROVER_assigns()
/* found <=> odd, simple (no repeated edge among closing edge + both root paths), within the limit */
__CPROVER_ensures(__CPROVER_return_value.exists == (VP_ODD && VP_SIMPLE && (!use_weight_limit || VP_TOTAL <= weight_limit)))
/* and then the result is exactly that cycle with its true weight */
__CPROVER_ensures(__CPROVER_return_value.exists ==> (__CPROVER_return_value.edges == (BIT(vp_e) | UPMASK[SRC[vp_e]] | UPMASK[TGT[vp_e]]) && __CPROVER_return_value.weight == VP_TOTAL))
{%s}
size_t vp_in_e; unsigned long vp_in_S;
void h_build(void) {
  bool ul; W lim;
  __CPROVER_assume(vp_n <= MAXN && vp_m <= MAXM);
  for (size_t i = 0; i <= MAXM; i++) __CPROVER_assume(SRC[i] < vp_n && TGT[i] < vp_n && SRC[i] != TGT[i] && WT[i] > 0 && WT[i] < 1000000000L);
  /* the tree (K12): every non-root node hangs under the other endpoint of its predecessor edge, one level deeper;
     UPMASK / UPW are the edge set and the weight of its root path; a root path never repeats an edge */
  for (size_t v = 0; v <= MAXN; v++) {
    __CPROVER_assume(PRED[v] < vp_m && HASPRED[v] <= 1 && PAR[v] <= 1 && DEPTH[v] <= MAXN);
    if (v < vp_n && HASPRED[v]) {
      size_t a = PRED[v];
      __CPROVER_assume(SRC[a] == v || TGT[a] == v);
      size_t p = OPP(a, v);
      __CPROVER_assume(DEPTH[v] == DEPTH[p] + 1 && (UPMASK[p] & BIT(a)) == 0 && UPMASK[v] == (UPMASK[p] | BIT(a)) && UPW[v] == UPW[p] + WT[a]);
    } else {
      __CPROVER_assume(DEPTH[v] == 0 && UPMASK[v] == 0 && UPW[v] == 0);
    }
    __CPROVER_assume(UPW[v] >= 0 && UPW[v] < 100000000000L);
  }
  vp_in_e = vp_e; vp_in_S = vp_S;
  cycle_t r = build(ul, lim); (void) r;
  __CPROVER_assert(0, "VP_REACH end of harness");
}
""" % body
    name = "K11_candidate_builder" + ("_bounded" if bounded else "")
    spec = dict(unit=name, site="K11_candidate_builder", lang="c", source=rel + " (CandidateCycleBuilder::operator())",
                text=PRE % dict(MAXN="4" if bounded else str(capn), MAXM="6" if bounded else str(capm)) + fn, entry="h_build", enforce="build", rewrites=log, timeout=1200,
                dropped=["class wrapper; the trees vector (the candidate's own tree is the tables)"],
                assumptions=["K12 / K11-parity: the tables describe a tree (predecessor edges lead to the root with decreasing depth, no repeated edge on a root path) and PAR is the parity of the root path w.r.t. the witness (bounded stand-ins)",
                             "both endpoints of the candidate's edge have tree nodes (K14a); <= 63 edges (mask), integer weights < 10^9"],
                trusted=["cbmc 6.11 + DFCC, SAT back end"])
    if bounded:
        spec.update(mode="bounded", bound="n<=4, m<=6, unwound", unwind=9, functions={"CandidateCycleBuilder::operator()": "bounded(n<=4)"})
    else:
        spec.update(mode="proof", bound="both walks closed by loop contracts with the tree depth as termination measure; table cap n<=%d (ghost tree description by an unwound harness loop), m<=%d" % (capn, capm),
                    loop_contracts=True, unwind=capm + 3, fallback=lambda: _unit(True), functions={"CandidateCycleBuilder::operator()": "proved(n<=%d) against the tree tables" % capn})
    return spec


def _direct_small(maxn, maxm, wmax=7):
    """Plain CBMC, loops unwound, SMALL weights (1..wmax) and a direct specification walked by the harness."""
    log = []
    rel = "include/parmcb/sptrees.hpp"
    spec = _unit(True, maxn, maxm)
    txt = spec["text"]
    i = txt.index("cycle_t build(bool use_weight_limit, W weight_limit)")
    j = txt.index("{", txt.index("__CPROVER_ensures(__CPROVER_return_value.exists ==>", i))
    k = txt.index("size_t vp_in_e; unsigned long vp_in_S;")
    body = txt[j:k]
    pre = txt[:i]
    harness = r"""
size_t vp_in_e; unsigned long vp_in_S; size_t vp_in_n, vp_in_m;
void h_direct(void) {
  bool ul; W lim;
  __CPROVER_assume(vp_n >= 2 && vp_n <= MAXN && vp_m >= 1 && vp_m <= MAXM && vp_e < vp_m && lim >= 0 && lim <= 63 && ul <= 1 && vp_S < (1UL << MAXM));
  for (size_t i = 0; i < MAXM; i++) __CPROVER_assume(SRC[i] < vp_n && TGT[i] < vp_n && SRC[i] != TGT[i] && WT[i] >= 1 && WT[i] <= %(WMAX)d);
  for (size_t v = 0; v < MAXN; v++) {
    __CPROVER_assume(PRED[v] < vp_m && HASPRED[v] <= 1 && PAR[v] <= 1 && DEPTH[v] < MAXN);
    if (v < vp_n && HASPRED[v]) { size_t a = PRED[v]; __CPROVER_assume((SRC[a] == v || TGT[a] == v) && DEPTH[v] == DEPTH[OPP(a, v)] + 1); }
  }
  vp_in_e = vp_e; vp_in_S = vp_S; vp_in_n = vp_n; vp_in_m = vp_m;
  /* specification: closing edge + the two root paths; a repeated edge means the candidate is not a simple cycle */
  unsigned long emask = BIT(vp_e); W ew = WT[vp_e]; bool dup = 0;
  for (int side = 0; side < 2; side++) {
    size_t w = side == 0 ? SRC[vp_e] : TGT[vp_e];
    for (size_t step = 0; step < MAXN; step++) if (HASPRED[w]) {
      size_t a = PRED[w];
      if (emask & BIT(a)) dup = 1;
      emask |= BIT(a); ew += WT[a]; w = OPP(a, w);
    }
  }
  bool odd = (bool)(PAR[SRC[vp_e]] ^ PAR[TGT[vp_e]] ^ (bool)((vp_S >> vp_e) & 1UL));
  bool expect = odd && !dup && (!ul || ew <= lim);
  cycle_t r = build(ul, lim);
  __CPROVER_assert(r.exists == expect, "K11-builder: found <=> odd, no repeated edge among closing edge + root paths, total weight within the limit");
  __CPROVER_assert(!r.exists || (r.edges == emask && r.weight == ew), "K11-builder: the result is that edge set with its true weight");
  __CPROVER_assert(0, "VP_REACH end of harness");
}
""" % dict(WMAX=wmax)
    head = "cycle_t build(bool use_weight_limit, W weight_limit)\n"
    out = dict(spec)
    out.update(unit="K11_candidate_builder", site="K11_candidate_builder", text=pre + head + body + harness, entry="h_direct", enforce=None, replace=[],
               flags=["--nondet-static"], unwind=max(maxn, maxm) + 2, timeout=1200, mode="bounded",
               bound="trees with <= %d vertices, <= %d edges, weights 1..%d, limit <= 63, all loops unwound; direct specification walked by the harness" % (maxn, maxm, wmax),
               functions={"CandidateCycleBuilder::operator()": "bounded(n<=%d, m<=%d, small weights)" % (maxn, maxm)})
    for key in ("fallback", "loop_contracts"):
        out.pop(key, None)
    return out


def units(tier):
    big = tier == "thorough"
    return [X.guarded("K11_candidate_builder", _direct_small, 5 if big else 4, 8 if big else 6, 7)]
