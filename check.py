#!/usr/bin/env python3
"""Entry point of the verification machinery.

  check.py <property id> [--tier quick|thorough]     decide one property (exit 0 / 1 / 2)
  check.py --replay <replay file>                    re-run one recorded counterexample
  check.py --setup                                   offline set-up (byte-compile, work dirs)
  check.py --list                                    properties with a registered check
"""
import sys, os, json, time, importlib, traceback
sys.path.insert(0, os.path.dirname(os.path.abspath(__file__)))
from lib import core
from lib.core import Report, Undecided


def main(argv):
    if len(argv) >= 2 and argv[1] == "--setup":
        import compileall
        compileall.compile_dir(os.path.join(core.VERIF, "lib"), quiet=1)
        compileall.compile_dir(os.path.join(core.VERIF, "units"), quiet=1)
        compileall.compile_dir(os.path.join(core.VERIF, "props"), quiet=1)
        for d in (core.WORK, core.EVID, core.REPLAYS):
            core.ensure_dir(d)
        print("setup ok")
        return 0
    if len(argv) >= 2 and argv[1] == "--list":
        for f in sorted(os.listdir(os.path.join(core.VERIF, "props"))):
            if f.startswith("c") and f.endswith(".py"):
                print(f[:-3].upper())
        return 0
    if len(argv) >= 3 and argv[1] == "--replay":
        from lib import replay
        return replay.replay(argv[2])
    if len(argv) < 2:
        print(__doc__)
        return 2
    pid = argv[1].upper()
    if "--tier" in argv:
        os.environ["VERIF_TIER"] = argv[argv.index("--tier") + 1]
    try:
        mod = importlib.import_module("props." + pid.lower())
    except ImportError as e:
        print("UNDECIDED no check registered for %s (%s)" % (pid, e))
        return 2
    rep = Report(pid, mod.LEVEL, mod.EXPLANATION)
    try:
        mod.run(rep)
    except Undecided as e:
        rep.undecided.append(str(e))
    except Exception as e:
        traceback.print_exc()
        rep.undecided.append("internal error in the checker: %r" % (e,))
    return rep.finish()


if __name__ == "__main__":
    sys.exit(main(sys.argv))
