"""check.py --replay <file>: re-run one recorded counterexample against /repo's working tree.
Exit 1 (and print the offending clause) if it still fails, 0 if it no longer does, 2 if undecidable."""
import json, os, sys, subprocess, importlib, io, contextlib
from . import native, core
from .core import VERIF, Undecided


def _compact(g):
    return json.dumps(g, separators=(",", ":"))


def _native_cmd(drv, inp):
    """(driver name, build kwargs, args) for drivers that have a single-case mode."""
    tbb = os.path.join(VERIF, "stubs/tbb_contract")
    mpi = os.path.join(VERIF, "stubs/mpi_contract")
    base = drv.split("[")[0]
    if not isinstance(inp, dict):
        return None
    if base == "e3_exact" and "graph" in inp:
        return "e3_exact", {}, ["--case", _compact(inp["graph"]), "--algo", inp.get("algo", ""), "--wtype", inp.get("wtype", "double")]
    if base == "e3_approx" and "graph" in inp:
        return "e3_approx", {}, ["--case", _compact(inp["graph"]), "--algo", inp.get("algo", ""), "--k", str(inp.get("k", 2)),
                                 "--wtype", inp.get("wtype", "double")]
    if base == "e3_tbb" and "graph" in inp:
        a = ["--case", _compact(inp["graph"]), "--algo", inp.get("algo", ""), "--k", str(inp.get("k", 2))]
        if "tape_seed" in inp:
            a += ["--tape-seed", str(inp["tape_seed"])]
        if "real" in drv:
            return "e3_tbb_real", dict(source=os.path.join(VERIF, "harness/e3_tbb.cpp"), flags=("-DVP_REAL_TBB",)), a
        return "e3_tbb", dict(incfirst=(tbb,), libs=("-lboost_timer",)), a
    if base == "e3_mpi" and "graph" in inp:
        return "e3_mpi", dict(incfirst=(mpi, tbb), libs=("-lboost_timer", "-lboost_serialization")), \
            ["--case", _compact(inp["graph"]), "--algo", inp.get("algo", ""), "--P", str(inp.get("P", 2)),
             "--layout", str(inp.get("layout", 1)), "--lseed", str(inp.get("lseed", 1))]
    if base == "e3_components" and "graph" in inp:
        return "e3_components", {}, ["--case", _compact(inp["graph"])]
    if base == "e3_search" and "graph" in inp:
        return "e3_search", {}, ["--case", _compact(inp["graph"]), "--S", str(inp.get("S", 0)), "--H", str(inp.get("H", 0)),
                                 "--s", str(inp.get("s", 0)), "--spos", str(inp.get("s_pos", 1)), "--t", str(inp.get("t", 0)),
                                 "--tpos", str(inp.get("t_pos", 0)), "--uselimit", str(inp.get("use_limit", 0)),
                                 "--limit", repr(float(inp.get("limit", 0))), "--fn", inp.get("fn", "bidir")]
    if base == "e3_relations" and "graph" in inp:
        return "e3_relations", {}, ["--case", _compact(inp["graph"])]
    if base == "e3_inexact" and "graph" in inp:
        return "e3_inexact", {}, ["--case", _compact(inp["graph"]), "--algo", inp.get("algo", "")]
    if base == "e3_fp":
        if "p" in inp and "a" in inp:
            return "e3_fp", dict(libs=()), ["--replay-inv", str(inp["a"]), str(inp["p"])]
        if "p" in inp:
            return "e3_fp", dict(libs=()), ["--replay-prime", str(inp["p"])]
        if "a" in inp and "b" in inp:
            return "e3_fp", dict(libs=()), ["--replay-gcd", str(inp["a"]), str(inp["b"])]
    if base == "e3_knob" and "seq" in inp:
        return "e3_knob", {}, ["--replay", str(inp["seq"][0]), str(inp["seq"][1])]
    return None


def replay(path):
    try:
        rec = json.load(open(path))
    except Exception as e:
        print("cannot read replay file: %r" % (e,))
        return 2
    pid = rec.get("property")
    site, kind = rec.get("site"), rec.get("kind")
    data = rec.get("inputs") or {}
    print("replaying %s: site=%s kind=%s\n  obligation: %s" % (pid, site, kind, (rec.get("obligation") or "")[:300]))
    drv = data.get("driver") if isinstance(data, dict) else None
    if drv:
        nc = _native_cmd(drv, data.get("input"))
        if nc:
            name, bk, args = nc
            try:
                rep, txt = native.replay_run(name, args, bk, timeout=600)
            except Undecided as e:
                print("UNDECIDED %s" % e)
                return 2
            print(txt)
            print("still fails on the working tree" if rep else "no longer fails on the working tree")
            return 1 if rep else 0
    # generic: re-run the property's check and look for the same (site, kind)
    if not pid:
        return 2
    env = dict(os.environ)
    p = subprocess.run([sys.executable, os.path.join(VERIF, "check.py"), pid], stdout=subprocess.PIPE, stderr=subprocess.STDOUT,
                       text=True, env=env)
    hit = False
    for line in p.stdout.splitlines():
        if line.startswith("# violated: %s [%s]" % (site, kind)):
            hit = True
            print(line)
    if hit:
        print("still fails on the working tree (obligation re-checked by re-running the %s check)" % pid)
        return 1
    if p.returncode == 2:
        print(p.stdout[-600:])
        return 2
    print("no longer fails on the working tree")
    return 0
