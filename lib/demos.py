"""Bounded stand-in for the contract of the demo programs' main() (C11, demo half of C20): the
executables are rebuilt from /repo/src with g++ -DPARMCB_VERIF and run on enumerated files and
option combinations; MPI demo under mpiexec with a watchdog."""
import os, re, subprocess, time, itertools, json
from concurrent.futures import ThreadPoolExecutor
from . import native
from .core import WORK, REPO, NCPU, ensure_dir, write, tier, Undecided

MPI_INC = ["-I/usr/lib/x86_64-linux-gnu/openmpi/include", "-I/usr/lib/x86_64-linux-gnu/openmpi/include/openmpi"]
MPI_LIBS = ["-L/usr/lib/x86_64-linux-gnu/openmpi/lib", "-lmpi_cxx", "-lmpi", "-lboost_mpi", "-lboost_serialization"]
BASE_LIBS = ["-lboost_program_options", "-lboost_timer", "-lboost_thread", "-ltbb"]

# (name, text, optimum or None for bad input, what is wrong)
def files():
    F = []
    F.append(("tri-chord", "c two triangles\np edge 4 5\ne 1 2 1\ne 2 3 2\ne 3 1 2\ne 3 4 4\ne 4 1 8\n", 5 + 14, None))
    F.append(("k4-unit-nonl", "p edge 4 6\ne 1 2\ne 1 3\ne 1 4\ne 2 3\ne 2 4\ne 3 4", 9, None))
    F.append(("grid-comment", "# grid 2x3\np edge 6 7\ne 1 2 1\ne 2 3 1\nc middle\ne 4 5 1\ne 5 6 1\ne 1 4 2\ne 2 5 2\ne 3 6 2\n", 12, None))
    F.append(("forest", "p edge 5 3\ne 1 2 3\ne 2 3 1\na 4 5 2\n", 0, None))
    F.append(("two-comp-last-weight-55", "p edge 7 7\ne 1 2 10\ne 2 3 10\ne 3 1 10\ne 4 5 20\ne 5 6 20\ne 6 7 30\ne 7 4 55", 30 + 125, None))
    F.append(("tri-isolated", "c fewer edges than vertices, yet not a forest\np edge 6 3\ne 1 2 2\ne 2 3 2\ne 3 1 3\n", 7, None))
    F.append(("bad-loop", "p edge 3 3\ne 1 2 1\ne 2 2 1\ne 2 3 1\n", None, "self-loop"))
    F.append(("bad-multi", "p edge 3 4\ne 1 2 1\ne 2 3 1\ne 3 1 1\ne 2 1 5\n", None, "parallel edge"))
    F.append(("bad-zero", "p edge 3 3\ne 1 2 1\ne 2 3 0\ne 3 1 1\n", None, "zero weight"))
    F.append(("bad-negative", "p edge 3 3\ne 1 2 1\ne 2 3 -2.5\ne 3 1 1\n", None, "negative weight"))
    F.append(("bad-several", "p edge 4 5\ne 1 1 1\ne 2 3 0\ne 3 2 1\ne 3 4 -1\ne 4 1 1\n", None, "loop+parallel+non-positive"))
    return F


def build_demos(with_mpi=True):
    specs = []
    for n in ("mcb-dimacs", "approx-mcb-dimacs", "collection-stats-dimacs"):
        specs.append(dict(name="demo_" + n, source=os.path.join(REPO, "src", n + ".cpp"), libs=tuple(BASE_LIBS)))
    if with_mpi:
        specs.append(dict(name="demo_mcb-dimacs-mpi", source=os.path.join(REPO, "src", "mcb-dimacs-mpi.cpp"),
                          flags=tuple(MPI_INC), libs=tuple(BASE_LIBS + MPI_LIBS)))
    return native.build_many(specs)


def _run(cmd, timeout):
    """Run in its own process group so that a hanging mpiexec is killed together with its ranks."""
    import signal
    t0 = time.time()
    p = subprocess.Popen(cmd, stdout=subprocess.PIPE, stderr=subprocess.PIPE, text=True, errors="replace",
                         start_new_session=True)
    try:
        so, se = p.communicate(timeout=timeout)
        return p.returncode, so, se, time.time() - t0, False
    except subprocess.TimeoutExpired:
        try:
            os.killpg(p.pid, signal.SIGKILL)
        except OSError:
            pass
        try:
            so, se = p.communicate(timeout=10)
        except Exception:
            so, se = "", ""
        return -9, so or "", se or "", time.time() - t0, True


def _weight(out):
    m = re.search(r"MCB weight = ([-0-9.eE+]+)", out)
    return float(m.group(1)) if m else None


def cases(bins, want_mpi):
    fdir = ensure_dir(os.path.join(WORK, "demo-files"))
    out = []
    th = tier() == "thorough"
    for name, text, opt, bad in files():
        path = os.path.join(fdir, name + ".dimacs")
        write(path, text)
        algos = [("signed", ["--signed=true"]), ("fvstrees", ["--signed=false", "--fvstrees=true"]),
                 ("isotrees", ["--signed=false", "--fvstrees=false", "--isotrees=true"])]
        for (an, aopts), par, verb, cores in itertools.product(algos, ("true", "false"), (True, False), (0, 2, 3)):
            if cores == 3 and not th and an != "signed":
                continue
            o = aopts + ["--parallel=" + par] + (["--verbose=true"] if verb else []) + (["--cores=%d" % cores] if cores else [])
            out.append(dict(prog="mcb-dimacs", cmd=[bins["demo_mcb-dimacs"]] + o + [path], file=name, opt=opt, bad=bad,
                            k=None, par=par == "true", cores=cores, to=60))
            for k in (2, 3):
                if k == 3 and (verb or cores == 3):
                    continue
                out.append(dict(prog="approx-mcb-dimacs", cmd=[bins["demo_approx-mcb-dimacs"]] + o + ["--k=%d" % k, path],
                                file=name, opt=opt, bad=bad, k=k, par=par == "true", cores=cores, to=60))
        out.append(dict(prog="collection-stats-dimacs", cmd=[bins["demo_collection-stats-dimacs"], path], file=name, opt=None if bad else -1,
                        bad=bad, k=None, par=False, cores=0, to=60, noweight=True))
        if want_mpi:
            for P in ((1, 2, 3, 4) if th else (1, 2, 3)):
                for an, aopts in algos:
                    if not th and bad is None and P == 3 and an != "signed":
                        continue
                    out.append(dict(prog="mcb-dimacs-mpi", mpi=P,
                                    cmd=["mpiexec", "--allow-run-as-root", "--oversubscribe", "-n", str(P), bins["demo_mcb-dimacs-mpi"]] + aopts + [path],
                                    file=name, opt=opt, bad=bad, k=None, par=True, cores=0, to=90))
    return out


def judge(c, rc, so, se, dt, timed_out):
    """contract of main(); returns list of (kind, what)"""
    v = []
    tag = "%s %s" % (c["prog"], " ".join(a for a in c["cmd"][1:] if not a.startswith("/")))
    if timed_out:
        return [("demo-hang", "%s on %s did not terminate within %ss (some rank left inside a collective?)" % (tag, c["file"], c["to"]))]
    if c["bad"]:
        if rc == 0:
            v.append(("demo-bad-input-accepted", "%s: exit status 0 for a graph with a %s" % (tag, c["bad"])))
        if not se.strip():
            v.append(("demo-no-diagnostic", "%s: no diagnostic on stderr for a graph with a %s" % (tag, c["bad"])))
        if re.search(r"^Using ", so, re.M) or "MCB weight" in so:
            v.append(("demo-algorithm-ran", "%s: an algorithm ran on a graph with a %s" % (tag, c["bad"])))
        return v
    if rc != 0:
        v.append(("demo-valid-input-failed", "%s: exit status %s on valid file %s: %s" % (tag, rc, c["file"], se.strip()[-200:])))
        return v
    if c.get("noweight"):
        return v
    w = _weight(so)
    if w is None:
        v.append(("demo-no-weight", "%s: no 'MCB weight =' line" % tag))
        return v
    opt = c["opt"]
    if c["k"] is None:
        if abs(w - opt) > 1e-9 * max(1, abs(opt)):
            v.append(("demo-wrong-weight", "%s on %s printed MCB weight %s, the optimum is %s" % (tag, c["file"], w, opt)))
    else:
        if w < opt - 1e-9 or w > (2 * c["k"] - 1) * opt + 1e-9:
            v.append(("demo-approx-out-of-range", "%s on %s printed %s, allowed [%s, %s]" % (tag, c["file"], w, opt, (2 * c["k"] - 1) * opt)))
    return v


def judge_cores(c, so):
    """C20 demo half: with --parallel=true --cores=n (n>0) the limit in force before the algorithm is n."""
    if c["prog"] not in ("mcb-dimacs", "approx-mcb-dimacs") or c["bad"] or not c["par"] or not c["cores"]:
        return None
    m = re.search(r"VERIF active parallelism: (\d+)", so)
    if not m:
        return ("demo-hook-missing", "hook line missing in output of %s" % c["prog"])
    if int(m.group(1)) != c["cores"]:
        return ("demo-cores-ignored", "%s --parallel=true --cores=%d %s: parallelism limit in force is %s" % (
            c["prog"], c["cores"], " ".join(a for a in c["cmd"][1:] if a.startswith("--verb")), m.group(1)))
    return False


def run_all(want_mpi=True, only_cores=False):
    t0 = time.time()
    bins = build_demos(with_mpi=want_mpi)
    cs = cases(bins, want_mpi)
    if only_cores:
        cs = [c for c in cs if c["prog"] in ("mcb-dimacs", "approx-mcb-dimacs") and not c["bad"] and c["par"] and c["cores"]]
    nonmpi = [c for c in cs if not c.get("mpi")]
    mpi = [c for c in cs if c.get("mpi")]
    results = []
    def one(c):
        return c, _run(c["cmd"], c["to"])
    with ThreadPoolExecutor(NCPU) as ex:
        results.extend(ex.map(one, nonmpi))
    with ThreadPoolExecutor(max(2, NCPU // 4)) as ex:
        results.extend(ex.map(one, mpi))
    res = dict(driver="demos", evaluations=len(results), distinct_nontrivial=0, samples=[], violations=[], status="ok",
               counts={}, exhaustive=True, functions={}, assumptions=[], entry_points=[],
               rule="enumerated DIMACS files (6 valid with known optimum incl. one without final newline, one forest and one disconnected graph with fewer edges than vertices that is not a forest; 5 invalid: self-loop, parallel edge, zero, negative, several) x every algorithm/parallel/verbose/cores combination of mcb-dimacs, approx-mcb-dimacs (k=2,3), collection-stats-dimacs, and mcb-dimacs-mpi under mpiexec -n 1..3(4) with a 90 s watchdog; distinct = distinct command lines",
               bounds="files=10")
    seen = set()
    cores_checked = 0
    for c, (rc, so, se, dt, to) in results:
        key = " ".join(c["cmd"])
        seen.add(key)
        res["counts"][c["prog"]] = res["counts"].get(c["prog"], 0) + 1
        vs = [] if only_cores else judge(c, rc, so, se, dt, to)
        jc = judge_cores(c, so)
        if jc is not None:
            cores_checked += 1
            if jc:
                vs.append(jc)
        for kind, what in vs:
            res["violations"].append(dict(site=c["prog"], kind=kind, what=what,
                                          data=dict(cmd=c["cmd"], file=c["file"], exit=rc, stdout=so[-600:], stderr=se[-400:])))
        if len(res["samples"]) < 4 and (c.get("mpi") or c["bad"]):
            res["samples"].append(dict(cmd=" ".join(os.path.basename(a) if a.startswith("/") else a for a in c["cmd"]), exit=rc,
                                       stderr=se.strip()[:80], weight=_weight(so)))
    res["counts"]["cores_limit_checked"] = cores_checked
    res["distinct_nontrivial"] = len(seen)
    d = {}
    for v in res["violations"]:
        d.setdefault((v["site"], v["kind"]), v)
    res["violation_count"] = len(res["violations"])
    res["violations"] = list(d.values())
    res["wall_s"] = round(time.time() - t0, 2)
    return res
