"""Bounded stand-ins (E3): build a driver from /verif/harness against /repo's working tree with g++
and run it (sharded over the cores); parse VP-STATS / VP-VIOL lines."""
import os, re, json, subprocess, time, glob
from concurrent.futures import ThreadPoolExecutor
from .core import VERIF, REPO, WORK, NCPU, GUARD, ensure_dir, read, write, sha, Undecided, tier, seed


def gen_config():
    """parmcb/config.hpp as CMake would generate it (all features on, logging off)."""
    src = os.path.join(REPO, "include/parmcb/config.hpp.in")
    txt = read(src)
    on = {"PARMCB_HAVE_BOOST", "PARMCB_HAVE_TBB", "PARMCB_HAVE_MPI", "PARMCB_INVARIANTS_CHECK"}
    def rep(m):
        return ("#define %s" % m.group(1)) if m.group(1) in on else ("/* #undef %s */" % m.group(1))
    txt = re.sub(r"#cmakedefine (\w+)", rep, txt)
    d = ensure_dir(os.path.join(WORK, "include", "parmcb"))
    p = os.path.join(d, "config.hpp")
    if not os.path.exists(p) or read(p) != txt:
        write(p, txt)
    return os.path.join(WORK, "include")


def tree_hash(extra=()):
    h = []
    for root in (os.path.join(REPO, "include"), os.path.join(REPO, "src"), os.path.join(VERIF, "contracts"),
                 os.path.join(VERIF, "stubs")):
        for dp, dn, fn in os.walk(root):
            for f in sorted(fn):
                p = os.path.join(dp, f)
                try:
                    h.append(p + ":" + sha(read(p)))
                except Exception:
                    pass
    h.extend(extra)
    return sha("\n".join(h))


import threading
_build_locks = {}
_build_locks_guard = threading.Lock()


def build(name, source=None, flags=(), libs=("-ltbb", "-lboost_timer"), incfirst=(), std="c++14", opt="-O2"):
    """Compile /verif/harness/<name>.cpp (or `source`) against the working tree. Returns binary path.
    Serialised per driver name (several units may ask for the same replay driver at once)."""
    with _build_locks_guard:
        lk = _build_locks.setdefault(name, threading.Lock())
    with lk:
        return _build(name, source, flags, libs, incfirst, std, opt)


def _build(name, source, flags, libs, incfirst, std, opt):
    inc = gen_config()
    source = source or os.path.join(VERIF, "harness", name + ".cpp")
    key = sha(read(source) + tree_hash() + " ".join(flags) + " ".join(libs) + " ".join(incfirst) + std + opt)
    bdir = ensure_dir(os.path.join(WORK, "bin"))
    out = os.path.join(bdir, "%s-%s" % (name, key))
    if os.path.exists(out):
        return out
    for old in glob.glob(os.path.join(bdir, name + "-*")):
        if ".tmp" in old:
            continue
        try:
            if time.time() - os.path.getmtime(old) < 3 * 3600:      # may belong to a concurrent run on another tree
                continue
            os.remove(old)
        except OSError:
            pass
    cmd = ["g++", "-std=" + std, opt, "-g0", "-w", "-D" + GUARD, "-pthread"]
    for d in incfirst:
        cmd += ["-I", d]
    cmd += ["-I", inc, "-I", os.path.join(REPO, "include"), "-I", os.path.join(VERIF, "contracts")]
    tmp = out + ".tmp%d" % os.getpid()
    cmd += list(flags) + [source, "-o", tmp] + list(libs)
    p = subprocess.run(cmd, stdout=subprocess.PIPE, stderr=subprocess.STDOUT, text=True, errors="replace")
    write(os.path.join(WORK, "bin", name + ".build.log"), " ".join(cmd) + "\n" + p.stdout)
    if p.returncode != 0:
        raise Undecided("driver %s does not compile against the working tree: %s" % (name, p.stdout.strip()[-600:]))
    os.replace(tmp, out)
    return out


def build_many(specs):
    """specs: list of dict(name=..., **build kwargs); compiled in parallel. Returns {name: path}."""
    out = {}
    errs = []
    def one(s):
        try:
            out[s["name"]] = build(**s)
        except Undecided as e:
            errs.append(str(e))
    with ThreadPoolExecutor(min(len(specs), NCPU) or 1) as ex:
        list(ex.map(one, specs))
    if errs:
        raise Undecided(errs[0])
    return out


def run_driver(binary, driver, args=(), shards=None, timeout=1500, env=None, functions=None, assumptions=None,
               entry_points=None):
    """Run `binary --shard i/N args...` for all shards in parallel, merge statistics."""
    shards = shards or NCPU
    e = dict(os.environ)
    e["VERIF_TIER"] = tier()
    e["VERIF_SEED"] = str(seed())
    if env:
        e.update(env)
    t0 = time.time()
    def one(i):
        cmd = [binary, "--shard", "%d/%d" % (i, shards)] + list(args)
        try:
            p = subprocess.run(cmd, stdout=subprocess.PIPE, stderr=subprocess.PIPE, text=True, errors="replace",
                               timeout=timeout, env=e)
            return p.returncode, p.stdout, p.stderr
        except subprocess.TimeoutExpired as ex:
            return -9, (ex.stdout or b"").decode("utf-8", "replace") if isinstance(ex.stdout, bytes) else (ex.stdout or ""), "timeout"
    with ThreadPoolExecutor(shards) as ex:
        outs = list(ex.map(one, range(shards)))
    res = dict(driver=driver, evaluations=0, distinct_nontrivial=0, samples=[], violations=[], status="ok",
               counts={}, exhaustive=True, rule="", bounds="", functions=functions or {},
               assumptions=assumptions or [], entry_points=entry_points or [])
    for i, (rc, out, err) in enumerate(outs):
        stats = None
        for line in out.splitlines():
            if line.startswith("VP-STATS "):
                try:
                    stats = json.loads(line[9:])
                except Exception as ex:
                    res.update(status="undecided", reason="unparsable stats from shard %d: %s" % (i, ex))
            elif line.startswith("VP-VIOL "):
                try:
                    v = json.loads(line[8:])
                except Exception:
                    v = dict(site=driver, kind="unparsable", what=line[8:300], input=None)
                res["violations"].append(dict(site=v.get("site", driver), kind=v.get("kind", "?"),
                                              what=v.get("what", ""), data=dict(driver=driver, input=v.get("input"))))
        if rc != 0 or stats is None:
            sig = "timeout" if rc == -9 else "exit code %s" % rc
            # a crash of the real code (abort, sanitizer report, signal) is a language-level contract violation
            tail = (err or "")[-1500:]
            mm = re.search(r"(ERROR: \w+Sanitizer[^\n]*|[^\n]*runtime error:[^\n]*|[^\n]*Assertion[^\n]*failed[^\n]*|terminate called[^\n]*(\n[^\n]*what\(\)[^\n]*)?)", err or "")
            if mm:
                # headline of the sanitizer / assert report plus the first frames
                at = (err or "").find(mm.group(0))
                tail = (err or "")[at:at + 1200]
            last = ""
            for line in out.splitlines():
                if line.startswith("VP-CASE "):
                    last = line[8:]
            if rc == -9:
                res.update(status="undecided", reason="driver %s shard %d timed out" % (driver, i))
            elif rc in (3,):
                res.update(status="undecided", reason="driver %s usage error: %s" % (driver, tail[-200:]))
            else:
                res["violations"].append(dict(site=driver + ":crash", kind="crash",
                                              what="driver terminated abnormally (%s): %s" % (sig, tail.strip()[:700]),
                                              data=dict(driver=driver, last_case=last, stderr=tail)))
            continue
        res["evaluations"] += stats.get("evaluations", 0)
        res["distinct_nontrivial"] += stats.get("distinct_nontrivial", 0)
        res["exhaustive"] = res["exhaustive"] and stats.get("exhaustive", False)
        res["rule"] = stats.get("rule", res["rule"])
        res["bounds"] = stats.get("bounds", res["bounds"])
        for k, v in stats.get("counts", {}).items():
            res["counts"][k] = res["counts"].get(k, 0) + v
        if len(res["samples"]) < 6:
            res["samples"].extend(stats.get("samples", [])[:2])
    res["wall_s"] = round(time.time() - t0, 2)
    # de-duplicate violations by (site, kind): keep the first (smallest) example of each
    seen = {}
    for v in res["violations"]:
        k = (v["site"], v["kind"])
        if k not in seen:
            seen[k] = v
    res["violation_count"] = len(res["violations"])
    res["violations"] = list(seen.values())
    return res


def replay_run(name, args, build_kwargs=None, timeout=120):
    """Run a driver in replay mode on the real g++-compiled code. Returns (reproduced, text)."""
    b = build(name, **(build_kwargs or {}))
    p = subprocess.run([b] + [str(a) for a in args], stdout=subprocess.PIPE, stderr=subprocess.STDOUT, text=True,
                       errors="replace", timeout=timeout)
    out = p.stdout.strip()[-1500:]
    if p.returncode == 1 and "REPLAY-FAIL" in out:
        return True, out
    if p.returncode == 0:
        return False, "native replay of the verifier's inputs does NOT fail on the real code: " + out
    return True, "native replay terminated abnormally (exit %s): %s" % (p.returncode, out)
