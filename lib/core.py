"""Shared plumbing: paths, verdict bookkeeping, evidence writer, known findings.

Exit codes (DESIGN 2.5):  0 = held on everything explored, 1 = VIOLATION line printed,
2 = UNDECIDED (time-out, extraction out of date, proof no longer fits the code, ...).
"""
import json, os, sys, time, hashlib, re, subprocess

VERIF = os.path.dirname(os.path.dirname(os.path.abspath(__file__)))
REPO = os.environ.get("VERIF_REPO") or "/repo"
WORK = os.path.join(VERIF, ".work")
EVID = os.path.join(VERIF, "evidence")
REPLAYS = os.path.join(VERIF, "replays")
KNOWN = os.path.join(VERIF, "known_findings.txt")
GUARD = "PARMCB_VERIF"
NCPU = int(os.environ.get("VERIF_JOBS", os.cpu_count() or 4))


def tier():
    t = os.environ.get("VERIF_TIER", "quick")
    return t if t in ("quick", "thorough") else "quick"


def seed():
    try:
        return int(os.environ.get("VERIF_SEED", "1"))
    except ValueError:
        return 1


def ensure_dir(p):
    os.makedirs(p, exist_ok=True)
    return p


def read(path):
    with open(path, "r", encoding="utf-8", errors="replace") as f:
        return f.read()


def write(path, text):
    ensure_dir(os.path.dirname(path))
    with open(path, "w", encoding="utf-8") as f:
        f.write(text)


def sha(text):
    return hashlib.sha256(text.encode("utf-8", "replace")).hexdigest()[:16]


class Undecided(Exception):
    """Raised when a unit cannot be decided (never a violation)."""


# ---------------------------------------------------------------- known findings
def load_known():
    """known_findings.txt lines:
         open: property=<id> site=<site> kind=<kind> <free text>
         fixed: property=<id> <commit> <free text>
    Only `open` lines suppress anything; they are matched on (property, site, kind)."""
    out = []
    if not os.path.exists(KNOWN):
        return out
    for line in read(KNOWN).splitlines():
        line = line.strip()
        if not line or line.startswith("#"):
            continue
        m = re.match(r"open:\s+property=(\S+)\s+site=(\S+)\s+kind=(\S+)\s*(.*)$", line)
        if m:
            out.append(dict(property=m.group(1), site=m.group(2), kind=m.group(3), text=m.group(4)))
    return out


class Report:
    """Collects what one property check did and turns it into exit code + evidence."""

    def __init__(self, pid, level, explanation):
        self.pid = pid
        self.level = level
        self.explanation = explanation
        self.t0 = time.time()
        self.units = []          # CBMC units: dicts
        self.bounded = []        # native bounded stand-ins: dicts
        self.violations = []     # dicts(site, kind, what, replay, no_input)
        self.known_hits = []
        self.undecided = []      # strings
        self.assumptions = []
        self.trusted = []
        self.samples = []
        self.functions = {}      # name -> "proved" | "bounded(...)" | "assumed"
        self.notes = []

    # -- recording -----------------------------------------------------------
    def add_unit(self, res):
        self.units.append(res)
        for a in res.get("assumptions", []):
            if a not in self.assumptions:
                self.assumptions.append(a)
        for a in res.get("trusted", []):
            if a not in self.trusted:
                self.trusted.append(a)
        for k, v in res.get("functions", {}).items():
            self.functions[k] = v
        if res.get("status") == "undecided":
            self.undecided.append("%s: %s" % (res["unit"], res.get("reason", "?")))
        for v in res.get("violations", []):
            self.violation(**v)

    def add_bounded(self, res):
        self.bounded.append(res)
        for a in res.get("assumptions", []):
            if a not in self.assumptions:
                self.assumptions.append(a)
        for k, v in res.get("functions", {}).items():
            self.functions.setdefault(k, v)
        if res.get("status") == "undecided":
            self.undecided.append("%s: %s" % (res["driver"], res.get("reason", "?")))
        for v in res.get("violations", []):
            self.violation(**v)

    def violation(self, site, kind, what, replay=None, no_input=False, data=None):
        known = load_known()
        for k in known:
            if k["property"] == self.pid and k["site"] == site and k["kind"] == kind:
                hit = (site, kind)
                if hit not in [(h["site"], h["kind"]) for h in self.known_hits]:
                    self.known_hits.append(dict(site=site, kind=kind, text=k["text"], example=what))
                return
        if replay is None:
            ensure_dir(os.path.join(REPLAYS, self.pid))
            replay = os.path.join(REPLAYS, self.pid, "%s-%s-%s.json" % (
                re.sub(r"[^A-Za-z0-9_.-]", "_", site), kind, sha(what + json.dumps(data, sort_keys=True, default=str))))
            write(replay, json.dumps(dict(property=self.pid, site=site, kind=kind, obligation=what,
                                          inputs=data, no_failing_input_found=no_input), indent=1, default=str))
        self.violations.append(dict(site=site, kind=kind, what=what, replay=replay, no_input=no_input))

    # -- finishing -------------------------------------------------------------
    def finish(self):
        wall = time.time() - self.t0
        obligations = sum(u.get("obligations", 0) for u in self.units)
        discharged = sum(u.get("discharged", 0) for u in self.units)
        proved_obl = sum(u.get("obligations", 0) for u in self.units if u.get("mode") == "proof")
        evaluations = sum(b.get("evaluations", 0) for b in self.bounded)
        distinct = sum(b.get("distinct_nontrivial", 0) for b in self.bounded)
        samples = []
        for b in self.bounded:
            samples.extend(b.get("samples", [])[:3])
        for u in self.units:
            samples.extend(u.get("samples", [])[:2])
        samples = samples[:24] or ["(no cases)"]
        rules = [("%s: %s" % (b["driver"], b.get("rule", ""))) for b in self.bounded]
        cov = dict(
            explanation=self.explanation,
            obligations=obligations,
            discharged=discharged,
            obligations_in_unbounded_proofs=proved_obl,
            checker_cmd="; ".join(sorted(set(u.get("checker_cmd", "") for u in self.units if u.get("checker_cmd"))))[:4000],
            trusted_base=self.trusted,
            evaluations=evaluations,
            distinct_nontrivial=distinct,
            rule=" || ".join(rules) if rules else "no bounded stand-in in this check; obligations are CBMC proof obligations",
            samples=samples,
            exhaustive=bool(self.bounded) and all(b.get("exhaustive", False) for b in self.bounded),
            functions_under_contract=self.functions,
            solver_s_total=round(sum(u.get("solver_s", 0) or 0 for u in self.units), 2),
            cbmc_units=[{k: u.get(k) for k in ("unit", "mode", "bound", "backend", "obligations", "discharged",
                                                 "solver_s", "symex_s", "wall_s", "status", "rewrites", "dropped", "source",
                                                 "entry", "enforced", "replaced", "loop_contract_obligations",
                                                 "vacuity", "reason")} for u in self.units],
            bounded_standins=[{k: b.get(k) for k in ("driver", "evaluations", "distinct_nontrivial", "rule", "bounds",
                                                     "exhaustive", "wall_s", "status", "entry_points", "counts",
                                                     "reason")} for b in self.bounded],
            known_findings_hit=self.known_hits,
            undecided=self.undecided,
            notes=self.notes,
        )
        if self.level in ("exploration", "fault_enumeration") or not self.units:
            # generic keys must be meaningful
            cov["evaluations"] = max(evaluations, 0)
        if not self.bounded:
            # proof-only checks: report obligations as the cases explored, counted
            cov["evaluations"] = obligations
            cov["distinct_nontrivial"] = discharged
            cov["rule"] = ("each case is one CBMC proof obligation generated from the extracted real code; "
                           "distinct_nontrivial counts the obligations discharged (named, distinct by construction)")
        ev = dict(property_id=self.pid, tier=tier(), seed=seed(), level=self.level, coverage=cov,
                  assumptions=self.assumptions, wall_s=round(wall, 2), violations=len(self.violations))
        write(os.path.join(EVID, self.pid + ".json"), json.dumps(ev, indent=1, default=str))
        for h in self.known_hits:
            print("KNOWN-FINDING: property=%s site=%s kind=%s %s" % (self.pid, h["site"], h["kind"], h["text"]))
        if self.violations:
            for v in self.violations:
                tail = " no-failing-input-found" if v["no_input"] else ""
                print("# violated: %s [%s] %s" % (v["site"], v["kind"], v["what"][:300]))
                print("VIOLATION property=%s replay=%s%s" % (self.pid, v["replay"], tail))
            for u in self.undecided:
                print("# (also undecided) %s" % u[:300])
            return 1
        if self.undecided:
            for u in self.undecided:
                print("UNDECIDED property=%s %s" % (self.pid, u))
            return 2
        print("OK property=%s tier=%s cbmc_units=%d obligations=%d discharged=%d bounded_evaluations=%d wall=%.1fs" % (
            self.pid, tier(), len(self.units), obligations, discharged, evaluations, wall))
        return 0
