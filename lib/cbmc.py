"""Run one verification unit through goto-cc / goto-instrument (DFCC) / cbmc and classify the result.

A unit spec is a dict:
  unit      name
  lang      'c' | 'cpp'
  text      the generated translation unit (extracted real code + side-car contracts + harness)
  entry     harness function name
  enforce   function whose contract is enforced (C only) or None (harness-level contract)
  replace   [functions replaced by their contracts]
  loop_contracts  bool
  unwind    int or None  (bounded variant)
  flags     extra cbmc flags;  cc_flags: extra goto-cc flags;  incdirs: include dirs
  backend   'sat' (default) | 'cvc5' | 'z3'
  timeout   seconds
  mode      'proof' | 'bounded' ; bound: text
  reach     number of VP_REACH assertions that must FAIL (vacuity guard), default 1
  split     K > 1: the generated obligations are partitioned round-robin into K groups that are checked by K concurrent
            cbmc processes (`--property` per obligation; the other assertions are dropped, not assumed) - same program,
            same obligations, same verdict per obligation; only the wall time changes
"""
import os, re, subprocess, time, resource, json
from .core import WORK, ensure_dir, write, Undecided, sha

MEM_KB = 8 * 1024 * 1024


def _limits():
    resource.setrlimit(resource.RLIMIT_AS, (MEM_KB * 1024, MEM_KB * 1024))


def _run(cmd, timeout, cwd):
    t0 = time.time()
    try:
        p = subprocess.run(cmd, cwd=cwd, stdout=subprocess.PIPE, stderr=subprocess.STDOUT, timeout=timeout,
                           preexec_fn=_limits, text=True, errors="replace")
        return p.returncode, p.stdout, time.time() - t0
    except subprocess.TimeoutExpired as e:
        out = e.stdout or ""
        if isinstance(out, bytes):
            out = out.decode("utf-8", "replace")
        return -9, out + "\n<<TIMEOUT after %ss>>" % timeout, time.time() - t0


def _run_split(cb, K, timeout, wd):
    """Partition the obligations into K groups and check them concurrently.  Returns (rc, concatenated output, wall)."""
    from concurrent.futures import ThreadPoolExecutor
    t0 = time.time()
    base = [c for c in cb if c != "--verbosity" and c != "8"]
    rc, out, _ = _run(base + ["--show-properties", "--json-ui"], 300, wd)
    names = []
    try:
        for x in json.loads(out[out.index("["):]):
            if isinstance(x, dict) and "properties" in x:
                names = [p_["name"] for p_ in x["properties"]]
    except Exception:
        names = []
    if len(names) < 2 * K:
        return _run(cb, timeout, wd)
    groups = [names[i::K] for i in range(K)]

    def one(g):
        cmd = list(cb)
        for n in g:
            cmd += ["--property", n]
        return _run(cmd, timeout, wd)
    with ThreadPoolExecutor(K) as ex:
        rs = list(ex.map(one, groups))
    outs = "\n".join("==== property group %d/%d (rc=%s) ====\n%s" % (i + 1, K, r[0], r[1]) for i, r in enumerate(rs))
    if any(r[0] == -9 for r in rs):
        return -9, outs + "\n<<TIMEOUT after %ss>>" % timeout, time.time() - t0
    bad = [r[0] for r in rs if r[0] not in (0, 10)]
    if bad:     # a group without a verdict: make sure no overall verdict is read from the others
        outs = outs.replace("VERIFICATION SUCCESSFUL", "(group) SUCCESSFUL").replace("VERIFICATION FAILED", "(group) FAILED")
        return bad[0], outs, time.time() - t0
    return (10 if any(r[0] == 10 for r in rs) else 0), outs, time.time() - t0


LINE = re.compile(r"^\[(?P<name>[^\]]+)\]\s+(?P<desc>.*):\s+(?P<st>SUCCESS|FAILURE|ERROR|UNKNOWN)\s*$")

INTERNAL = ("loop_invariant_base", "loop_invariant_step", "loop_assigns", "loop_decreases",
            "loop_step_unwinding", "loop_body")


def classify(name, desc):
    if "VP_REACH" in desc:
        return "reach"
    if any(k in name for k in INTERNAL) or "loop invariant" in desc.lower() or "decreases clause" in desc.lower():
        return "internal"
    if ".unwind." in name or "unwinding assertion" in desc:
        return "unwind"
    if ".recursion" in name:
        return "unwind"
    if "postcondition" in name:
        return "postcondition"
    if "precondition" in name and "no_alias" not in name:
        return "callee-precondition"
    if ".assigns." in name or "is assignable" in desc:
        return "frame"
    if ".assertion." in name:
        return "assertion"
    return "safety"


def run_unit(spec):
    name = spec["unit"]
    # one work directory per unit AND per repository under test: runs against scratch worktrees (VERIF_REPO) may go on
    # concurrently with a run on /repo and must not see each other's goto binaries
    from .core import REPO as _REPO
    suffix = "" if os.path.realpath(_REPO) == "/repo" else "-" + sha(os.path.realpath(_REPO))[:8]
    wd = ensure_dir(os.path.join(WORK, "cbmc", name + suffix))
    ext = ".c" if spec["lang"] == "c" else ".cpp"
    srcf = os.path.join(wd, "unit" + ext)
    write(srcf, spec["text"])
    res = dict(unit=name, mode=spec.get("mode", "proof"), bound=spec.get("bound", ""),
               backend=spec.get("backend", "sat"), entry=spec["entry"], enforced=spec.get("enforce"),
               replaced=spec.get("replace", []), rewrites=spec.get("rewrites", []), dropped=spec.get("dropped", []),
               source=spec.get("source", ""), obligations=0, discharged=0, status="ok", violations=[],
               assumptions=list(spec.get("assumptions", [])), trusted=list(spec.get("trusted", [])),
               functions=dict(spec.get("functions", {})), samples=[])
    timeout = spec.get("timeout", 300)
    t0 = time.time()
    cc = ["goto-cc", "--function", spec["entry"], "-o", "a.gb", "unit" + ext]
    for d in spec.get("incdirs", []):
        cc += ["-I", d]
    cc += spec.get("cc_flags", [])
    rc, out, _ = _run(cc, 120, wd)
    write(os.path.join(wd, "goto-cc.log"), " ".join(cc) + "\n" + out)
    if rc != 0:
        res.update(status="undecided", reason="goto-cc failed (generated text does not compile): " + out.strip()[-400:])
        return res
    gb = "a.gb"
    cmds = [" ".join(cc)]
    if spec.get("enforce") or spec.get("loop_contracts") or spec.get("replace"):
        gi = ["goto-instrument", "--dfcc", spec["entry"]]
        if spec.get("enforce"):
            gi += ["--enforce-contract", spec["enforce"]]
        for g in spec.get("replace", []):
            gi += ["--replace-call-with-contract", g]
        if spec.get("loop_contracts"):
            gi += ["--apply-loop-contracts"]
        gi += spec.get("gi_flags", [])
        gi += ["a.gb", "b.gb"]
        rc, out, _ = _run(gi, 300, wd)
        write(os.path.join(wd, "goto-instrument.log"), " ".join(gi) + "\n" + out)
        cmds.append(" ".join(gi))
        if rc != 0:
            res.update(status="undecided", reason="goto-instrument failed: " + out.strip()[-400:])
            return res
        gb = "b.gb"
    cb = ["cbmc", gb]
    if spec.get("unwind"):
        cb += ["--unwind", str(spec["unwind"]), "--unwinding-assertions", "--object-bits", "12"]
    be = spec.get("backend", "sat")
    if be == "cvc5":
        cb += ["--cvc5"]
    elif be == "z3":
        cb += ["--z3"]
    cb += spec.get("flags", [])
    cb += ["--verbosity", "8"]       # prints "Runtime decision procedure: <s>" (solver time for the evidence)
    K = int(spec.get("split", 0) or 0)
    if K > 1:
        rc, out, dt = _run_split(cb, K, timeout, wd)
    else:
        rc, out, dt = _run(cb, timeout, wd)
    write(os.path.join(wd, "cbmc.log"), " ".join(cb) + ("   [split into %d property groups]" % K if K > 1 else "") + "\n" + out)
    cmds.append(" ".join(cb) + (" (x%d property groups)" % K if K > 1 else ""))
    res["checker_cmd"] = " && ".join(cmds)
    res["wall_s"] = round(time.time() - t0, 2)
    res["solver_s"] = round(sum(float(x) for x in re.findall(r"Runtime decision procedure: ([0-9.eE+-]+)s", out)), 3)
    res["symex_s"] = round(sum(float(x) for x in re.findall(r"Runtime Symex: ([0-9.eE+-]+)s", out)), 3)
    if rc == -9 or "<<TIMEOUT" in out:
        res.update(status="undecided", reason="solver timeout after %ss" % timeout)
        return res
    if "ignoring forall" in out or "ignoring exists" in out:
        res.update(status="undecided", reason="back end ignored a quantifier")
        return res
    obl = []
    for line in out.splitlines():
        mm = LINE.match(line.strip())
        if mm:
            obl.append((mm.group("name"), mm.group("desc"), mm.group("st")))
    if not obl or ("VERIFICATION SUCCESSFUL" not in out and "VERIFICATION FAILED" not in out):
        res.update(status="undecided", reason="no verdict from cbmc (rc=%s): %s" % (rc, out.strip()[-300:]))
        return res
    reach = [o for o in obl if classify(o[0], o[1]) == "reach" and o[0].startswith(spec["entry"] + ".")]
    real = [o for o in obl if classify(o[0], o[1]) != "reach"]
    res["obligations"] = len(real)
    res["discharged"] = sum(1 for o in real if o[2] == "SUCCESS")
    lc = [o for o in real if classify(o[0], o[1]) == "internal"]
    res["loop_contract_obligations"] = len(lc)
    need_reach = spec.get("reach", 1)
    vac_ok = len(reach) >= need_reach and all(o[2] == "FAILURE" for o in reach)
    res["vacuity"] = "reach assertions %d, all refuted (state space non-empty): %s" % (len(reach), vac_ok)
    res["samples"] = ["%s: %s: %s" % o for o in real[:2] + real[-1:]]
    bad = [o for o in real if o[2] != "SUCCESS"]
    if any(o[2] in ("ERROR", "UNKNOWN") for o in real) and not any(o[2] == "FAILURE" for o in real):
        res.update(status="undecided", reason="back end returned ERROR/UNKNOWN for %d obligations" %
                   sum(1 for o in real if o[2] in ("ERROR", "UNKNOWN")))
        return res
    if not bad:
        if not vac_ok:
            res.update(status="undecided", reason="vacuity guard: harness end not reachable (contradictory precondition?)")
        elif spec.get("loop_contracts") and not any("loop_invariant_step" in o[0] or "step" in o[1] for o in lc) \
                and spec.get("expect_loop_obligations", True):
            res.update(status="undecided", reason="loop contract supplied but no loop_invariant_step obligation generated")
        return res
    # something failed: classify
    # FAILURE is definite; UNKNOWN (reported next to failures by cbmc 6) is not counted as failed
    bad = [o for o in bad if o[2] == "FAILURE"]
    res["failed"] = [dict(name=o[0], desc=o[1], kind=classify(o[0], o[1])) for o in bad]
    kinds = set(f["kind"] for f in res["failed"])
    if kinds <= {"unwind"}:
        res.update(status="undecided", reason="unwinding bound too small: " + bad[0][0])
        return res
    res["status"] = "failed"
    res["cbmc_cmd"] = cb
    res["workdir"] = wd
    return res


def trace_for(res, spec, prop_name, timeout=300):
    """Re-run cbmc for one failed obligation with --trace; returns (raw trace text, {var: value})
    for harness variables named vp_in_*."""
    wd = res["workdir"]
    cb = list(res["cbmc_cmd"]) + ["--trace", "--property", prop_name]
    rc, out, _ = _run(cb, timeout, wd)
    write(os.path.join(wd, "trace-%s.log" % re.sub(r"[^A-Za-z0-9_.-]", "_", prop_name)), out)
    vals = {}
    for m in re.finditer(r"^\s*(vp_in_\w+(?:\[\d+\w*\])?)=([^\s]+)(?: \(([^)]*)\))?", out, re.M):
        vals[m.group(1)] = m.group(2)
    tail = out[out.find("Trace for"):] if "Trace for" in out else out[-3000:]
    return tail[:12000], vals
