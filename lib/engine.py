"""Glue: run CBMC units / native drivers for a property and apply the verdict table of DESIGN 2.5."""
import os, json
from concurrent.futures import ThreadPoolExecutor
from . import cbmc, native
from .core import NCPU, Undecided, REPLAYS, ensure_dir, write, sha


def _violations_from(spec, res, via=None):
    """Turn failed obligations of a loop-free / unwound run into violation records (one per kind)."""
    out = []
    seen = set()
    for f in res.get("failed", []):
        if f["kind"] in ("unwind",):
            continue
        if f["kind"] == "safety" and f["name"].startswith(spec["entry"] + "."):
            # a safety failure inside the HARNESS is a defect of the unit, not of the code under contract
            res.setdefault("harness_errors", []).append(f["name"] + ": " + f["desc"])
            continue
        if f["kind"] in seen:
            continue
        seen.add(f["kind"])
        try:
            trace, vals = cbmc.trace_for(res, spec, f["name"], timeout=spec.get("timeout", 300))
        except Exception as e:  # trace is best effort
            trace, vals = "trace unavailable: %r" % (e,), {}
        reproduced, rtxt = False, "no native replay driver for this unit"
        if spec.get("replay"):
            try:
                reproduced, rtxt = spec["replay"](vals, f)
            except Undecided as e:
                reproduced, rtxt = False, "replay could not be built: %s" % e
            except Exception as e:
                reproduced, rtxt = False, "replay failed to run: %r" % (e,)
        what = "%s: %s" % (f["name"], f["desc"])
        if via:
            what += " (found by bounded variant %s after the unbounded proof failed)" % via
        out.append(dict(site=spec.get("site", spec["unit"]), kind=f["kind"], what=what, no_input=not reproduced,
                        data=dict(unit=res["unit"], obligation=f["name"], description=f["desc"], inputs=vals,
                                  native_replay=rtxt, replay_args=spec.get("replay_args"),
                                  solver_output=trace)))
    return out


def run_unit(spec):
    if spec.get("error"):
        return dict(unit=spec["unit"], status="undecided", reason=spec["error"], obligations=0, discharged=0,
                    violations=[], mode="none")
    res = cbmc.run_unit(spec)
    if res["status"] != "failed":
        return res
    if spec.get("loop_contracts"):
        fb = spec.get("fallback")
        if fb is None:
            res.update(status="undecided",
                       reason="proof-out-of-date: %s failed and the unit has no bounded variant" % res["failed"][0]["name"])
            return res
        fspec = fb() if callable(fb) else fb
        fres = cbmc.run_unit(fspec)
        res["fallback"] = dict(unit=fres["unit"], status=fres["status"], obligations=fres["obligations"],
                               discharged=fres["discharged"], bound=fres.get("bound"), reason=fres.get("reason"))
        if fres["status"] == "failed":
            res["violations"] = _violations_from(fspec, fres, via=fres["unit"])
            if res["violations"]:
                res["status"] = "violated"
                return res
        res.update(status="undecided",
                   reason="proof-out-of-date: %s failed under loop contracts but the bounded variant %s %s" % (
                       res["failed"][0]["name"], fres["unit"],
                       "passes" if fres["status"] == "ok" else "is " + fres["status"] + " (" + str(fres.get("reason")) + ")"))
        return res
    res["violations"] = _violations_from(spec, res)
    res["status"] = "violated" if res["violations"] else "undecided"
    if not res["violations"]:
        res["reason"] = ("harness error: " + "; ".join(res["harness_errors"][:2])) if res.get("harness_errors") else "only unwinding assertions failed"
    return res


def run_units(rep, specs, jobs=None):
    jobs = jobs or max(1, NCPU // 2)
    with ThreadPoolExecutor(jobs) as ex:
        results = list(ex.map(run_unit, specs))
    for r in results:
        rep.add_unit(r)
    return results


def run_native(rep, name, driver=None, build_kwargs=None, **kw):
    b = native.build(name, **(build_kwargs or {}))
    r = native.run_driver(b, driver or name, **kw)
    rep.add_bounded(r)
    return r
