"""E1/E2 extraction: copy text verbatim out of /repo's working tree by anchors that must match
exactly once, then apply a declared list of token rewrites, each with a must-fire count.
Any mismatch raises Undecided("extraction out of date") - never a violation."""
import re, os
from .core import REPO, read, Undecided


def src(rel):
    p = os.path.join(REPO, rel)
    if not os.path.exists(p):
        raise Undecided("extraction out of date: %s missing" % rel)
    return read(p)


def _unique(text, pattern, what, flags=re.S):
    """pattern: regex that must match exactly once, or (regex, index, total): must match exactly
    `total` times and the index-th match (0-based) is taken."""
    idx, total = 0, 1
    if isinstance(pattern, tuple):
        pattern, idx, total = pattern
    ms = list(re.finditer(pattern, text, flags))
    if len(ms) != total:
        raise Undecided("extraction out of date: anchor %r for %s matched %d times (need %d)" % (pattern, what, len(ms), total))
    return ms[idx]


def _match_close(text, i, open_c, close_c):
    """text[i] == open_c ; return index of the matching close_c (skips strings, chars, comments)."""
    assert text[i] == open_c
    depth = 0
    j = i
    n = len(text)
    while j < n:
        c = text[j]
        if c == '"' or c == "'":
            q = c
            j += 1
            while j < n and text[j] != q:
                if text[j] == "\\":
                    j += 1
                j += 1
        elif text.startswith("//", j):
            while j < n and text[j] != "\n":
                j += 1
        elif text.startswith("/*", j):
            j = text.index("*/", j) + 1
        elif c == open_c:
            depth += 1
        elif c == close_c:
            depth -= 1
            if depth == 0:
                return j
        j += 1
    raise Undecided("extraction out of date: unbalanced %s" % open_c)


def body_after(text, anchor, what, nth_brace=0, keep_braces=False):
    """Body of the brace block that follows the (unique) anchor."""
    m = _unique(text, anchor, what)
    i = m.end()
    for _ in range(nth_brace + 1):
        i = text.index("{", i)
        j = _match_close(text, i, "{", "}")
        start, end = i, j
        i = j + 1
    return text[start:end + 1] if keep_braces else text[start + 1:end]


def span(text, begin, end, what, include_end=True):
    """Text from the unique `begin` anchor to the first `end` anchor after it."""
    mb = _unique(text, begin, what + " (begin)")
    me = re.compile(end, re.S).search(text, mb.end())
    if not me:
        raise Undecided("extraction out of date: end anchor %r for %s not found" % (end, what))
    return text[mb.start():(me.end() if include_end else me.start())]


def stmt_at(text, anchor, what):
    """The statement (loop or block) starting at the unique anchor: anchor must match the
    start of `for (`/`while (`/`if (`; returns header + body (brace block)."""
    m = _unique(text, anchor, what)
    i = text.index("(", m.start())
    j = _match_close(text, i, "(", ")")
    k = j + 1
    while text[k].isspace():
        k += 1
    if text[k] != "{":
        raise Undecided("extraction out of date: %s has no brace body" % what)
    e = _match_close(text, k, "{", "}")
    return text[m.start():e + 1]


def rewrite(text, rules, log):
    """rules: list of (pattern, replacement, expected_count, kind, note).  Regex patterns.
    expected_count may be an int or a (lo, hi) tuple."""
    for pat, repl, cnt, kind, note in rules:
        text, n = re.subn(pat, repl, text, flags=re.S)
        ok = (n == cnt) if isinstance(cnt, int) else (cnt[0] <= n <= cnt[1])
        log.append(dict(pattern=pat, replacement=repl if isinstance(repl, str) else "<fn>", fired=n,
                        expected=cnt, kind=kind, note=note))
        if not ok:
            raise Undecided("extraction out of date: rewrite %r fired %d times, expected %s" % (pat, n, cnt))
    return text


def strip_logging(text, log):
    """Drop #ifdef PARMCB_LOGGING ... #endif blocks (declared drop)."""
    out, n = re.subn(r"#ifdef PARMCB_LOGGING.*?#endif[^\n]*\n", "", text, flags=re.S)
    log.append(dict(pattern="#ifdef PARMCB_LOGGING..#endif", replacement="", fired=n, expected="any",
                    kind="drop", note="logging blocks dropped"))
    return out


def loops(text):
    """Offsets (header_start, header_end_paren) of every for/while loop in order of appearance.
    do-while tails (`} while (...);`) are skipped."""
    res = []
    for m in re.finditer(r"\b(for|while)\s*\(", text):
        i = text.index("(", m.start())
        j = _match_close(text, i, "(", ")")
        k = j + 1
        while k < len(text) and text[k].isspace():
            k += 1
        if k < len(text) and text[k] == ";" and m.group(1) == "while":
            continue
        res.append((m.start(), j))
    return res


def splice_loop_contracts(text, contracts, log):
    """contracts: {ordinal: 'clauses text'}; inserted between the loop header and its body."""
    ls = loops(text)
    for o in contracts:
        if o >= len(ls):
            raise Undecided("extraction out of date: loop ordinal %d not found (%d loops)" % (o, len(ls)))
    out = text
    for o in sorted(contracts, reverse=True):
        _, j = ls[o]
        out = out[:j + 1] + "\n" + contracts[o] + "\n" + out[j + 1:]
    log.append(dict(pattern="loop contracts", replacement="", fired=len(contracts), expected=len(contracts),
                    kind="contract-splice", note="loops found: %d" % len(ls)))
    return out


def stmt_after(text, anchor, start_regex, what):
    """The first statement matching start_regex (start of `for (` / `while (` / a call `f(`) after
    the unique anchor.  For loops/ifs returns header+brace body; for calls returns `f(...)`."""
    m = _unique(text, anchor, what)
    ms = re.compile(start_regex, re.S).search(text, m.end())
    if not ms:
        raise Undecided("extraction out of date: no %r after anchor for %s" % (start_regex, what))
    i = text.index("(", ms.start())
    j = _match_close(text, i, "(", ")")
    k = j + 1
    while k < len(text) and text[k].isspace():
        k += 1
    if k < len(text) and text[k] == "{":
        e = _match_close(text, k, "{", "}")
        return text[ms.start():e + 1]
    return text[ms.start():j + 1]


def call_args(call_text):
    """Split the top-level arguments of `f(a, b(c,d), [&](x){...})`."""
    i = call_text.index("(")
    j = _match_close(call_text, i, "(", ")")
    inner = call_text[i + 1:j]
    args, depth, cur = [], 0, ""
    k = 0
    while k < len(inner):
        c = inner[k]
        if c in "([{<" and not (c == "<" and (k == 0 or not (inner[k - 1].isalnum() or inner[k - 1] in "_:"))):
            depth += 1
        elif c in ")]}" or (c == ">" and depth > 0 and inner[k - 1] != "-" and _angle_open(cur)):
            depth -= 1
        if c == "," and depth == 0:
            args.append(cur.strip())
            cur = ""
        else:
            cur += c
        k += 1
    if cur.strip():
        args.append(cur.strip())
    return args


def _angle_open(cur):
    return cur.count("<") > cur.count(">")


def guarded(name, fn, *a, **kw):
    """Build a unit spec; an extraction failure becomes an `error` spec (reported UNDECIDED for
    that unit only) instead of aborting the whole property."""
    try:
        return fn(*a, **kw)
    except Undecided as e:
        return dict(unit=name, error=str(e))
