"""E1/E2 extraction: copy text verbatim out of /repo's working tree by anchors that must match
exactly once, then apply a declared list of token rewrites, each with a must-fire count.
Any mismatch raises Undecided("extraction out of date") - never a violation."""
import re, os
from .core import REPO, read, Undecided


def src(rel, raw=False):
    """Source text of a repository file.  Unless raw, one declared normalisation is applied (N1):
    a pre-increment whose value is unused - the third clause of a for header, or a whole statement -
    is written as post-increment (`++x)` -> `x++)`, `++x;` -> `x++;`), so both spellings extract alike."""
    p = os.path.join(REPO, rel)
    if not os.path.exists(p):
        raise Undecided("extraction out of date: %s missing" % rel)
    t = read(p)
    return t if raw else normalise(t)


def normalise(t):
    t = re.sub(r";(\s*)\+\+([A-Za-z_]\w*)(\s*)\)", r";\1\2++\3)", t)
    t = re.sub(r"(?m)^(\s*)\+\+([A-Za-z_]\w*(?:\[[^\];]+\])?);", r"\1\2++;", t)
    t = re.sub(r"(?m)^(\s*)--([A-Za-z_]\w*(?:\[[^\];]+\])?);", r"\1\2--;", t)      # same for a pre-decrement statement
    return t


def drop_local_const(text, log):
    """N6: `const` on a local scalar / descriptor declaration with an initialiser is dropped (it only restricts later writes)."""
    out, n = re.subn(r"(?m)^(\s*)const ((?:auto|bool|int|long|double|Vertex|Edge|WeightType|DistanceType|std::size_t|size_t)\b[^;=(]*?\b\w+ =)", r"\1\2", text)
    log.append(dict(pattern="const <scalar type> x =", replacement="<scalar type> x =", fired=n, expected="any", kind="const-drop", note="const qualifier of initialised locals dropped"))
    return out


def _no_comments(t):
    return re.sub(r"//[^\n]*|/\*.*?\*/", " ", t, flags=re.S)


def canon(text, decls, log):
    """Alpha-renaming of locals (N2): each decl is (regex with k groups, [k canonical names], min matches).
    The groups capture the names the source gives to locals that are recognised by the SHAPE of their
    declaration; every whole-word use (not a member access) is renamed to the canonical name the rewrite
    rules and contracts use.  Capture is excluded: the canonical name must not already occur."""
    for d in decls:
        pat, names = d[0], d[1]
        lo = d[2] if len(d) > 2 else 1
        ms = list(re.finditer(pat, text, re.S))
        if len(ms) < lo:
            raise Undecided("extraction out of date: declaration %r matched %d times (need >= %d)" % (pat, len(ms), lo))
        if not ms:
            continue
        actual = ms[0].groups()
        for m in ms[1:]:
            if m.groups() != actual:
                raise Undecided("extraction out of date: declaration %r names differ between matches (%r / %r)" % (pat, actual, m.groups()))
        for a, c in zip(actual, names):
            if a == c:
                continue
            if re.search(r"(?<![\w.>:])%s\b" % re.escape(c), _no_comments(text)):
                raise Undecided("extraction out of date: cannot rename local %r to %r (name already in use)" % (a, c))
            text, n = re.subn(r"(?<![\w.>:])%s\b" % re.escape(a), c, text)
            log.append(dict(pattern=pat, replacement="%s -> %s" % (a, c), fired=n, expected="any", kind="local-rename",
                            note="alpha-renaming of a local recognised by its declaration"))
    return text


def _unique(text, pattern, what, flags=re.S):
    """pattern: regex that must match exactly once, or (regex, index, total): must match exactly
    `total` times and the index-th match (0-based) is taken."""
    idx, total = 0, 1
    if isinstance(pattern, tuple):
        pattern, idx, total = pattern
    ms = list(re.finditer(pattern, text, flags))
    if len(ms) != total:
        raise Undecided("extraction out of date: anchor %r for %s matched %d times (need %d)" % (pattern, what, len(ms), total))
    return ms[idx]


def _match_close(text, i, open_c, close_c):
    """text[i] == open_c ; return index of the matching close_c (skips strings, chars, comments)."""
    assert text[i] == open_c
    depth = 0
    j = i
    n = len(text)
    while j < n:
        c = text[j]
        if c == '"' or c == "'":
            q = c
            j += 1
            while j < n and text[j] != q:
                if text[j] == "\\":
                    j += 1
                j += 1
        elif text.startswith("//", j):
            while j < n and text[j] != "\n":
                j += 1
        elif text.startswith("/*", j):
            j = text.index("*/", j) + 1
        elif c == open_c:
            depth += 1
        elif c == close_c:
            depth -= 1
            if depth == 0:
                return j
        j += 1
    raise Undecided("extraction out of date: unbalanced %s" % open_c)


def body_after(text, anchor, what, nth_brace=0, keep_braces=False):
    """Body of the brace block that follows the (unique) anchor."""
    m = _unique(text, anchor, what)
    i = m.end()
    for _ in range(nth_brace + 1):
        i = text.index("{", i)
        j = _match_close(text, i, "{", "}")
        start, end = i, j
        i = j + 1
    return text[start:end + 1] if keep_braces else text[start + 1:end]


def span(text, begin, end, what, include_end=True):
    """Text from the unique `begin` anchor to the first `end` anchor after it."""
    mb = _unique(text, begin, what + " (begin)")
    me = re.compile(end, re.S).search(text, mb.end())
    if not me:
        raise Undecided("extraction out of date: end anchor %r for %s not found" % (end, what))
    return text[mb.start():(me.end() if include_end else me.start())]


def stmt_at(text, anchor, what):
    """The statement (loop or block) starting at the unique anchor: anchor must match the
    start of `for (`/`while (`/`if (`; returns header + body (brace block)."""
    m = _unique(text, anchor, what)
    i = text.index("(", m.start())
    j = _match_close(text, i, "(", ")")
    k = j + 1
    while text[k].isspace():
        k += 1
    if text[k] != "{":
        raise Undecided("extraction out of date: %s has no brace body" % what)
    e = _match_close(text, k, "{", "}")
    return text[m.start():e + 1]


def inline_temps(text, log):
    """N3: a const REFERENCE alias of a call-free lvalue (`const T &n = std::get<0>(best);`, `const T &n = a[i];`)
    is replaced by the aliased expression at every use.
    N4: a const local initialised from an expression and used exactly once, in the statement that immediately
    follows its declaration (nothing executes in between), is replaced by its initialiser at that use.
    N5: a const local with a call-free initialiser over names never written later in the region: inlined everywhere."""
    while True:
        m = re.search(r"\bconst [\w:<>, ]+?&\s*(\w+) = ((?:std::get<\d>\(\w+\)|\w+(?:\[[^\];]+\])*));[ \t]*\n?", text)
        if not m:
            break
        name, expr = m.group(1), m.group(2)
        rest = text[:m.start()] + text[m.end():]
        rest, n = re.subn(r"(?<![\w.>:])%s\b" % re.escape(name), expr, rest)
        log.append(dict(pattern="const T &%s = %s;" % (name, expr), replacement=expr, fired=n, expected="any", kind="alias-inline",
                        note="reference alias replaced by the aliased expression"))
        text = rest
    # N5: a const local whose initialiser is call-free and reads only names that are never written in the
    # region after the declaration is replaced by its initialiser at every use
    pos = 0
    while True:
        m = re.compile(r"\bconst (?:bool|auto|int|std::size_t|size_type|\w+) (\w+) = ([^;{}]+);[ \t]*\n?").search(text, pos)
        if not m:
            break
        name, expr = m.group(1), m.group(2)
        after = _no_comments(text[m.end():])
        ids = set(re.findall(r"[A-Za-z_]\w*", expr))
        call_free = (not re.search(r"[A-Za-z_]\w*\s*[(\[<]", expr) and "++" not in expr and "--" not in expr and "&" not in expr
                     and "->" not in expr and not re.search(r"(?:^|[(=,?:+\-*/%<>!|])\s*\*", expr))      # no call, no address-of, no dereference
        written = any(re.search(r"(?<![\w.>:])%s\s*(?:[-+*/%%|&^]?=(?!=)|\+\+|--)|(?:\+\+|--|&)\s*%s\b" % (re.escape(i), re.escape(i)), after) for i in ids)
        if call_free and ids and not written:
            rest, n = re.subn(r"(?<![\w.>:])%s\b" % re.escape(name), "(" + expr + ")", text[m.end():])
            text = text[:m.start()] + rest
            log.append(dict(pattern="const T %s = %s;" % (name, expr), replacement="(%s)" % expr, fired=n, expected="any", kind="temp-inline",
                            note="const temporary over names never written afterwards replaced by its initialiser"))
            pos = m.start()
        else:
            pos = m.end()
    pos = 0
    while True:
        m = re.compile(r"\bconst (?:bool|auto|int|std::size_t|size_type|\w+) (\w+) = ([^;{}]+);\s*").search(text, pos)
        if not m:
            break
        name, expr = m.group(1), m.group(2)
        uses = [u.start() for u in re.finditer(r"(?<![\w.>:])%s\b" % re.escape(name), text)]
        uses = [u for u in uses if u >= m.end() or u < m.start()]
        nxt = re.compile(r"[;{]").search(text, m.end())
        if len(uses) == 1 and nxt and m.end() <= uses[0] < nxt.start() and "++" not in expr and "--" not in expr and not re.search(r"[^=!<>]=[^=]", expr):
            u = uses[0]
            text = text[:m.start()] + text[m.end():u] + "(" + expr + ")" + text[u + len(name):]
            log.append(dict(pattern="const T %s = %s;" % (name, expr), replacement="(%s)" % expr, fired=1, expected="any", kind="temp-inline",
                            note="single-use const temporary used in the next statement replaced by its initialiser"))
            pos = m.start()
        else:
            pos = m.end()
    return text


def rewrite(text, rules, log):
    """rules: list of (pattern, replacement, expected_count, kind, note).  Regex patterns.
    expected_count may be an int or a (lo, hi) tuple."""
    for pat, repl, cnt, kind, note in rules:
        text, n = re.subn(pat, repl, text, flags=re.S)
        ok = (n == cnt) if isinstance(cnt, int) else (cnt[0] <= n <= cnt[1])
        log.append(dict(pattern=pat, replacement=repl if isinstance(repl, str) else "<fn>", fired=n,
                        expected=cnt, kind=kind, note=note))
        if not ok:
            raise Undecided("extraction out of date: rewrite %r fired %d times, expected %s" % (pat, n, cnt))
    return text


def strip_logging(text, log):
    """Drop #ifdef PARMCB_LOGGING ... #endif blocks (declared drop)."""
    out, n = re.subn(r"#ifdef PARMCB_LOGGING.*?#endif[^\n]*\n", "", text, flags=re.S)
    log.append(dict(pattern="#ifdef PARMCB_LOGGING..#endif", replacement="", fired=n, expected="any",
                    kind="drop", note="logging blocks dropped"))
    return out


def loops(text):
    """Offsets (header_start, header_end_paren) of every for/while loop in order of appearance.
    do-while tails (`} while (...);`) are skipped."""
    res = []
    for m in re.finditer(r"\b(for|while)\s*\(", text):
        i = text.index("(", m.start())
        j = _match_close(text, i, "(", ")")
        k = j + 1
        while k < len(text) and text[k].isspace():
            k += 1
        if k < len(text) and text[k] == ";" and m.group(1) == "while":
            continue
        res.append((m.start(), j))
    return res


def splice_loop_contracts(text, contracts, log):
    """contracts: {ordinal: 'clauses text'}; inserted between the loop header and its body."""
    ls = loops(text)
    for o in contracts:
        if o >= len(ls):
            raise Undecided("extraction out of date: loop ordinal %d not found (%d loops)" % (o, len(ls)))
    out = text
    for o in sorted(contracts, reverse=True):
        _, j = ls[o]
        out = out[:j + 1] + "\n" + contracts[o] + "\n" + out[j + 1:]
    log.append(dict(pattern="loop contracts", replacement="", fired=len(contracts), expected=len(contracts),
                    kind="contract-splice", note="loops found: %d" % len(ls)))
    return out


def stmt_after(text, anchor, start_regex, what):
    """The first statement matching start_regex (start of `for (` / `while (` / a call `f(`) after
    the unique anchor.  For loops/ifs returns header+brace body; for calls returns `f(...)`."""
    m = _unique(text, anchor, what)
    ms = re.compile(start_regex, re.S).search(text, m.end())
    if not ms:
        raise Undecided("extraction out of date: no %r after anchor for %s" % (start_regex, what))
    i = text.index("(", ms.start())
    j = _match_close(text, i, "(", ")")
    k = j + 1
    while k < len(text) and text[k].isspace():
        k += 1
    if k < len(text) and text[k] == "{":
        e = _match_close(text, k, "{", "}")
        return text[ms.start():e + 1]
    return text[ms.start():j + 1]


def call_args(call_text):
    """Split the top-level arguments of `f(a, b(c,d), [&](x){...})`."""
    i = call_text.index("(")
    j = _match_close(call_text, i, "(", ")")
    inner = call_text[i + 1:j]
    args, depth, cur = [], 0, ""
    k = 0
    while k < len(inner):
        c = inner[k]
        if c in "([{<" and not (c == "<" and (k == 0 or not (inner[k - 1].isalnum() or inner[k - 1] in "_:"))):
            depth += 1
        elif c in ")]}" or (c == ">" and depth > 0 and inner[k - 1] != "-" and _angle_open(cur)):
            depth -= 1
        if c == "," and depth == 0:
            args.append(cur.strip())
            cur = ""
        else:
            cur += c
        k += 1
    if cur.strip():
        args.append(cur.strip())
    return args


def _angle_open(cur):
    return cur.count("<") > cur.count(">")


def plain_harness(text, sig, harness_sig, call, ret=None, pre_call=""):
    """Bounded-variant helper: `sig` (e.g. 'bool f(void)') is followed in `text` by contract clauses and the body.  The clauses
    are removed; the harness `harness_sig` (from there to the end of the text) is replaced by one that ASSUMES every requires
    clause, calls the function (`call`, result in `ret` if given) and ASSERTS every ensures clause (__CPROVER_return_value -> ret).
    Clauses using __CPROVER_old are not supported."""
    a = text.index(sig)
    i = a + len(sig)
    clauses_end = i
    req, ens = [], []
    while True:
        m = re.compile(r"\s*(?:/\*.*?\*/\s*)*__CPROVER_(requires|ensures|assigns)\(", re.S).match(text, clauses_end)
        if not m:
            break
        j = m.end(); d = 1; e = j
        while d:
            d += text[e] == "("; d -= text[e] == ")"; e += 1
        if m.group(1) == "requires":
            req.append(text[j:e - 1])
        elif m.group(1) == "ensures":
            ens.append(text[j:e - 1])
        clauses_end = e
    if any("__CPROVER_old" in c for c in ens):
        raise Undecided("plain_harness: a postcondition uses __CPROVER_old")
    h = text.index(harness_sig)
    body = ("%s {\n" % harness_sig) + "".join("  __CPROVER_assume(%s);\n" % r for r in req) + pre_call + \
           ("  %s %s = %s;\n" % (ret[0], ret[1], call) if ret else "  %s;\n" % call) + \
           "".join('  __CPROVER_assert(%s, "post.%d");\n' % (c.replace("__CPROVER_return_value", ret[1] if ret else "0"), k + 1) for k, c in enumerate(ens)) + \
           '  __CPROVER_assert(0, "VP_REACH end of harness");\n}\n'
    return text[:a] + sig + "\n" + text[clauses_end:h] + body


def guarded(name, fn, *a, **kw):
    """Build a unit spec; an extraction failure becomes an `error` spec (reported UNDECIDED for
    that unit only) instead of aborting the whole property."""
    try:
        return fn(*a, **kw)
    except Undecided as e:
        return dict(unit=name, error=str(e))
