"""C20 - the concurrency knob actually limits TBB parallelism."""
from lib import engine, demos, native
from lib.core import tier
from units import k26_knob

LEVEL = "proof"
EXPLANATION = (
    "PROVED by CBMC under the contract of tbb::global_control (active value = minimum over live control objects, "
    "made executable in stubs/knob/prelude.hpp): set_global_tbb_concurrency, included VERBATIM through the C++ front "
    "end, leaves the allowed parallelism at n after it returns, for every n>=1, every call sequence (three "
    "consecutive calls from an arbitrary earlier history; longer sequences by induction since at most one control "
    "object stays alive) .  PROVED by CBMC (DFCC): the --cores option block of both TBB demos calls the knob with "
    "cores (or the hardware concurrency for 0) whenever --parallel is selected, for every valuation of the unrelated "
    "flags.  BOUNDED observations against the REAL oneTBB: active_value after every call sequence over 1..8 (16), "
    "each followed by a parallel_for; the demo executables (built with the guarded hook H2) report the limit in "
    "force right before the algorithm for every option combination with --parallel=true --cores=n.")


def _replay_knob(vals, failed):
    import re
    def num(v):
        m = re.match(r"\d+", v or "")
        return m.group(0) if m else "1"
    return native.replay_run("e3_knob", ["--replay", num(vals.get("vp_in_n1")), num(vals.get("vp_in_n2"))])


def run(rep):
    specs = k26_knob.units(tier())
    for s in specs:
        if s.get("unit") == "K26_set_global_tbb_concurrency":
            s["replay"] = _replay_knob
    engine.run_units(rep, specs)
    engine.run_native(rep, "e3_knob", functions={"set_global_tbb_concurrency (real oneTBB)": "bounded(all sequences over 1..8/16)"},
                      assumptions=["oneTBB 2021.8 as installed"], entry_points=["set_global_tbb_concurrency"])
    r = demos.run_all(want_mpi=False, only_cores=True)
    r["driver"] = "demos[--cores]"
    r["functions"] = {"main() --cores handling of mcb-dimacs / approx-mcb-dimacs": "bounded(all option combinations with --parallel=true --cores=n)"}
    rep.add_bounded(r)
