"""C14 - candidate cycle collections are sound, nested and sufficient."""
from lib import engine

LEVEL = "exploration"
EXPLANATION = (
    "Contract K14 is enforced as a BOUNDED stand-in on the real HortonCyclesBuilder / FVSCyclesBuilder / "
    "ISOCyclesBuilder: every candidate (tree, edge) has both endpoints in the tree, its two root paths are "
    "vertex-disjoint except at the root (a simple cycle through the root), the recorded weight equals the true "
    "cycle weight and w(e)+d(r,u)+d(r,v) (Floyd-Warshall); FVS and ISO collections are subsets of Horton's as "
    "(root vertex, edge) pairs; greedy selection by weight under GF(2) independence from each collection reaches "
    "the brute-force optimum weight and dimension.  The builders are Boost.Graph templates CBMC cannot parse; no "
    "deductive content is claimed.")


def run(rep):
    engine.run_native(rep, "e3_components", driver="e3_components[C14]", args=["--only", "C14"],
                      functions={"HortonCyclesBuilder": "bounded", "FVSCyclesBuilder": "bounded", "ISOCyclesBuilder": "bounded",
                                 "SPTree::create_candidate_cycles": "bounded"},
                      assumptions=["exact-domain weights (the inexact case is C09)"],
                      entry_points=["HortonCyclesBuilder", "FVSCyclesBuilder", "ISOCyclesBuilder"])
