"""C14 - candidate cycle collections are sound, nested and sufficient."""
from lib import engine
from lib.core import tier
from units import k14_candidates, k14b_builders

LEVEL = "other"
EXPLANATION = (
    "PROVED by CBMC (DFCC, two loop contracts, ghost edge): SPTree::create_candidate_cycles - the function all three "
    "builders obtain their candidates from - records as tree edges exactly the predecessor edges of the tree nodes and "
    "emits a candidate for an edge IF AND ONLY IF it is a non-tree edge whose endpoints both have tree nodes and whose root "
    "paths start with different vertices; the candidate carries this tree's id, the edge and the weight "
    "w(e)+d(root,src)+d(root,tgt) (K14a; tree given by tables that are K12's postcondition; table caps n<=4,m<=7, thorough "
    "8/14).  PROVED(<=4 trees x 3 candidates, thorough 6 x 4; loop contracts with quantified invariants): HortonCyclesBuilder and "
    "FVSCyclesBuilder create one tree per vertex resp. per feedback vertex, in order, tree i with id i, and their candidate list is exactly "
    "the concatenation of the trees' candidate lists - nothing dropped, added or duplicated (K14b; with K14a and K13 this is the nestedness "
    "of the FVS collection in Horton's).  Everything else is BOUNDED: Contract K14 is enforced as a BOUNDED stand-in on the real HortonCyclesBuilder / FVSCyclesBuilder / "
    "ISOCyclesBuilder: every candidate (tree, edge) has both endpoints in the tree, its two root paths are "
    "vertex-disjoint except at the root (a simple cycle through the root), the recorded weight equals the true "
    "cycle weight and w(e)+d(r,u)+d(r,v) (Floyd-Warshall); FVS and ISO collections are subsets of Horton's as "
    "(root vertex, edge) pairs; greedy selection by weight under GF(2) independence from each collection reaches "
    "the brute-force optimum weight and dimension.  ISOCyclesBuilder (the isometric-cycle graph) is not under contract.")


def run(rep):
    engine.run_units(rep, k14_candidates.units(tier()) + k14b_builders.units(tier()))
    engine.run_native(rep, "e3_components", driver="e3_components[C14]", args=["--only", "C14"],
                      functions={"HortonCyclesBuilder": "bounded", "FVSCyclesBuilder": "bounded", "ISOCyclesBuilder": "bounded",
                                 "SPTree::create_candidate_cycles": "bounded"},
                      assumptions=["exact-domain weights (the inexact case is C09)"],
                      entry_points=["HortonCyclesBuilder", "FVSCyclesBuilder", "ISOCyclesBuilder"])
