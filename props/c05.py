"""C05 - approximate algorithms return a basis of the caller's graph with true weight."""
from lib import engine
from lib.core import tier
from units import k17_spanner, k18d_dijkstra, k18b_closing
from . import common

LEVEL = "other"
KINDS = {"count", "foreign-edge", "not-simple-cycle", "dependent", "exception", "crash", "returned-weight",
         "approx-exception-type"}
EXPLANATION = (
    "PROVED by CBMC (DFCC, nested loop contracts with ghost indices and ghost partial sums): the loop of "
    "BaseApproxSpannerAlgorithm::run that hands the exact phase's cycles to the caller emits one output cycle per spanner "
    "cycle, edge for edge the TRANSLATION of the spanner edge (a caller's edge by K17a), and adds to the returned weight "
    "exactly the caller's weights of those edges (K18a; small ghost tables); and parmcb::dijkstra, which supplies the path that "
    "closes a dropped edge, computes exact shortest-path distances and a tight predecessor tree (K18d, n<=4/5, loop contracts "
    "with quantified invariants, heap through its contract; lemma DESIGN 10.10; direct Bellman-Ford variant + native replay); the loop body "
    "that closes ONE dropped edge - dijkstra by that contract, the predecessor walk closed by a loop contract with variant DIST - emits the translated "
    "tree path followed by the edge itself and reports w(e) + the CALLER's weights of the path = w(e) + the shortest spanner distance (K18b, n<=4/5).  "
    "BOUNDED for everything else: "
    "Contract K18 (for every k>=1: exactly m-n+c simple cycles, GF(2)-independent, every edge descriptor is one "
    "of the CALLER's edges - checked by identity against the caller's edge set and by reading the caller's "
    "weight map through the descriptor after the call returned - and return value = sum of caller weights) is "
    "enforced as a BOUNDED stand-in on the real approx_mcb_sva_{signed,fvs_trees,iso_trees}: all labelled "
    "graphs n<=5 (thorough 6), all weightings n<=4, tie-heavy families, seeded random graphs, k in {1,2,3,5,n}, "
    "double and int.  The entry points are compositions of Boost.Graph templates outside CBMC's reach; no "
    "deductive content is claimed.  The use-after-free side of the property is exercised under ASan in C07.")


def run(rep):
    engine.run_units(rep, [u for u in k17_spanner.units(tier()) if u.get("unit", "").startswith("K18a")] + k18d_dijkstra.units(tier()) + k18b_closing.units(tier()))
    common.native_filtered(rep, "e3_approx", KINDS, args=["--only", "approx"],
                           functions={"approx_mcb_sva_signed": "bounded", "approx_mcb_sva_fvs_trees": "bounded",
                                      "approx_mcb_sva_iso_trees": "bounded", "BaseApproxSpannerAlgorithm::run": "bounded",
                                      "NonSpannerEdgesCycleBuilder": "bounded"},
                           assumptions=["exact-domain weights", "Graph type with interior edge_weight property (required by the library itself)"],
                           entry_points=["approx_mcb_sva_signed", "approx_mcb_sva_fvs_trees", "approx_mcb_sva_iso_trees"])
