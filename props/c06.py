"""C06 - approximation guarantee: weight <= (2k-1) x optimum, exact for k = 1, k = 0 rejected."""
from lib import engine
from lib.core import tier
from units import k17_spanner, k17b_bfs, k18b_closing
from . import common

LEVEL = "other"
KINDS = {"approx-ratio", "approx-k1-not-exact", "approx-k0-accepted", "approx-k0-emitted", "approx-below-optimum",
         "approx-exception-type", "crash", "nonspanner-cycle-stretch"}
EXPLANATION = (
    "PROVED by CBMC (loop-free, every k): BaseApproxSpannerAlgorithm::run throws for k=0 before the exact phase or any "
    "write to the output iterator, and accepts every k>=1 (K18c); the spanner loop hands is_bfs_reachable the hop bound 2k-1 "
    "(K17a, callee precondition) and drops an edge iff the answer was true; is_bfs_reachable answers true iff the target is within "
    "max_hops hops (K17b, n<=4/6, see C15).  The quantitative guarantee itself is a global optimum argument no CBMC contract "
    "expresses and is BOUNDED: Contract K18 continued: ret <= (2k-1)*OPT with OPT from the brute-force oracle (cross-checked against an "
    "independent Horton oracle), k=1 => ret = OPT, k=0 => std::runtime_error and no cycle emitted.  BOUNDED "
    "stand-in on the real sequential approximate entry points over the exact-domain set x k in {0,1,2,3,5,n}; "
    "the closing cycle of a dropped edge weighs w(e) + the shortest spanner distance of its endpoints (K18b as a CBMC unit, modular against "
    "dijkstra's contract K18d); the carrier contracts are K17 (spanner stretch and girth, C15) and K18b (the cycle emitted for a dropped edge e closes it "
    "with a path of retained edges weighing at most (2k-1)*w(e) - the per-edge fact the published bound is summed from; a "
    "change that breaks it is reported although the global ratio may still hold on the small graphs explored).  No deductive content (templates outside "
    "CBMC's reach).")


def run(rep):
    engine.run_units(rep, [u for u in k17_spanner.units(tier()) if u.get("unit", "").startswith(("K18c", "K17a", "K17c"))] + k17b_bfs.units(tier()) + k18b_closing.units(tier()))
    common.native_filtered(rep, "e3_approx", KINDS, args=["--only", "approx"],
                           functions={"approx_mcb_sva_signed": "bounded", "approx_mcb_sva_fvs_trees": "bounded",
                                      "approx_mcb_sva_iso_trees": "bounded"},
                           assumptions=["exact-domain weights; OPT from brute force (graphs within oracle reach)"],
                           entry_points=["approx_mcb_sva_signed", "approx_mcb_sva_fvs_trees", "approx_mcb_sva_iso_trees"])
