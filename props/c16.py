"""C16 - ForestIndex is a bijection that numbers non-forest edges first."""
from lib import engine
from lib.core import tier
from units import k15_forestindex, k15a_forest

LEVEL = "other"
EXPLANATION = (
    "PROVED(m<=16) by CBMC (DFCC, loop contract with a ghost edge, no quantifier): the two-counter numbering "
    "loop of ForestIndex::create_index, given spanning_forest's contract (k components, exactly n-k forest "
    "edges), writes only inside reverse_index[0..m), makes index/reverse_index mutually inverse (hence a "
    "bijection onto 0..m-1) and gives exactly the off-forest edges the indices below m-n+k.  The loop of the "
    "code is closed by its loop contract; the cap m<=16 comes only from defining ghost prefix counts by an "
    "unwound harness loop.  PROVED(n<=5, thorough 8) by CBMC (DFCC, three nested loop contracts, ghost vertex / adjacency slot / "
    "queue position / output position): detail::spanning_forest itself - returns c >= 1 with exactly n-c emitted edges; every emitted "
    "edge joins an earlier-discovered vertex to the vertex it discovers, which is no component root and is discovered by exactly "
    "this edge; every vertex is reached; adjacent vertices get the same component label and each label has one root - from which "
    "'c = number of components, the emitted edges are a spanning forest' follows by the lemma of DESIGN 10.7.  std::unordered_set, "
    "std::queue and boost::out_edges enter through their contracts; the filling of the set is a separate bounded unit (n<=24).  BOUNDED stand-in: the whole class and spanning_forest itself on every labelled graph "
    "with n<=6, families and seeded random graphs, against union-find.")


def run(rep):
    engine.run_units(rep, k15_forestindex.units(tier()) + k15a_forest.units(tier()))
    engine.run_native(rep, "e3_components", driver="e3_components[C16]", args=["--only", "C16"],
                      functions={"ForestIndex (whole class)": "bounded(all graphs n<=6 + families + random)",
                                 "detail::spanning_forest": "bounded(all graphs n<=6 + families + random)"},
                      entry_points=["ForestIndex", "spanning_forest"])
