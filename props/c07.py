"""C07 - no undefined behaviour or leaked internals on valid inputs."""
import os
from lib import engine, native
from lib.core import tier, VERIF
from units import k07_reducers, k04_update, k12_scalar, k24_line, k15_forestindex, k01_spvecgf2, k26_knob

LEVEL = "other"
SAN = ("-fsanitize=address,undefined", "-fno-sanitize-recover=all", "-fno-omit-frame-pointer", "-DVP_SANITIZE")
EXPLANATION = (
    "Two sources, kept apart.  (1) PER FUNCTION, ALL INPUTS IN BOUND (CBMC): every extracted/included unit is "
    "verified with CBMC 6's safety obligations switched on - array bounds, pointer validity and lifetime, pointer "
    "arithmetic, signed overflow, division by zero, shifts, conversions - plus frame (assigns) clauses; this run "
    "re-checks the units anchored in this property's files (reducers, update loops/tasks, swap, closed_plus, label "
    "order prefix, DIMACS line step, ForestIndex numbering, SpVecGF2 lengths <=2, the concurrency knob) and counts "
    "only their safety/frame obligations as this property's.  (2) BOUNDED (sanitizers): the bounded stand-in "
    "drivers of C01-C06, C10, C12-C18 are rebuilt with AddressSanitizer + LeakSanitizer + UBSan "
    "(-fno-sanitize-recover) and run on their quick sets incl. the empty graph, single vertex, forests and "
    "disconnected graphs, sequentially and with the real oneTBB; every edge descriptor handed back by the "
    "approximate algorithms is dereferenced through the caller's weight map after the call returned.  Any sanitizer "
    "report, leak, failed repository assert or abnormal termination is a violation of the language-level contract "
    "of the entry point that was running.  Not claimed: UB that neither CBMC nor a sanitizer observes (DESIGN 4/C07).")


def _uninit_differential(rep):
    """Reads of uninitialised automatic storage: the same driver is built twice, with every automatic variable that has no
    initialiser filled with a byte pattern resp. with zeros (gcc -ftrivial-auto-var-init=pattern|zero); a program whose
    observable results differ between the two builds reads such a variable.  Applied to the DIMACS reader (digest over every
    parsed graph of the grammar enumerator) and to the exact / approximate entry points (digest over returned weight and
    number of emitted cycles - the part of the result that does not depend on the heap layout)."""
    import subprocess, time
    from concurrent.futures import ThreadPoolExecutor
    targets = [("e3_dimacs", "read_dimacs_from_file", ["--shard", "0/1"], ("-ltbb", "-lboost_timer")),
               ("e3_exact", "exact entry points", ["--shard", "0/6"], ("-ltbb", "-lboost_timer")),
               ("e3_approx", "approximate entry points", ["--shard", "0/6", "--only", "approx"], ("-ltbb", "-lboost_timer"))]
    def one(job):
        name, site, args, libs, mode = job
        b = native.build("uninit_%s_%s" % (mode, name), source=os.path.join(VERIF, "harness/%s.cpp" % name),
                         flags=("-ftrivial-auto-var-init=%s" % mode,), opt="-O1", libs=libs)
        p = subprocess.run([b] + args, stdout=subprocess.PIPE, stderr=subprocess.STDOUT, text=True, errors="replace", timeout=2400,
                           env=dict(os.environ, VERIF_TIER="quick"))
        dg = [l for l in p.stdout.splitlines() if l.startswith("VP-DIGEST ")]
        return (name, mode), (dg[-1] if dg and p.returncode in (0, 1) else "no digest (exit %s)" % p.returncode)
    t0 = time.time()
    jobs = [(n, s_, a, l, m) for (n, s_, a, l) in targets for m in ("pattern", "zero")]
    with ThreadPoolExecutor(len(jobs)) as ex:
        outs = dict(ex.map(one, jobs))
    viol, und = [], []
    for name, site, args, libs in targets:
        pz = (outs[(name, "pattern")], outs[(name, "zero")])
        if not all(o.startswith("VP-DIGEST") for o in pz):
            und.append("%s: %s / %s" % (name, pz[0], pz[1]))
        elif pz[0] != pz[1]:
            viol.append(dict(site=site, kind="uninitialised-read",
                             what="the observable results of %s differ between a build that fills uninitialised automatic variables with a byte pattern and one that fills them with zeros (%s vs %s): an uninitialised local is read" % (name, pz[0], pz[1]),
                             no_input=True, data=dict(digests={"pattern": pz[0], "zero": pz[1]}, how="g++ -ftrivial-auto-var-init=pattern|zero, harness/%s.cpp %s" % (name, " ".join(args)))))
    rep.add_bounded(dict(driver="auto-var-init differential[e3_dimacs,e3_exact,e3_approx]", status="undecided" if und else ("violated" if viol else "ok"), reason="; ".join(und) if und else None,
                         evaluations=len(jobs), distinct=len(targets), violations=viol, wall_s=round(time.time() - t0, 2),
                         rule="each driver built twice (uninitialised automatics = byte pattern / = 0) and run on the same inputs; digests of the layout-independent results compared",
                         functions={"read_dimacs_from_file, exact and approximate entry points (uninitialised reads)": "bounded(quick sets, one shard)"},
                         assumptions=["gcc's -ftrivial-auto-var-init covers automatic variables only (not heap storage)"],
                         entry_points=["read_dimacs_from_file", "mcb_sva_*", "approx_mcb_sva_*"], samples=[outs[(targets[0][0], "pattern")]]))


def run(rep):
    t = tier()
    specs = []
    specs += k07_reducers.units(t)
    specs += k04_update.units(t)
    specs += [s for s in k12_scalar.units(t) if "size_t" in s.get("unit", "") or "int" in s.get("unit", "")]
    specs += k24_line.units(t) + k15_forestindex.units(t)
    specs += [s for s in k01_spvecgf2.units(t) if any(x in s.get("unit", "") for x in ("_0x", "_1x", "_2x0", "_2x1", "_2x2", "self_", "unary"))]
    specs += [s for s in k26_knob.units(t) if s.get("unit", "").startswith("K26")]
    results = engine.run_units(rep, specs, jobs=14)
    # only safety / frame failures belong to this property; contract failures are reported by their own properties
    rep.violations = [v for v in rep.violations if v["kind"] in ("safety", "frame")]
    saf = 0
    for r in results:
        for line in []:
            pass
    rep.notes.append("CBMC units re-checked here: %d; all their obligations include CBMC's default safety checks" % len(results))
    drivers = [
        dict(name="san_e3_exact", source=os.path.join(VERIF, "harness/e3_exact.cpp"), flags=SAN, opt="-O1"),
        dict(name="san_e3_search", source=os.path.join(VERIF, "harness/e3_search.cpp"), flags=SAN, opt="-O1"),
        dict(name="san_e3_components", source=os.path.join(VERIF, "harness/e3_components.cpp"), flags=SAN, opt="-O1"),
        dict(name="san_e3_approx", source=os.path.join(VERIF, "harness/e3_approx.cpp"), flags=SAN, opt="-O1"),
        dict(name="san_e3_tbb_real", source=os.path.join(VERIF, "harness/e3_tbb.cpp"), flags=SAN + ("-DVP_REAL_TBB",), opt="-O1"),
        dict(name="san_e3_dimacs", source=os.path.join(VERIF, "harness/e3_dimacs.cpp"), flags=SAN, opt="-O1"),
        dict(name="san_e3_fp", source=os.path.join(VERIF, "harness/e3_fp.cpp"), flags=SAN, opt="-O1", libs=()),
        dict(name="san_e3_spvec", source=os.path.join(VERIF, "harness/e3_spvec.cpp"), flags=SAN, opt="-O1", libs=()),
    ]
    bins = native.build_many(drivers)
    env = {"ASAN_OPTIONS": "exitcode=97:detect_leaks=1:abort_on_error=0", "UBSAN_OPTIONS": "print_stacktrace=1:halt_on_error=1:exitcode=98",
           "LSAN_OPTIONS": "exitcode=96", "VERIF_TIER": "quick"}
    for d in drivers:
        args = ["--only", "approx"] if d["name"] == "san_e3_approx" else []
        r = native.run_driver(bins[d["name"]], d["name"] + "[ASan+LSan+UBSan]", args=args, env=env, timeout=2400,
                              functions={d["name"][4:] + " entry points under sanitizers": "bounded(quick set)"},
                              assumptions=["libtbb and libstdc++ are not instrumented"], entry_points=[d["name"][4:]])
        r["violations"] = [v for v in r["violations"] if v["kind"] == "crash"]
        rep.add_bounded(r)
    _uninit_differential(rep)
