"""C09 - exact variants stay meaningful on inexact floating-point weights."""
from lib import engine

LEVEL = "exploration"
EXPLANATION = (
    "Floating point with rounding is outside CBMC's practical reach for these templates, so only the bounded "
    "stand-in: contract K16 with tolerance on seeded simple graphs (n<=9/10, dimension<=9/11) with weights uniform "
    "in [1e-3,1e3], k/10, k/100 and few-valued decimals (many near-ties), all six exact variants (sequential and "
    "real oneTBB).  Validity (C01) must hold exactly; the returned value must equal the emitted weight and be within "
    "a relative 1e-9 of the true minimum computed by brute force in exact 2^-70 fixed-point arithmetic.  Known "
    "finding D7 (isometric-tree variants) is listed in known_findings.txt by site and failure kind; any other "
    "failure - other variants, other kinds - is still reported as a VIOLATION.")


def run(rep):
    engine.run_native(rep, "e3_inexact",
                      functions={"mcb_sva_signed / _fvs_trees / _iso_trees (+_tbb) on inexact doubles": "bounded(seeded graphs)"},
                      assumptions=["weights in [1e-3,1e3] so that 2^-70 fixed point is exact for every weight and sum"],
                      entry_points=["mcb_sva_signed", "mcb_sva_fvs_trees", "mcb_sva_iso_trees", "mcb_sva_signed_tbb", "mcb_sva_fvs_trees_tbb", "mcb_sva_iso_trees_tbb"])
