"""C17 - SpVecGF2 implements GF(2) vector arithmetic in canonical form."""
from lib import engine
from lib.core import tier
from units import k01_spvecgf2, k02_merge

LEVEL = "other"
EXPLANATION = (
    "Every sequence of operations is handled the contract way: representation invariant canon (strictly "
    "increasing) + abstraction view; one contract per public operation that ASSUMES canon on arbitrary input "
    "states (not only constructor-reachable ones) and re-establishes it, so induction over the history is "
    "trivial and unbounded in history length; what remains bounded is the vector length.  CBMC (C++ front end) "
    "verifies the UNMODIFIED header with symbolic 64-bit coordinates: one run per concrete length pair (na,nb) "
    "in [0,3]^2 (thorough [0,4]^2, pairs that hit the time cap are reported as not covered) for +, +=, *(vec), "
    "*(set); aliasing cases; constructors/assignment/move/clear with symbolic length.  Counterexamples are "
    "replayed on the real std::vector-based class.  In addition operator+ is extracted to C and its three merge loops are "
    "closed by LOOP CONTRACTS (ghost coordinate, ghost prefix-membership tables): canonical result, size bound and "
    "symmetric-difference semantics for all operand lengths <= 8 (thorough 12), the cap coming only from the ghost tables.  Additionally a native bounded stand-in runs seeded "
    "operation histories against a dense model.  Nothing here is an unbounded proof: level = bounded.")


def run(rep):
    specs = k01_spvecgf2.units(tier()) + k02_merge.units(tier())
    results = engine.run_units(rep, specs, jobs=14)
    if tier() == "thorough":
        # a length pair that hits its cap shrinks the reported bound; it is not a failure of the check
        still = []
        for u in rep.undecided:
            if "solver timeout" in u and ("4x" in u or "x4" in u):
                rep.notes.append("NOT COVERED (time cap): " + u)
            else:
                still.append(u)
        rep.undecided = still
    engine.run_native(rep, "e3_spvec", build_kwargs=dict(libs=()),
                      functions={"SpVecGF2 (real std::vector) operation histories": "bounded(seeded histories of 16 ops)"},
                      entry_points=["SpVecGF2<unsigned long>"])
