"""C11 - demo programs gate bad input, terminate, and print the library's result."""
from lib import engine, demos
from lib.core import tier
from units import k27_gate

LEVEL = "other"
EXPLANATION = (
    "PROVED by CBMC (loop-free, every flag valuation): between the gate and the weight report, mcb-dimacs and approx-mcb-dimacs call exactly ONE library entry point - "
    "the one the flags select - never leave main before it (the approximate demo only for k <= 1, before any call), and print as 'MCB weight' exactly the value that call "
    "returned (K27b).  PROVED by CBMC (loop-free regions, DFCC): the input-validation block of each of the four demo mains, extracted "
    "between fclose(fp) and the start of the algorithm phase, with the three predicates as unconstrained booleans "
    "and a symbolic rank: any predicate true => the block returns EXIT_FAILURE on EVERY rank before the algorithm "
    "phase, rank 0 prints a diagnostic; a valid graph passes on every rank.  BOUNDED stand-in for the contract of "
    "main(): the executables are rebuilt from the working tree and run on 5 valid files (known optimum, one without "
    "final newline, one forest) and 5 invalid ones under every algorithm/parallel/verbose/cores combination, the "
    "approximate demo with k=2,3, and the MPI demo under mpiexec -n 1..3 (thorough 4) with a 90 s watchdog: bad "
    "input => non-zero exit, diagnostic, no algorithm output, termination of all ranks; valid input => exit 0 and "
    "'MCB weight = OPT' (approximate: within [OPT,(2k-1)OPT]) identically for every combination.")


def run(rep):
    engine.run_units(rep, k27_gate.units(tier()))
    r = demos.run_all(want_mpi=True)
    r["violations"] = [v for v in r["violations"] if v["kind"] not in ("demo-cores-ignored", "demo-hook-missing")]
    r["functions"] = {"main() of mcb-dimacs / approx-mcb-dimacs / collection-stats-dimacs / mcb-dimacs-mpi": "bounded(enumerated files x options x process counts)"}
    r["assumptions"] = ["OpenMPI start-up as root with --oversubscribe in this sandbox; boost::program_options parsing trusted"]
    rep.add_bounded(r)
