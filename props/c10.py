"""C10 - DIMACS reader and input validators describe the file faithfully."""
from lib import engine
from lib.core import tier
from units import k24_line, k25_predicates

LEVEL = "other"
EXPLANATION = (
    "PROVED by CBMC (DFCC, loop-free, every 1024-byte buffer satisfying the fgets contract, ghost index): the "
    "line-normalisation step of read_dimacs_from_file preserves the whole content of the line and removes only a "
    "trailing newline (K24); the branch for 'e'/'a' lines - sscanf through its contract for this format (only converted fields are written), the "
    "vertex map holding the keys 1..n - raises the error exactly when an endpoint is not a declared 1-based id and otherwise appends exactly "
    "one edge joining the named vertices with the given weight, 1 when the weight field is missing (K24b, loop-free, every int endpoint); the 'p' line "
    "creates as many vertices as it declares and the map with exactly the keys 1..n (K24c, n<=6); has_loops and has_non_positive_weights, extracted with the Boost.Graph edge range bound to "
    "edge ordinals, return true exactly when some edge is a self-loop / has weight <= 0 (loop contracts with a ghost "
    "edge, unbounded in the number of edges); has_multiple_edges answers true exactly when some vertex lists the same opposite endpoint at two "
    "out-edge slots (loop contracts with invariants quantified over the bounded vertex / slot range, n<=5; std::set bound to a boolean table).  BOUNDED stand-in for the rest (K25): the real reader is run through fmemopen on "
    "every text of a grammar enumerator (declared vertices <=4, <=3/4 edge lines over endpoints incl. an "
    "undeclared vertex, e/a lines, omitted/integer/decimal/negative/zero weights, comments in every slot, with "
    "and without final newline) and compared field by field; the three predicates are compared with their "
    "definitions on every multigraph with <=4 vertices and <=4/5 edges (has_multiple_edges on loop-free ones).")


def run(rep):
    engine.run_units(rep, k24_line.units(tier()) + k25_predicates.units(tier()))
    engine.run_native(rep, "e3_dimacs",
                      functions={"read_dimacs_from_file": "bounded(grammar enumerator)", "has_loops": "bounded(all multigraphs n<=4,m<=4/5)",
                                 "has_multiple_edges": "bounded(loop-free multigraphs n<=4,m<=4/5)",
                                 "has_non_positive_weights": "bounded(all multigraphs n<=4,m<=4/5)"},
                      assumptions=["sscanf/fgets of the real libc are executed, not modelled; lines shorter than the 1024-byte buffer"],
                      entry_points=["read_dimacs_from_file", "has_loops", "has_multiple_edges", "has_non_positive_weights"])
