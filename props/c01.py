"""C01 - exact algorithms emit a genuine basis of the cycle space."""
from lib import engine
from lib.core import tier
from units import k04_update, k10_phase, k16_mainloop
from . import common

LEVEL = "other"
EXPLANATION = (
    "Contract decomposition (DESIGN 4/C01): the emitted cycles are independent because the matrix "
    "(odd_{S_k}(C_j)) is unit lower-triangular.  PROVED by CBMC (DFCC, loop contracts, unbounded in the "
    "cycle-space dimension, modular over the SpVecGF2 operator contracts): the support-update loop at its 3 "
    "sequential sites establishes orthogonality of every later witness to C_k and preserves it for earlier "
    "cycles (K4); the sparsest-support swap is a transposition inside rows k..csd-1 and preserves the main-loop "
    "invariant (K6); the shortest-odd-cycle phase of mcb_sva_signed (both branches, K10) calls the search with exactly "
    "the hidden-edge chain suffix and endpoints its contract K9 requires.  PROVED(csd<=8, thorough 10; all loops closed by loop contracts with invariants quantified over the cycle-space dimension; the unwound csd<=5 variants remain as bounded fallback): the "
    "COMPOSED main loops of mcb_sva_signed and _mcb_sva_trees - real initialisation, swap, update, output and weight "
    "accumulation, only the search replaced by its contract (an existing cycle that is odd w.r.t. support[k]) - emit exactly "
    "csd cycles whose incidence with the witnesses is unit lower-triangular (<W_j,C_j>=1, <W_j,C_i>=0 for i<j), i.e. "
    "linearly independent, and return the sum of the reported weights (K16).  BOUNDED stand-in (never counted as proof): the whole-function postcondition K16 - count "
    "m-n+c, every cycle a simple cycle of distinct edges of the caller's graph, GF(2) rank = count - enforced "
    "by executing the real g++-compiled templates on every member of a finite exact-domain set.")


def run(rep):
    engine.run_units(rep, k04_update.units(tier(), which=("K4", "K6")) + k10_phase.units(tier()) + k16_mainloop.units(tier()))
    common.native_filtered(
        rep, "e3_exact", common.C01_KINDS,
        functions={"mcb_sva_signed": "bounded(E3 set)", "mcb_sva_fvs_trees": "bounded(E3 set)",
                   "mcb_sva_iso_trees": "bounded(E3 set)"},
        assumptions=["exact domain: weights integer or dyadic so that all sums are exact",
                     "graph type adjacency_list<vecS,vecS,undirectedS> with interior edge_weight property (the type used by tests and demos)"],
        entry_points=["mcb_sva_signed", "mcb_sva_fvs_trees", "mcb_sva_iso_trees"])
    common.native_filtered(rep, "e3_search", common.C01_KINDS, functions=common.SEARCH_FUNCS,
                           assumptions=common.SEARCH_ASSUME,
                           entry_points=["bidirectional_signed_dijkstra", "OddCycleFinder::find"])
