"""C03 - TBB-parallel entry points keep their contract under every schedule."""
import os
from lib import engine, native
from lib.core import tier, VERIF
from units import k07_reducers, k04_update, k08_bodies, k16_mainloop
from . import common

LEVEL = "other"
KINDS = common.C01_KINDS | common.C02_KINDS | {"approx-ratio"}
EXPLANATION = (
    "Under TBB's documented contract the value of parallel_reduce(range,id,body,join) is schedule independent on "
    "the (exists,weight) view if join is associative with identity id and body is an accumulating fold.  PROVED by "
    "CBMC (loop-free, full domain, double and int): each of the four cycle_min lambdas and the MPI MinOp returns one "
    "of its operands, exists = e1 or e2, minimum weight when both exist, left operand on ties (lambdas); from these "
    "CONTRACTS alone (calls replaced by the contract) associativity, commutativity and two-sided identity on the "
    "view; the literal identity passed at every parallel_reduce call site has exists=false.  PROVED by CBMC (DFCC, "
    "loop contract, unbounded in csd and in the sub-range): the support-update task of mcb_sva_signed_tbb / "
    "mcb_sva_signed_mpi writes only rows of its own sub-range of (k, csd) - the range expression is extracted from "
    "the parallel_for call -, computes each written row as a function of (own row, row k, cyclek) only, and row k "
    "lies outside every task's range; lemma: tasks on disjoint sub-ranges have disjoint write sets (race freedom "
    "of the one region that shares mutable state).  PROVED by CBMC, modularly against the callee contracts K9 / K11 (calls "
    "replaced by the contract, loop contracts, ghost tables of the true answers): each reduce BODY (signed: all-vertices "
    "and hidden-chain; tree lookup) is an accumulating fold - never worse than the running value it is given, at least as "
    "good as every candidate of its sub-range, passes the running value as pruning limit, and in hidden-chain mode hands the "
    "callee exactly the chain suffix; the chain tables themselves (signed_edges_as_vector, hidden_edges_per_edge) are built "
    "correctly by find_less_than_vertices (K8a).  Schedule independence then follows by induction over the split tree (paper "
    "argument).  PROVED(csd<=8, thorough 10; loop contracts with quantified invariants): the composed main loop of mcb_sva_signed_tbb - concurrent "
    "initialisation in ANY push order, swap, parallel_for update, output - with find() replaced by its contract emits csd "
    "cycles with unit lower-triangular witness incidence (independent) and returns the sum of the reported weights (K16).  "
    "BOUNDED stand-in: all six entry points compiled UNCHANGED "
    "against an executable contract model of TBB whose scheduler freedom is a choice tape (any partition, either "
    "order of halves, any split tree, leaf chains from the identity, any insertion position of concurrent "
    "push_backs): odometer enumeration (exhaustive where it terminates under the cap) plus seeded tapes, "
    "postconditions K16/K18 with the brute-force optimum; and the same driver against the real oneTBB with 1, 2 "
    "and 16 workers.  Other parallel regions (update_parities per tree, approximate builder's task-local state) "
    "rest on ownership arguments that are assumptions here.")


def run(rep):
    specs = k07_reducers.units(tier()) + k04_update.units(tier(), which=("K5",))
    specs += [u for u in k08_bodies.units(tier()) if "mpi" not in u.get("unit", "")]
    specs += [u for u in k16_mainloop.units(tier()) if "signed_tbb" in u.get("unit", "")]
    engine.run_units(rep, specs)
    bins = native.build_many([
        dict(name="e3_tbb", incfirst=(os.path.join(VERIF, "stubs/tbb_contract"),), libs=("-lboost_timer",)),
        dict(name="e3_tbb_real", source=os.path.join(VERIF, "harness/e3_tbb.cpp"), flags=("-DVP_REAL_TBB",)),
    ])
    fn = {"mcb_sva_signed_tbb": "bounded(schedules)", "mcb_sva_fvs_trees_tbb": "bounded(schedules)",
          "mcb_sva_iso_trees_tbb": "bounded(schedules)", "approx_mcb_sva_signed_tbb": "bounded(schedules)",
          "approx_mcb_sva_fvs_trees_tbb": "bounded(schedules)", "approx_mcb_sva_iso_trees_tbb": "bounded(schedules)",
          }
    r = native.run_driver(bins["e3_tbb"], "e3_tbb[contract model]", functions=fn,
                          assumptions=["stubs/tbb_contract is the assumed contract of oneTBB; tasks run one at a time in the model (orders, not simultaneity)",
                                       "update_parities writes only nodes owned by its own tree; approximate builder tasks write only task-local objects and concurrent_vectors (ownership arguments, not verified)"],
                          entry_points=list(fn)[:6])
    common.filter_kinds(r, KINDS)
    rep.add_bounded(r)
    r2 = native.run_driver(bins["e3_tbb_real"], "e3_tbb[real oneTBB 1/2/16 workers]", functions={},
                           assumptions=["real oneTBB 2021.8 default scheduler: whatever schedules the machine produced"], entry_points=list(fn)[:6])
    common.filter_kinds(r2, KINDS)
    rep.add_bounded(r2)
