"""C18 - prime-field arithmetic (fp, primes, SpVecFP) matches arithmetic modulo p."""
from lib import engine
from lib.core import tier
from units import k19_fp, k22_spvecfp, k22b_spvecfp_plus

LEVEL = "other"
EXPLANATION = (
    "PROVED by CBMC over all 64-bit inputs: the paths of ext_gcd that return before the Euclid loop (a=0 or "
    "b=0) satisfy g>0, a*x+b*y=g (128-bit arithmetic), g|a, g|b; get_mult_inverse, verified AGAINST ext_gcd's "
    "contract (--replace-call-with-contract): rejects p<=0, consults ext_gcd exactly once on (a,p), throws iff the "
    "gcd is not 1 and returns exactly the Bezout coefficient.  PROVED(operands with <= 2 entries, thorough 3; every "
    "index, every value, every modulus 2 <= p < 2^15; E1 extraction of SpVecFP::operator+ with all five loops closed by loop contracts, invariants "
    "quantified over the bounded entry range): for canonical operands the sum is canonical (indices strictly increasing, values in 1..p-1), every "
    "entry carries (a_k + b_k) mod p at its index and every coordinate whose sum does not vanish mod p is present (K22b; a failing obligation is "
    "refuted by a bounded plain-CBMC variant and replayed on the real template).  BOUNDED by CBMC (unwinding, not proof): the Euclid "
    "loop for |a|,|b|<=63 (thorough 127) incl. the repository's own assert; is_prime for p<256 (thorough 1024) "
    "against the quantified definition 'no divisor in [2,p)' under a floor-sqrt contract; SpVecFP through the C++ front end "
    "on a copy of the header with three declared mechanical edits (boost::get<I>( -> field access, boost::make_tuple( -> "
    "constructor, stream operator dropped): +, +=, unit assignment with 15-bit moduli and lengths up to (2,1)/(1,2) "
    "(thorough 3x3), scalar product / *= / dot product with 4-6 bit moduli and scalars (the SAT back end cannot finish "
    "wider multiply-modulo chains within the cap) - canonical form preserved and every coordinate equals the dense value.  BOUNDED natively on the "
    "real templates with long AND boost::multiprecision::cpp_int: ext_gcd on every pair |a|,|b|<=400 (2048), "
    "the congruence a*inv = 1 (mod p), is_prime against a sieve to 2^16 (2^20), SpVecFP operation histories "
    "against a dense model.  CBMC counterexamples are replayed natively.")


def run(rep):
    engine.run_units(rep, k19_fp.units(tier()) + k22_spvecfp.units(tier()) + k22b_spvecfp_plus.units(tier()), jobs=14)
    engine.run_native(rep, "e3_fp", build_kwargs=dict(libs=()),
                      functions={"fp<long|cpp_int>::ext_gcd": "bounded(native exhaustive grid)",
                                 "fp<long|cpp_int>::get_mult_inverse": "bounded(native grid)",
                                 "primes<int|long|cpp_int>::is_prime": "bounded(native sieve)",
                                 "SpVecFP<long|cpp_int>": "bounded(seeded histories)"},
                      assumptions=["machine integers: CBMC units need arguments > T_MIN; mathematical integers only via cpp_int natively"],
                      entry_points=["fp::ext_gcd", "fp::get_mult_inverse", "primes::is_prime", "SpVecFP"])
