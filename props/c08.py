"""C08 - the reported optimum depends only on the weighted graph."""
from lib import engine
from . import common

LEVEL = "exploration"
EXPLANATION = (
    "A relational postcondition over PAIRS of calls; on oracle-reachable graphs it is a corollary of C02, beyond "
    "the oracle only the relations themselves can be evaluated.  BOUNDED (sampled) stand-in: seeded graphs with "
    "up to 160 (thorough 300) vertices and cycle-space dimension in the hundreds (sparse random, grids, tie-heavy "
    "random, clique chains, hypercubes, dense random; integer/dyadic weights): all six exact variants/back ends "
    "return the same value; the value is unchanged by vertex renumbering + edge re-insertion order + orientation, "
    "by added isolated vertices, pendant paths and bridges, by subdividing an edge into two of the same total "
    "weight; additive over disjoint unions; scales exactly under multiplication by 2^j; equals an independent "
    "polynomial Horton oracle for n<=70.  Values are compared exactly.  No deductive content beyond the "
    "order-theoretic facts proved under C02/C03/C12.")


def run(rep):
    engine.run_native(rep, "e3_relations",
                      functions={"mcb_sva_signed/fvs_trees/iso_trees (+_tbb) as a function of the weighted graph": "bounded(sampled relations)"},
                      assumptions=["exact-domain weights (small integers, halves, powers of two) so that equal optima compare equal as doubles",
                                   "real oneTBB default scheduling for the _tbb variants"],
                      entry_points=["mcb_sva_signed", "mcb_sva_fvs_trees", "mcb_sva_iso_trees", "mcb_sva_signed_tbb", "mcb_sva_fvs_trees_tbb", "mcb_sva_iso_trees_tbb"])
