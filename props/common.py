"""Helpers shared by the per-property modules."""
from lib import engine, native
from lib.core import tier

# C01's "each emitted cycle is SIMPLE" rests on the minimality clauses of the search contracts K9/K10 (a minimum odd closed
# walk is a simple cycle; a non-minimum one need not be), so their violations are carrier-contract violations of C01 too.
C01_KINDS = {"count", "foreign-edge", "not-simple-cycle", "dependent", "exception", "crash",
             "hidden-edge-used", "search-parity", "search-not-a-walk", "phase-not-simple", "phase-parity", "phase-spurious",
             "search-missed", "search-not-minimum", "search-limit", "phase-missed", "phase-not-minimum"}
C02_KINDS = {"returned-weight", "not-minimum", "weight-vector",
             "search-weight", "search-not-minimum", "search-limit", "search-missed", "phase-missed", "phase-weight",
             "phase-not-minimum"}
SEARCH_FUNCS = {"bidirectional_signed_dijkstra": "bounded(E3 search set: every S, hidden chain, limits)",
                "OddCycleFinder::find": "bounded(E3 search set: every S)"}
SEARCH_ASSUME = ["signed_dijkstra (unidirectional) is dead code that cannot be instantiated on the pinned tree; not under contract",
                 "not-found is accepted when some minimum-weight walk of the two-level signed graph repeats an underlying edge (contract K9)"]


def filter_kinds(res, kinds, drop_sites=("oracle-self-check",)):
    """Keep only the violation kinds a property is about (a driver may evaluate a joint contract)."""
    keep = []
    for v in res.get("violations", []):
        if v["site"] in drop_sites:
            res["status"] = "undecided"
            res["reason"] = "oracle self-check failed: " + v["what"]
            continue
        if v["kind"] in kinds:
            keep.append(v)
    res["violations"] = keep
    return res


def native_filtered(rep, name, kinds, driver=None, build_kwargs=None, **kw):
    b = native.build(name, **(build_kwargs or {}))
    r = native.run_driver(b, driver or name, **kw)
    filter_kinds(r, kinds)
    rep.add_bounded(r)
    return r
