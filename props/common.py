"""Helpers shared by the per-property modules."""
from lib import engine, native
from lib.core import tier

C01_KINDS = {"count", "foreign-edge", "not-simple-cycle", "dependent", "exception", "crash"}
C02_KINDS = {"returned-weight", "not-minimum", "weight-vector"}


def filter_kinds(res, kinds, drop_sites=("oracle-self-check",)):
    """Keep only the violation kinds a property is about (a driver may evaluate a joint contract)."""
    keep = []
    for v in res.get("violations", []):
        if v["site"] in drop_sites:
            res["status"] = "undecided"
            res["reason"] = "oracle self-check failed: " + v["what"]
            continue
        if v["kind"] in kinds:
            keep.append(v)
    res["violations"] = keep
    return res


def native_filtered(rep, name, kinds, driver=None, build_kwargs=None, **kw):
    b = native.build(name, **(build_kwargs or {}))
    r = native.run_driver(b, driver or name, **kw)
    filter_kinds(r, kinds)
    rep.add_bounded(r)
    return r
