"""C13 - greedy_fvs returns a feedback vertex set."""
from lib import engine
from lib.core import tier
from units import k13_fvs

LEVEL = "other"
EXPLANATION = (
    "PROVED(n<=4, thorough 5) by CBMC (DFCC): greedy_fvs extracted to C with all eight loops closed by loop contracts whose "
    "invariants are quantified over the bounded vertex range and count existing neighbours by explicit bounded sums; the "
    "deque enters as a multiset and the pairing heap as a set whose top is SOME element (their contracts; any order of the "
    "out-edge lists).  Proved: (A) on return no vertex exists any more and every vertex is emitted at most once, only while "
    "it existed; (B) a vertex removed WITHOUT being emitted has at most one neighbour that still exists at that moment; (C) "
    "after the first cleanup every remaining vertex has at least two remaining neighbours; (D) heap.decrease is only applied "
    "to vertices in the heap, degree counters never underflow.  By two short lemmas (DESIGN 10.9, informal) B makes the graph "
    "without the emitted vertices acyclic and C makes a forest emit nothing.  Termination of the cleanup loops is not proved.  "
    "When a loop obligation fails the unit is UNDECIDED (its plain bounded variant does not finish) and the decision comes from "
    "the BOUNDED stand-in: Contract K13 (emitted vertices are vertices of g, pairwise distinct; g minus the emitted vertices is "
    "acyclic; nothing for a forest) enforced by executing the real greedy_fvs on every labelled graph with n<=6, tie-heavy "
    "families and seeded random graphs and checking acyclicity by union-find.")


def run(rep):
    engine.run_units(rep, k13_fvs.units(tier()))
    engine.run_native(rep, "e3_components", driver="e3_components[C13]", args=["--only", "C13"],
                      functions={"greedy_fvs": "bounded(all graphs n<=6 + families + random)"},
                      entry_points=["greedy_fvs"])
