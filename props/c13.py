"""C13 - greedy_fvs returns a feedback vertex set."""
from lib import engine

LEVEL = "exploration"
EXPLANATION = (
    "Contract K13 (emitted vertices are vertices of g, pairwise distinct; g minus the emitted vertices is "
    "acyclic; nothing for a forest) is enforced as a BOUNDED stand-in by executing the real greedy_fvs on every "
    "labelled graph with n<=6, tie-heavy families and seeded random graphs and checking acyclicity by "
    "union-find.  An unbounded CBMC proof would need a counting invariant over adjacency lists next to a Boost "
    "pairing heap with handles; that is outside what the installed CBMC can parse or discharge (DESIGN 1), so no "
    "deductive content is claimed for this property.")


def run(rep):
    engine.run_native(rep, "e3_components", driver="e3_components[C13]", args=["--only", "C13"],
                      functions={"greedy_fvs": "bounded(all graphs n<=6 + families + random)"},
                      entry_points=["greedy_fvs"])
