"""C12 - shortest-path trees are exact and mutually consistent."""
from lib import engine
from lib.core import tier
from units import k12_scalar

LEVEL = "other"
EXPLANATION = (
    "PROVED by CBMC (loop-free, full domain): the scalar prefix (distance, then edge count) of the label order "
    "LexDistanceCompare decides strictly and consistently in both argument orders, and closed_plus is + below "
    "infinity and saturates without overflow - the arithmetic part of 'total order on labels'.  BOUNDED "
    "stand-in for contract K12 (the property statement): for every graph of the exact-domain set and every "
    "root, distances = Floyd-Warshall, predecessor edges form a tree whose root paths have those lengths, "
    "first(v) is the child of the root on the path, tree path u->v is the reverse of v->u, every sub-path of a "
    "chosen path is the chosen path between its endpoints; the set-difference tail of the comparator is a strict "
    "total order on all equal-size subsets of {0..5}.  lex_dijkstra itself (Boost d-ary heap over "
    "function_property_maps, std::set labels) is not parseable by CBMC.")


def run(rep):
    engine.run_units(rep, k12_scalar.units(tier()))
    engine.run_native(rep, "e3_components", driver="e3_components[C12]", args=["--only", "C12"],
                      functions={"SPTree ctor/node/first + lex_dijkstra": "bounded(all graphs n<=6 + tie-heavy families + random)",
                                 "LexDistanceCompare set-difference tail": "bounded(all equal-size subsets of {0..5})"},
                      assumptions=["exact-domain weights"], entry_points=["SPTree", "lex_dijkstra", "LexDistanceCompare"])
