"""C12 - shortest-path trees are exact and mutually consistent."""
from lib import engine
from lib.core import tier
from units import k12_scalar, k12a_sptree_init, k12b_first, k12c_lexdijkstra, k12e_lexorder

LEVEL = "other"
EXPLANATION = (
    "PROVED by CBMC (loop-free, full domain): the scalar prefix (distance, then edge count) of the label order "
    "LexDistanceCompare decides strictly and consistently in both argument orders, and closed_plus is + below "
    "infinity and saturates without overflow; the COMPLETE comparator including its set-difference tail (vertex sets as 64-bit masks, "
    "std::set_difference / begin / empty by their contracts) is decided by distance, then edge count, then 'a proper subset is smaller, "
    "otherwise the smaller smallest non-common element wins', and - as lemmas over that contract, for every triple of labels - it is "
    "irreflexive, asymmetric and, on vertex sets of equal size, total and transitive (K12e): the strict total order on labels.  PROVED(n<=4, thorough 6; loop contracts "
    "with quantified invariants; SPNode constructors bound mechanically from their initialiser lists): SPTree::initialize gives a node "
    "exactly to the source and to the vertices with a predecessor, each storing its vertex, its distance (0 for the source) and its "
    "predecessor edge, sets the root, lists every non-source node exactly once under the other endpoint of its predecessor edge "
    "and dereferences no null pointer (K12a, given the contract of lex_dijkstra).  BOUNDED by CBMC (trees <= 5/6 nodes, unwound): "
    "compute_first_in_path labels every tree node with the child of the root whose subtree holds it (K12b).  PROVED(n<=4, thorough 5): "
    "lex_dijkstra hands back exact shortest-path distances and a tight predecessor tree (K12c: loop contracts with quantified "
    "invariants, heap / comparator / combiner through their contracts; LexDistanceCombine itself proved, K12d) - WHICH of several "
    "shortest paths is chosen, i.e. the tie-breaking the consistency clauses are about, is not covered by that unit.  BOUNDED "
    "stand-in for contract K12 (the property statement): for every graph of the exact-domain set and every "
    "root, distances = Floyd-Warshall, predecessor edges form a tree whose root paths have those lengths, "
    "first(v) is the child of the root on the path, tree path u->v is the reverse of v->u, every sub-path of a "
    "chosen path is the chosen path between its endpoints; the set-difference tail of the comparator is a strict "
    "total order on all equal-size subsets of {0..5}.")


def run(rep):
    engine.run_units(rep, k12_scalar.units(tier()) + k12a_sptree_init.units(tier()) + k12b_first.units(tier()) + k12c_lexdijkstra.units(tier()) + k12e_lexorder.units(tier()))
    engine.run_native(rep, "e3_components", driver="e3_components[C12]", args=["--only", "C12"],
                      functions={"SPTree ctor/node/first + lex_dijkstra": "bounded(all graphs n<=6 + tie-heavy families + random)",
                                 "LexDistanceCompare set-difference tail": "bounded(all equal-size subsets of {0..5})"},
                      assumptions=["exact-domain weights"], entry_points=["SPTree", "lex_dijkstra", "LexDistanceCompare"])
