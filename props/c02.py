"""C02 - exact algorithms return a minimum-weight cycle basis and its weight."""
from lib import engine
from lib.core import tier
from units import k12_scalar, k10_phase, k08_bodies, k11_sorted, k16_mainloop, k11_parity, k11_builder
from . import common

LEVEL = "other"
EXPLANATION = (
    "Minimality is a global optimum that no contract within CBMC's reach expresses; the decomposition used is "
    "de Pina's exchange argument: if every phase returns a MINIMUM-weight cycle among those odd w.r.t. the "
    "witness (contracts K9/K10/K11) and the invariant of C01 holds, the basis is minimum.  PROVED by CBMC (loop-free, "
    "full domain): closed_plus is + below infinity, saturates at infinity and never overflows there; the scalar "
    "prefix (distance, edge count) of the lexicographic label order decides strictly; and, MODULARLY against the contract K9 "
    "of bidirectional_signed_dijkstra (calls replaced by the contract, loop contracts, ghost tables of true answers): the "
    "whole odd-cycle phase of mcb_sva_signed - all-vertices branch and hidden-edge-chain branch - ends with a candidate no "
    "heavier than ANY search it is responsible for, passes the current best as limit, and at every call owes the callee "
    "exactly the chain suffix {se..} as hidden set with se's endpoints (K10, unbounded in n and in the number of signed "
    "edges up to the 63-bit mask); the sequential tree lookup returns a minimum-weight odd member of the SORTED candidate list "
    "(first valid candidate), modularly against the candidate builder's contract K11 (proved for <= 24 candidates; the cap "
    "comes only from stating sortedness of the ghost table by an unwound harness loop), and the caller really hands it a list sorted by weight whenever it passes sorted_cycles=true (K11-pre, against the contracts of std::sort / stable_sort / partial_sort); the composed main loops return exactly the sum of the weights the phases reported for the emitted cycles (K16, loop contracts with quantified invariants, csd<=8 / 10); SPTree::update_parities sets every node's parity to the parity of witness edges on its root path (bounded: trees with <= 5 nodes); the candidate builder itself meets K11 - found iff odd, no repeated edge among closing edge + both root paths, total weight within the limit, result = that edge set with its true weight - on trees with <= 4 vertices / 6 edges (thorough 5 / 8), weights 1..7, by plain CBMC against a specification walked by the harness (bounded).  BOUNDED stand-ins (not "
    "proof): K9 bidirectional_signed_dijkstra against a two-level-graph shortest-path oracle for every witness "
    "set S, every start vertex, every hidden-chain prefix and limits at/around the optimum; K10 "
    "OddCycleFinder::find against the minimum over all enumerated odd cycles; K16 whole functions: returned "
    "value = sum of emitted weights = brute-force optimum, sorted weight vector = oracle's.")


def run(rep):
    engine.run_units(rep, k12_scalar.units(tier()) + k10_phase.units(tier()) + [u for u in k08_bodies.units(tier()) if u.get('unit', '').startswith('K11')] + [u for u in k11_sorted.units(tier()) if 'mpi' not in u.get('unit', '')] + [u for u in k16_mainloop.units(tier()) if 'signed_tbb' not in u.get('unit', '')] + k11_parity.units(tier()) + k11_builder.units(tier()))
    common.native_filtered(
        rep, "e3_exact", common.C02_KINDS,
        functions={"mcb_sva_signed": "bounded(E3 set)", "mcb_sva_fvs_trees": "bounded(E3 set)",
                   "mcb_sva_iso_trees": "bounded(E3 set)"},
        assumptions=["exact domain: weights integer or dyadic so that all sums are exact",
                     "oracle: all simple cycles + matroid greedy, cross-checked against an independent Horton oracle on every graph with n<=7"],
        entry_points=["mcb_sva_signed", "mcb_sva_fvs_trees", "mcb_sva_iso_trees"])
    common.native_filtered(rep, "e3_search", common.C02_KINDS, functions=common.SEARCH_FUNCS,
                           assumptions=common.SEARCH_ASSUME,
                           entry_points=["bidirectional_signed_dijkstra", "OddCycleFinder::find"])
