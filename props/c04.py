"""C04 - MPI entry points are correct for every rank count and memory layout."""
import os, json, subprocess
from lib import engine, native, demos
from lib.core import tier, VERIF, Undecided
from units import k07_reducers, k04_update, k23_slices, k08_bodies, k11_sorted
from . import common

LEVEL = "other"
KINDS = common.C01_KINDS | common.C02_KINDS | {"mpi-deadlock", "mpi-rank-did-not-return", "mpi-nonroot-emitted",
                                              "mpi-slices-not-a-partition"}
EXPLANATION = (
    "PROVED by CBMC (loop-free, full domain): SerializableMinOddCycleMinOp returns one of its operands, exists = e1 or "
    "e2, the minimum weight when both exist, and - from that contract alone - is associative and COMMUTATIVE on the "
    "(exists,weight) view, which is what the is_commutative declaration promises to Boost.MPI; the cycle_min lambda "
    "and the update task of mcb_sva_signed_mpi as in C03; the two local reduce bodies of find_shortest_odd_cycle_mpi are "
    "accumulating folds that hand the search exactly the chain suffix (K8, modular against K9, given the chain tables).  BOUNDED: the slice arithmetic (ceil stride / istart / iend) "
    "partitions 0..total-1 for every total<=600 (4096) and every P<=64, including P larger than the work (native "
    "exhaustive; the float division timed out in CBMC).  BOUNDED stand-in for the entry points: all five compiled "
    "UNCHANGED against executable contract models of Boost.MPI (P threads, rendez-vous collectives that detect "
    "mismatched collectives, early returns and hangs) and TBB, P in {1,2,3,4,5,7}, every rank with its own copy of "
    "the graph whose edge-node addresses are laid out in a per-rank order (identical, reversed, seeded permutations) "
    "through a replaceable operator new; postconditions: every rank returns, same sequence of collectives, rank 0 "
    "satisfies the C01/C02 contract with the brute-force optimum, other ranks emit nothing.  Every violation is "
    "replayed under the REAL mpiexec/Boost.MPI with the same per-process layouts.")


def _real_replay(v):
    inp = (v.get("data") or {}).get("input") or {}
    if not isinstance(inp, dict) or "graph" not in inp:
        return
    try:
        b = native.build("e3_mpi_real", source=os.path.join(VERIF, "harness/e3_mpi.cpp"),
                         flags=tuple(["-DVP_REAL_MPI"] + demos.MPI_INC), libs=tuple(["-ltbb", "-lboost_timer"] + demos.MPI_LIBS))
        case = json.dumps(inp["graph"], separators=(",", ":"))
        cmd = ["mpiexec", "--allow-run-as-root", "--oversubscribe", "-n", str(inp.get("P", 2)), b, "--case", case,
               "--algo", inp.get("algo", ""), "--layout", str(inp.get("layout", 1)), "--lseed", str(inp.get("lseed", 1))]
        rc, so, se, dt, to = demos._run(cmd, 60)
        v["data"]["real_mpiexec"] = dict(cmd=" ".join(cmd[:6]) + " ...", exit=rc, timed_out=to, output=(so + se)[-800:])
        if to:
            v["what"] += " | real mpiexec: HUNG (killed by the watchdog)"
        elif "REPLAY-FAIL" in so:
            v["what"] += " | reproduced under real mpiexec: " + [l for l in so.splitlines() if "REPLAY-FAIL" in l][0][:200]
        else:
            v["what"] += " | NOT reproduced under real mpiexec with these layouts (model-only finding)"
    except Exception as e:      # replay is best effort
        v["data"]["real_mpiexec"] = "replay unavailable: %r" % (e,)


def run(rep):
    specs = [s for s in k07_reducers.units(tier()) if "mpi" in s["unit"] or "identity" in s["unit"]]
    specs += [s for s in k04_update.units(tier(), which=("K4", "K5")) if "mpi" in s.get("unit", "")]
    specs += [u for u in k08_bodies.units(tier()) if "mpi" in u.get("unit", "")]
    specs += [u for u in k11_sorted.units(tier()) if "mpi" in u.get("unit", "")]
    engine.run_units(rep, specs)
    try:
        gen_dir, gen_hash, gen_log, gen_stmts = k23_slices.generate()
        sb = native.build("e3_slices", flags=("-I" + gen_dir, "-DVP_GEN_HASH=0x" + gen_hash), libs=())
        rs = native.run_driver(sb, "e3_slices[extracted slice arithmetic]",
                               functions={"slice computation x3 (K23), extracted": "bounded(total<=700/4096, P<=64)"},
                               assumptions=["extraction keeps the four statements defining total/stride/istart/iend and the guarded loop header; " + "; ".join("%s: %s" % (k, " ".join(v)) for k, v in gen_stmts.items())[:900]],
                               entry_points=["find_shortest_odd_cycle_mpi", "_mcb_sva_trees_mpi"])
        common.filter_kinds(rs, KINDS)
        rep.add_bounded(rs)
    except Undecided as e:
        rep.undecided.append("K23 slice extraction: %s" % e)
    b = native.build("e3_mpi", incfirst=(os.path.join(VERIF, "stubs/mpi_contract"), os.path.join(VERIF, "stubs/tbb_contract")),
                     libs=("-lboost_timer", "-lboost_serialization"))
    eps = ["mcb_sva_signed_mpi", "mcb_sva_fvs_trees_mpi", "mcb_sva_fvs_trees_tbb_mpi", "mcb_sva_iso_trees_mpi", "mcb_sva_iso_trees_tbb_mpi"]
    r = native.run_driver(b, "e3_mpi[contract models]", timeout=2400,
                          functions=dict([(e, "bounded(P x layouts x graphs)") for e in eps] + [("slice arithmetic x3 (K23)", "bounded(total<=600/4096, P<=64)")]),
                          assumptions=["stubs/mpi_contract is the assumed contract of Boost.MPI collectives; values are copied between ranks (serialisation bypassed; exercised only by the real-mpiexec replay and by C11's demo runs)",
                                       "stubs/tbb_contract for the TBB parts inside the MPI entry points",
                                       "heap layouts: the order of edge-node addresses per rank is controlled and read back; other allocations are not permuted"],
                          entry_points=eps)
    common.filter_kinds(r, KINDS)
    for v in r["violations"]:
        _real_replay(v)
    rep.add_bounded(r)
