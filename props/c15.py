"""C15 - the intermediate spanner is a weighted (2k-1)-spanner of girth > 2k."""
from lib import engine
from lib.core import tier
from units import k17_spanner, k17b_bfs
from . import common

LEVEL = "other"
KINDS = {"spanner-vertices", "spanner-untranslated", "spanner-foreign", "spanner-endpoints", "spanner-weight",
         "spanner-partition", "spanner-translation-size", "spanner-stretch", "spanner-girth", "crash"}
EXPLANATION = (
    "PROVED by CBMC (DFCC loop contracts).  K17a (ghost position; table cap m<=12, thorough 32): the edge loop of "
    "construct_spanner puts every input edge, in sorted order, EITHER into the spanner - with the mapped endpoints, the INPUT "
    "edge's weight and a translation entry back to it - OR into the dropped list, never both, adds nothing else, and the edge "
    "is dropped IF AND ONLY IF is_bfs_reachable answered true when asked for its mapped endpoints with hop bound 2k-1 on the "
    "spanner built from the earlier positions.  K17b (n<=4, thorough 6; invariants quantified over the bounded vertex range, "
    "degrees / multi-edges / self-loops unbounded): is_bfs_reachable itself - the visited vertices form a discovery tree with "
    "exact levels; 'true' means t was reached at level <= max_hops; 'false' means every visited vertex of level <= max_hops "
    "was fully expanded, none is t, and expanded vertices have all neighbours visited one level further at most - so no path "
    "of <= max_hops edges exists (lemma, DESIGN 10.8).  A failed loop obligation of K17b is decided by a plain-CBMC variant "
    "with a DIRECT specification on every undirected multigraph with <= 3 vertices and <= 3 edges, and replayed on the real "
    "function (e3_bfs).  From K17a + K17b and the sorted order, stretch and girth follow by the classical argument "
    "(informal).  They are also enforced BOUNDED: Contract K17, observed through the guarded read-only accessors (hook H1, "
    "PARMCB_VERIF): same vertex count; every spanner edge translates to an input edge with the same endpoints and the same "
    "weight; retained and dropped edges partition E; every dropped edge (u,v) has a u-v path of <= 2k-1 retained edges none "
    "heavier than (u,v); the retained subgraph has no cycle of <= 2k edges.  BOUNDED stand-in on the real "
    "BaseApproxSpannerAlgorithm constructor over the exact-domain set (many equal weights included: the contract must hold "
    "for whatever order std::sort picked among ties) x k in {1,2,3,5,n}.")


def run(rep):
    engine.run_units(rep, [u for u in k17_spanner.units(tier()) if u.get("unit", "").startswith(("K17a", "K17c"))] + k17b_bfs.units(tier()))
    common.native_filtered(rep, "e3_approx", KINDS, driver="e3_approx[spanner]", args=["--only", "spanner"],
                           functions={"BaseApproxSpannerAlgorithm::construct_spanner": "bounded", "is_bfs_reachable": "bounded"},
                           assumptions=["hook H1 accessors return the private members unchanged"],
                           entry_points=["BaseApproxSpannerAlgorithm ctor"])
