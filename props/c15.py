"""C15 - the intermediate spanner is a weighted (2k-1)-spanner of girth > 2k."""
from lib import engine
from lib.core import tier
from units import k17_spanner
from . import common

LEVEL = "other"
KINDS = {"spanner-vertices", "spanner-untranslated", "spanner-foreign", "spanner-endpoints", "spanner-weight",
         "spanner-partition", "spanner-translation-size", "spanner-stretch", "spanner-girth", "crash"}
EXPLANATION = (
    "PROVED by CBMC (DFCC, loop contract with a ghost position, modular against the contract of is_bfs_reachable - any "
    "answer, but the caller owes it distinct endpoints and the hop bound 2k-1): the edge loop of construct_spanner puts "
    "every input edge, in sorted order, EITHER into the spanner - with the mapped endpoints, the INPUT edge's weight and a "
    "translation entry back to it - OR into the dropped list, never both, and adds nothing else (K17a; table cap m<=12, "
    "thorough 32).  What depends on the ANSWERS of is_bfs_reachable (stretch, girth) is only bounded: "
    "Contract K17, observed through the guarded read-only accessors (hook H1, PARMCB_VERIF): same vertex count; "
    "every spanner edge translates to an input edge with the same endpoints and the same weight; retained and "
    "dropped edges partition E; every dropped edge (u,v) has a u-v path of <= 2k-1 retained edges none heavier "
    "than (u,v) (BFS over retained edges of weight <= w(u,v)); the retained subgraph has no cycle of <= 2k edges "
    "(BFS around every retained edge).  BOUNDED stand-in on the real BaseApproxSpannerAlgorithm constructor "
    "over the exact-domain set (many equal weights included: the contract must hold for whatever order "
    "std::sort picked among ties) x k in {1,2,3,5,n}.  is_bfs_reachable/construct_spanner are Boost.Graph "
    "templates outside CBMC's reach; no deductive content.")


def run(rep):
    engine.run_units(rep, [u for u in k17_spanner.units(tier()) if u.get("unit", "").startswith("K17a")])
    common.native_filtered(rep, "e3_approx", KINDS, driver="e3_approx[spanner]", args=["--only", "spanner"],
                           functions={"BaseApproxSpannerAlgorithm::construct_spanner": "bounded", "is_bfs_reachable": "bounded"},
                           assumptions=["hook H1 accessors return the private members unchanged"],
                           entry_points=["BaseApproxSpannerAlgorithm ctor"])
