// stub of boost::tuple<A,B>: a plain pair (assumed contract: get<0>/get<1> are field accesses)
#ifndef VP_STUB_BOOST_TUPLE
#define VP_STUB_BOOST_TUPLE
namespace boost {
template<class A, class B> struct tuple { A a_; B b_; tuple() {} tuple(const A &a, const B &b) : a_(a), b_(b) {} };
template<class A, class B> tuple<A, B> make_tuple(const A &a, const B &b) { return tuple<A, B>(a, b); }
}
#endif
