#ifndef VP_STUB_BOOST_SER
#define VP_STUB_BOOST_SER
namespace boost { namespace serialization { class access {}; } }
#endif
