#include "mpi/vp_mpi_model.hpp"
