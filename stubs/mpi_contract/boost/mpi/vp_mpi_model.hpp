// Executable CONTRACT MODEL of the parts of Boost.MPI that parmcb uses (DESIGN 2.4).  A communicator
// of size P is realised as P threads of one process; each collective is a rendez-vous that checks that
// ALL ranks arrived at the SAME collective with the same root.  A mismatch, a rank that returns while
// others wait in a collective, or a rank that waits longer than the watchdog is reported as the
// deadlock it would be under real MPI.  Values are copied between ranks (serialisation is bypassed:
// assumption; the real mpiexec replay exercises it).  reduce: left-to-right in rank order, or - for
// operators declared commutative through is_commutative - a seeded order.  Point-to-point send / recv: buffered mailboxes per
// (source, destination, tag).
#ifndef VP_MPI_MODEL_HPP
#define VP_MPI_MODEL_HPP
#include <vector>
#include <mutex>
#include <condition_variable>
#include <chrono>
#include <string>
#include <stdexcept>
#include <algorithm>
#include <map>
#include <deque>
#include <tuple>
#include <memory>
#include <boost/mpl/bool.hpp>

#define VP_MPI_CONTRACT_MODEL 1

namespace boost { namespace mpi {

struct vp_deadlock : std::runtime_error { vp_deadlock(const std::string &s) : std::runtime_error(s) {} };

struct vp_world {
    int P;
    std::mutex m;
    std::condition_variable cv;
    long generation = 0;
    int arrived = 0;
    std::vector<int> kind, root;          // what each rank is waiting in (0 = none)
    std::vector<const void*> inptr;
    std::vector<char> finished;
    bool failed = false;
    std::string failure;
    long collectives = 0;
    uint64_t seed = 1;
    int watchdog_ms = 20000;
    explicit vp_world(int P) : P(P), kind(P, 0), root(P, -1), inptr(P, nullptr), finished(P, 0) {}
    void fail(const std::string &why) { if (!failed) { failed = true; failure = why; } cv.notify_all(); }
    static const char* name(int k) { return k == 1 ? "broadcast" : k == 2 ? "reduce" : k == 3 ? "scatter" : "barrier"; }
    // phase barrier; all ranks must call with identical (k, r)
    void rendezvous(int rank, int k, int r, const void *in) {
        std::unique_lock<std::mutex> lk(m);
        if (failed) throw vp_deadlock(failure);
        for (int q = 0; q < P; q++) if (finished[q]) { fail("rank " + std::to_string(q) + " has returned while rank " + std::to_string(rank) + " enters " + name(k) + " (the others would block forever)"); throw vp_deadlock(failure); }
        kind[rank] = k; root[rank] = r; if (k != 4) inptr[rank] = in;   // the departure barrier keeps the source pointers readable
        arrived++;
        if (arrived == P) {
            for (int q = 0; q < P; q++) if (kind[q] != kind[0] || root[q] != root[0]) {
                fail("collective mismatch: rank 0 is in " + std::string(name(kind[0])) + "(root " + std::to_string(root[0]) + ") but rank " + std::to_string(q) + " is in " + name(kind[q]) + "(root " + std::to_string(root[q]) + ")");
                throw vp_deadlock(failure);
            }
            arrived = 0; generation++; collectives++;
            cv.notify_all();
            return;
        }
        long g = generation;
        auto deadline = std::chrono::steady_clock::now() + std::chrono::milliseconds(watchdog_ms);
        while (generation == g && !failed) {
            if (cv.wait_until(lk, deadline) == std::cv_status::timeout && generation == g) { fail("watchdog: rank " + std::to_string(rank) + " waited in " + name(k) + " and not all ranks arrived"); break; }
        }
        if (failed) throw vp_deadlock(failure);
    }
    // point-to-point: send is buffered (an eager standard-mode send: it never blocks - deadlocks that need a rendez-vous send are NOT
    // modelled), recv blocks until a message from that source with that tag is there; waiting for a rank that has returned, or longer
    // than the watchdog, is the deadlock it would be under real MPI
    std::map<std::tuple<int, int, int>, std::deque<std::shared_ptr<void>>> mail;
    template<class T> void p2p_send(int src, int dst, int tag, const T &v) {
        std::unique_lock<std::mutex> lk(m);
        if (failed) throw vp_deadlock(failure);
        if (dst < 0 || dst >= P) { fail("send to rank " + std::to_string(dst) + " outside the communicator"); throw vp_deadlock(failure); }
        mail[std::make_tuple(src, dst, tag)].push_back(std::make_shared<T>(v));
        cv.notify_all();
    }
    template<class T> void p2p_recv(int src, int dst, int tag, T &v) {
        std::unique_lock<std::mutex> lk(m);
        if (src < 0 || src >= P) { fail("recv from rank " + std::to_string(src) + " outside the communicator"); throw vp_deadlock(failure); }
        auto key = std::make_tuple(src, dst, tag);
        auto deadline = std::chrono::steady_clock::now() + std::chrono::milliseconds(watchdog_ms);
        while (mail[key].empty() && !failed) {
            if (finished[src]) { fail("rank " + std::to_string(dst) + " waits in recv for rank " + std::to_string(src) + ", which has returned without sending"); break; }
            if (cv.wait_until(lk, deadline) == std::cv_status::timeout && mail[key].empty()) { fail("watchdog: rank " + std::to_string(dst) + " waited in recv(source " + std::to_string(src) + ", tag " + std::to_string(tag) + ")"); break; }
        }
        if (failed) throw vp_deadlock(failure);
        v = *std::static_pointer_cast<T>(mail[key].front()); mail[key].pop_front();
    }
    void rank_returned(int rank) {
        std::unique_lock<std::mutex> lk(m);
        finished[rank] = 1;
        if (arrived > 0) fail("rank " + std::to_string(rank) + " returned while " + std::to_string(arrived) + " rank(s) wait in a collective");
        cv.notify_all();      // wake receivers waiting for this rank
    }
};

class communicator {
public:
    communicator() : w_(nullptr), rank_(0) {}
    communicator(vp_world *w, int rank) : w_(w), rank_(rank) {}
    int rank() const { return rank_; }
    int size() const { return w_->P; }
    vp_world* vp() const { return w_; }
    template<class T> void send(int dest, int tag, const T &value) const { w_->p2p_send<T>(rank_, dest, tag, value); }
    template<class T> void recv(int source, int tag, T &value) const { w_->p2p_recv<T>(source, rank_, tag, value); }
private:
    vp_world *w_; int rank_;
};

class environment { public: environment() {} template<class... A> environment(A&&...) {} };
namespace threading { enum level { single, funneled, serialized, multiple }; }
class timer { public: double elapsed() const { return 0.0; } void restart() {} };

template<class Op, class T> struct is_commutative : mpl::false_ {};
template<class T> struct is_mpi_datatype : mpl::false_ {};

template<class T>
void broadcast(const communicator &c, T &value, int root) {
    vp_world *w = c.vp();
    w->rendezvous(c.rank(), 1, root, &value);
    if (c.rank() != root) value = *static_cast<const T*>(w->inptr[root]);
    w->rendezvous(c.rank(), 4, root, nullptr);
}

template<class T, class Op>
void reduce(const communicator &c, const T &in, T &out, Op op, int root) {
    vp_world *w = c.vp();
    w->rendezvous(c.rank(), 2, root, &in);
    if (c.rank() == root) {
        std::vector<int> order(w->P);
        for (int i = 0; i < w->P; i++) order[i] = i;
        if (is_commutative<Op, T>::value) {      // MPI may then combine in any order
            uint64_t s = w->seed * 0x9E3779B97F4A7C15ULL + (uint64_t) w->collectives;
            for (int i = w->P - 1; i > 0; i--) { s ^= s << 13; s ^= s >> 7; s ^= s << 17; std::swap(order[i], order[(int) (s % (uint64_t) (i + 1))]); }
        }
        T acc = *static_cast<const T*>(w->inptr[order[0]]);
        for (int i = 1; i < w->P; i++) { T tmp = op(acc, *static_cast<const T*>(w->inptr[order[i]])); acc = tmp; }
        out = acc;
    }
    w->rendezvous(c.rank(), 4, root, nullptr);
}

template<class T>
void scatter(const communicator &c, const std::vector<T> &in, T &out, int root) {
    vp_world *w = c.vp();
    w->rendezvous(c.rank(), 3, root, &in);
    const std::vector<T> *src = static_cast<const std::vector<T>*>(w->inptr[root]);
    bool bad = (int) src->size() != w->P;
    if (!bad) out = (*src)[c.rank()];
    w->rendezvous(c.rank(), 4, root, nullptr);
    if (bad) { w->fail("scatter: root supplied " + std::to_string(src->size()) + " values for " + std::to_string(w->P) + " ranks"); throw vp_deadlock(w->failure); }
}

} }
#endif
