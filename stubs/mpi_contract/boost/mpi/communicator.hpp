#include "vp_mpi_model.hpp"
