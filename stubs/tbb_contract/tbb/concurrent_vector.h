#include "vp_tbb_model.hpp"
