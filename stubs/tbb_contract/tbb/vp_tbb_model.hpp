// Executable CONTRACT MODEL of the parts of oneTBB that parmcb uses (DESIGN 2.4).  It replaces the
// library on the include path so that the UNCHANGED parmcb headers compile against it; every
// freedom the TBB documentation leaves to the scheduler is a choice taken from a choice tape:
//   parallel_for(range, body)        any partition of the range into non-empty sub-ranges (recursive
//                                    splits at any point), the two halves of a split in either order
//   parallel_reduce(range,id,body,join)  any binary split tree; a leaf is a CHAIN of >= 1 consecutive
//                                    sub-ranges threaded through body starting from the identity;
//                                    sub-trees evaluated in either order; combined join(left,right)
//   concurrent_vector::push_back     inside a parallel region: lands at an arbitrary position among the
//                                    elements pushed during that region; outside: appends
//   concurrent_vector::size          inside a parallel region: a snapshot that may miss concurrent pushes
//   global_control                   live limits, active value = minimum (default when none)
// Tasks run one at a time (the model explores orders, not true simultaneity); data-race freedom is
// argued separately by the frame contracts of the tasks (K5).
#ifndef VP_TBB_MODEL_HPP
#define VP_TBB_MODEL_HPP
#include <vector>
#include <cstddef>
#include <cstdint>
#include <iterator>
#include <functional>
#include <stdexcept>
#include <algorithm>

#define TBB_VERSION_MAJOR 2021
#define TBB_VERSION_MINOR 8
#define VP_TBB_CONTRACT_MODEL 1

namespace vp_tbb {
struct Chooser {
    // mode 0: odometer (exhaustive DFS over tapes), mode 1: seeded random
    int mode = 1;
    uint64_t s = 1;
    std::vector<int> tape, arity;
    size_t pos = 0;
    long total_choices = 0;
    int region_depth = 0;
    long region_id = 0;
    void seed(uint64_t x) { mode = 1; s = x * 0x9E3779B97F4A7C15ULL + 77; }
    uint64_t next() { uint64_t z = (s += 0x9E3779B97F4A7C15ULL); z = (z ^ (z >> 30)) * 0xBF58476D1CE4E5B9ULL; z = (z ^ (z >> 27)) * 0x94D049BB133111EBULL; return z ^ (z >> 31); }
    void start_odometer() { mode = 0; tape.clear(); arity.clear(); pos = 0; }
    void rewind() { pos = 0; }
    // advance to the next tape; false when the space is exhausted
    bool advance() {
        tape.resize(pos); arity.resize(pos);
        while (!tape.empty()) {
            if (tape.back() + 1 < arity.back()) { tape.back()++; pos = 0; return true; }
            tape.pop_back(); arity.pop_back();
        }
        pos = 0;
        return false;
    }
    int choose(int n) {
        total_choices++;
        if (n <= 1) return 0;
        if (mode == 1) return (int) (next() % (uint64_t) n);
        if (pos < tape.size()) { int v = tape[pos]; if (v >= n) v = n - 1; arity[pos] = n; pos++; return v; }
        tape.push_back(0); arity.push_back(n); pos++;
        return 0;
    }
};
inline Chooser& chooser() { static thread_local Chooser c; return c; }   // one tape per (rank) thread
struct Region { Region() { if (chooser().region_depth++ == 0) chooser().region_id++; } ~Region() { chooser().region_depth--; } };
}

namespace tbb {

class split {};

template<class Value>
class blocked_range {
public:
    typedef Value const_iterator;
    typedef std::size_t size_type;
    blocked_range() : b_(), e_() {}
    blocked_range(Value b, Value e, size_type grain = 1) : b_(b), e_(e), g_(grain) {}
    const_iterator begin() const { return b_; }
    const_iterator end() const { return e_; }
    size_type size() const { return (size_type) (e_ - b_); }
    bool empty() const { return !(b_ < e_); }
    size_type grainsize() const { return g_; }
    bool is_divisible() const { return g_ < size(); }
private:
    Value b_, e_; size_type g_ = 1;
};

namespace vp_detail {
template<class Range, class Body>
void pf(const Range &r, const Body &body) {
    auto &c = vp_tbb::chooser();
    std::size_t n = r.size();
    if (n <= 1 || c.choose(2) == 0) { body(r); return; }
    std::size_t cut = 1 + (std::size_t) c.choose((int) (n - 1));
    Range left(r.begin(), r.begin() + cut), right(r.begin() + cut, r.end());
    if (c.choose(2) == 0) { pf(left, body); pf(right, body); } else { pf(right, body); pf(left, body); }
}
template<class Range, class T, class Body, class Join>
T pr(const Range &r, const T &identity, const Body &body, const Join &join) {
    auto &c = vp_tbb::chooser();
    std::size_t n = r.size();
    if (n <= 1 || c.choose(2) == 0) {
        // leaf: a chain of consecutive sub-ranges accumulated left to right from the identity
        T v = identity;
        auto b = r.begin();
        std::size_t left = n;
        while (left > 0) {
            std::size_t take = left;
            if (left > 1 && c.choose(2) == 1) take = 1 + (std::size_t) c.choose((int) (left - 1));   // 1..left-1
            v = body(Range(b, b + take), v);
            b = b + take; left -= take;
        }
        return v;
    }
    std::size_t cut = 1 + (std::size_t) c.choose((int) (n - 1));
    Range lr(r.begin(), r.begin() + cut), rr(r.begin() + cut, r.end());
    if (c.choose(2) == 0) { T a = pr(lr, identity, body, join); T b = pr(rr, identity, body, join); return join(a, b); }
    T b = pr(rr, identity, body, join); T a = pr(lr, identity, body, join); return join(a, b);
}
}

template<class Range, class Body>
void parallel_for(const Range &range, const Body &body) {
    vp_tbb::Region reg;
    if (range.empty()) return;
    vp_detail::pf(range, body);
}
template<class Index, class F>
void parallel_for(Index first, Index last, const F &f) {
    parallel_for(blocked_range<Index>(first, last), [&](const blocked_range<Index> &r) { for (Index i = r.begin(); i != r.end(); ++i) f(i); });
}
template<class Range, class T, class Body, class Join>
T parallel_reduce(const Range &range, const T &identity, const Body &body, const Join &join) {
    vp_tbb::Region reg;
    if (range.empty()) return identity;
    return vp_detail::pr(range, identity, body, join);
}

template<class T>
class concurrent_vector {
public:
    typedef typename std::vector<T>::iterator iterator;
    typedef typename std::vector<T>::const_iterator const_iterator;
    typedef std::size_t size_type;
    typedef T value_type;
    typedef blocked_range<iterator> range_type;
    concurrent_vector() {}
    explicit concurrent_vector(size_type n) : v_(n) {}
    concurrent_vector(size_type n, const T &x) : v_(n, x) {}
    iterator push_back(const T &x) {
        auto &c = vp_tbb::chooser();
        if (c.region_depth > 0) {
            if (last_region_ != c.region_id) { last_region_ = c.region_id; region_start_ = v_.size(); }
            std::size_t k = v_.size() - region_start_;
            std::size_t at = region_start_ + (std::size_t) c.choose((int) (k + 1));
            return v_.insert(v_.begin() + at, x);
        }
        v_.push_back(x);
        return v_.end() - 1;
    }
    // During concurrent growth size() is only a snapshot: inside a parallel region it may miss pushes of
    // tasks that run "at the same time", i.e. it returns any value between the size at region start and now.
    size_type size() const {
        auto &c = vp_tbb::chooser();
        if (c.region_depth > 0 && last_region_ == c.region_id && v_.size() > region_start_)
            return region_start_ + (size_type) c.choose((int) (v_.size() - region_start_ + 1));
        return v_.size();
    }
    bool empty() const { return v_.empty(); }
    T& operator[](size_type i) { return v_[i]; }
    const T& operator[](size_type i) const { return v_[i]; }
    T& at(size_type i) { return v_.at(i); }
    const T& at(size_type i) const { return v_.at(i); }
    iterator begin() { return v_.begin(); }
    iterator end() { return v_.end(); }
    const_iterator begin() const { return v_.begin(); }
    const_iterator end() const { return v_.end(); }
    void clear() { v_.clear(); }
private:
    std::vector<T> v_;
    long last_region_ = -1;
    std::size_t region_start_ = 0;
};

class global_control {
public:
    enum parameter { max_allowed_parallelism, thread_stack_size, terminate_on_exception };
    global_control(parameter p, std::size_t v) : p_(p), v_(v) { live().push_back(this); }
    ~global_control() { auto &l = live(); l.erase(std::remove(l.begin(), l.end(), this), l.end()); }
    static std::size_t active_value(parameter p) {
        std::size_t a = 16; bool any = false;
        for (auto *g : live()) if (g->p_ == p && (!any || g->v_ < a)) { a = g->v_; any = true; }
        return a;
    }
private:
    parameter p_; std::size_t v_;
    static std::vector<global_control*>& live() { static std::vector<global_control*> l; return l; }
};
class task_group {};
}  // namespace tbb
namespace oneapi { namespace tbb { using ::tbb::global_control; } }
#endif
