#include "../../tbb/vp_tbb_model.hpp"
