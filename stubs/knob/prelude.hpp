// Assumed contract of oneapi::tbb::global_control (TBB reference: "the active value of a parameter is
// the minimum over all live global_control objects for it, or the default when there is none") made
// executable for CBMC: a small table of live limits + an arbitrary background limit left by the
// earlier history.  std::unique_ptr: minimal owning pointer (reset deletes the previous object AFTER
// taking the new one, as the standard specifies).
#ifndef VP_KNOB_PRELUDE
#define VP_KNOB_PRELUDE
typedef unsigned long vp_size_t;
namespace std { typedef unsigned long size_t; }
#define TBB_VERSION_MAJOR 2021
#define VP_SLOTS 4
#define VP_DEFAULT 1000000UL
bool vp_live[VP_SLOTS];
vp_size_t vp_val[VP_SLOTS];
bool vp_bg_live; vp_size_t vp_bg_val;          /* limits created before, by somebody else */
unsigned vp_ctor_calls, vp_dtor_calls;
vp_size_t vp_active() {
    vp_size_t a = VP_DEFAULT; bool any = false;
    if (vp_bg_live) { a = vp_bg_val; any = true; }
    for (int i = 0; i < VP_SLOTS; i++) if (vp_live[i] && (!any || vp_val[i] < a)) { a = vp_val[i]; any = true; }
    return a;
}
namespace oneapi { namespace tbb {
class global_control {
public:
    enum parameter { max_allowed_parallelism, thread_stack_size, terminate_on_exception };
    int slot;
    global_control(parameter p, std::size_t v) {
        slot = -1;
        for (int i = 0; i < VP_SLOTS; i++) if (slot < 0 && !vp_live[i]) slot = i;
        __CPROVER_assert(slot >= 0, "VP_BOUND more live global_control objects than the model tracks");
        if (slot >= 0) { vp_live[slot] = true; vp_val[slot] = v; }
        vp_ctor_calls++;
    }
    void vp_release() { if (slot >= 0) vp_live[slot] = false; vp_dtor_calls++; }
    ~global_control() { vp_release(); }
    static std::size_t active_value(parameter p) { return vp_active(); }
};
} }
namespace oneapi { namespace tbb { namespace info {
    /* number of cores available to the process: any value >= 1 (hardware dependent) */
    vp_size_t vp_hw;
    inline int default_concurrency() { return (int) vp_hw; }
} } }
namespace tbb { using oneapi::tbb::global_control; namespace info { using oneapi::tbb::info::default_concurrency; } }
namespace std {
    template<class T> const T& min(const T &a, const T &b) { return (b < a) ? b : a; }
    template<class T> const T& max(const T &a, const T &b) { return (a < b) ? b : a; }
}
/* CBMC's C++ front end does not run the destructor for a delete-expression; the owning-pointer stub
   therefore ends the lifetime of the pointee explicitly (what `delete p` does in C++). */
inline void vp_delete(oneapi::tbb::global_control *g) { g->vp_release(); }
namespace std {
template<class T> class unique_ptr {
public:
    T *p;      /* no user-provided constructor: a static unique_ptr is zero-initialised once, at program start
                  (CBMC's C++ front end would otherwise re-run a constructor on every call of the enclosing function) */
    void reset(T *q) { T *old = p; p = q; if (old) { vp_delete(old); } }
    void reset() { T *old = p; p = 0; if (old) { vp_delete(old); } }
    T* get() const { return p; }
    T& operator*() const { return *p; }
    T* operator->() const { return p; }
};
}
#endif
